"""C08 host clusters have exactly one owner; the allocator never double-allocates; freed clusters are reused.
  (1) proof gate: coq/Props/C08.v (device model: refcount = references and single ownership in every
      reachable state; an accepted allocation was free);
  (2) correspondence: the library's own allocation choices replayed through the model's guard
      (checks/devsim.py), on general histories and on allocator-stress histories (fill, scattered holes,
      multi-cluster writes across refcount-block slice boundaries, refcount widths 1..64 bit);
  (3) reuse bound: write/discard cycles over a fixed working set must not grow the host file."""
import os, json, shutil, collections
import qv, hist, seqrun, common, devsim

CONE = ['Model/Dev.v', 'Proofs/DevProps.v', 'Model/Alloc.v', 'Proofs/AllocProps.v', 'Props/C08.v']


def stress_ops(rng, g):
    cs = g.cs
    n = g.size // cs
    ops = []
    tag = 1
    c = 0
    while c < n:
        k = min(rng.choice([1, 2, 4, 8, 8]), n - c)
        if rng.random() < 0.9:
            ops.append(('W', c * cs, k * cs, tag))
            tag += 1
        c += k
    # fragment pattern: a free tail at the end of one refblock slice, the head of the next slice occupied, a
    # free run a little further in; then a multi-cluster write larger than the tail
    se = max(1, (512 * 8) >> g.ro)      # refcount entries per 512-byte slice
    for _ in range(rng.randrange(0, 4)):
        j = rng.randrange(1, max(2, n // se + 1))
        b = rng.randrange(3, 13)        # guess of (host index - guest index) after a sequential fill
        t = rng.choice([1, 2, 3])
        tail0 = se * j - b - t
        far0 = se * j - b + rng.randrange(1, 6)
        k = t + rng.choice([1, 2, 3])
        if tail0 < 0 or far0 + k > n:
            continue
        ops.append(('D', far0 * cs, k * cs))
        ops.append(('D', tail0 * cs, t * cs))
        if rng.random() < 0.3:
            ops.append(('F',))
        ops.append(('W', far0 * cs, k * cs, tag))
        tag += 1
        for x in range(t):
            ops.append(('W', (tail0 + x) * cs, cs, tag))
            tag += 1
        for _ in range(3):
            a = rng.randrange(0, n)
            ops.append(('D', a * cs, cs))
            ops.append(('W', a * cs, cs, tag))
            tag += 1
    for _ in range(rng.randrange(2, 7)):
        for _ in range(rng.randrange(1, 6)):
            a = rng.randrange(0, n)
            k = min(rng.choice([1, 1, 2, 3, 5]), n - a)
            ops.append(('D', a * cs, k * cs))
        if rng.random() < 0.4:
            ops.append(('F',))
        for _ in range(rng.randrange(1, 5)):
            a = rng.randrange(0, n)
            k = min(rng.choice([1, 2, 3, 4, 6, 9]), n - a)
            ops.append(('W', a * cs, k * cs, tag))
            tag += 1
        if rng.random() < 0.3:
            ops.append(('R', 0, min(n, 16) * cs))
    ops.append(('F',))
    return ops


def gen_stress(rng, d, cid):
    # refblock slices (512 bytes) must be smaller than a refblock (one cluster): clusters of 1 KiB and more
    cb = rng.choice([10, 10, 11, 9])
    ro = rng.choice([5, 6, 6, 4])
    n = rng.choice([150, 280])
    rbb = 9
    g = hist.Geom(cb, ro, n << cb, 9, (9, rng.choice([2, 8]) << 9), (rbb, rng.choice([2, 3, 8]) << rbb), punch=rng.choice([1, 0]))
    return g, stress_ops(rng, g), None, False, False



SCAN_IMPORTS = """From Coq Require Import NArith List Bool Arith.
From Q.Model Require Import Alloc.
From Q.Exec Require Import C08Exec.
Import ListNotations.
"""


def scan_correspondence(rng, n):
    """RefBlock::get_free_range / get_tail_free_range / alloc_range of the compiled code vs Model/Alloc.v on random slices"""
    d = qv.workdir('c08scan')
    qs = []
    for _ in range(n):
        ro = rng.choice([0, 1, 2, 3, 4, 4, 5, 6])
        nbytes = rng.choice([8, 8, 16, 64])
        bits = 1 << ro
        nent = nbytes * 8 // bits
        dens = rng.choice([0.0, 0.1, 0.4, 0.8, 1.0])
        vals = [(rng.choice([1, 1, 2]) if rng.random() < dens else 0) for _ in range(nent)]
        if ro == 0:
            vals = [min(v, 1) for v in vals]
        if rng.random() < 0.3:
            k = rng.randrange(0, nent)
            for i in range(k, nent):
                vals[i] = 0          # a free tail
        # pack big-endian per the format
        if bits >= 8:
            raw = b''.join(v.to_bytes(bits // 8, 'big') for v in vals)
        else:
            per = 8 // bits
            raw = bytearray(nbytes)
            for i, v in enumerate(vals):
                raw[i // per] |= v << ((i % per) * bits)
            raw = bytes(raw)
        start = rng.randrange(0, nent)
        count = rng.randrange(0, nent - start + 1) if rng.random() < 0.8 else rng.choice([1, 2, nent - start])
        count = min(count, nent - start)     # the caller's precondition (try_alloc_from_rb_slice checks it)
        qs.append((ro, raw, vals, start, count))
    p = os.path.join(d, 'q.txt')
    open(p, 'w').write(''.join('rbscan %d %s %d %d\n' % (ro, raw.hex(), start, count) for ro, raw, vals, start, count in qs))
    rc, out, err = qv.run_harness(['codec', p], timeout=300)
    lines = [l for l in out.split('\n') if l.startswith('rbscan ')]
    shutil.rmtree(d, ignore_errors=True)
    finds = []
    if len(lines) != len(qs):
        return [('scan', 'rbscan', 'the harness answered %d of %d scan queries: %s' % (len(lines), len(qs), err[-200:]), '')], 0
    terms = []
    keep = []

    def rng_opt(x):
        if x == '-':
            return 'None'
        a, b = x.split('..')
        return '(Some (%s, %s))' % (a, b)
    for (ro, raw, vals, start, count), ln in zip(qs, lines):
        if 'panic' in ln:
            finds.append(('scan', 'rbscan', 'the allocator scan panics on slice %s (refcount_order %d) start %d count %d' % (raw.hex(), ro, start, count), ln))
            continue
        kv = dict(x.split('=', 1) for x in ln.split()[1:])
        got = [x for x in kv['vals'].split(',') if x]
        terms.append('scan_verdict [%s]%%N %d %d %s %s %s [%s]%%N' % ('; '.join(map(str, vals)), start, count, rng_opt(kv['fr']), rng_opt(kv['tail']),
                                                                   'true' if kv['alloc'] == '1' else 'false', '; '.join(got)))
        keep.append((ro, raw, vals, start, count, ln))
    body = ''
    CH = 200
    for i in range(0, len(terms), CH):
        body += 'Eval vm_compute in [%s].\n' % ';\n '.join(terms[i:i + CH])
    rc, cout = qv.coq_eval('c08scan', body, SCAN_IMPORTS, timeout=600)
    if rc != 0:
        return [('scan', 'rbscan', 'the model evaluation failed: ' + cout[-300:], '')], len(qs)
    res = [x for l in qv.parse_N_list(cout) for x in l]
    what = {1: 'get_free_range', 2: 'get_tail_free_range', 3: 'alloc_range'}
    for r, (ro, raw, vals, start, count, ln) in zip(res, keep):
        if r:
            finds.append(('scan', 'rbscan', '%s of the compiled code differs from the model on refcounts %s (refcount_order %d), start %d count %d: %s' % (
                what.get(r, '?'), vals, ro, start, count, ln[:200]), 'rbscan %d %s %d %d' % (ro, raw.hex(), start, count)))
    return finds, len(qs)


def reuse_cases(rng, n):
    cases = []
    for k in range(n):
        cb = rng.choice([9, 10, 12])
        ro = rng.choice([3, 4, 6])
        nclu = rng.choice([24, 60])
        g = hist.Geom(cb, ro, nclu << cb, 9, (9, 4 << 9), (9, 4 << 9), punch=rng.choice([1, 0]))
        ws = sorted(rng.sample(range(nclu), rng.choice([4, 10, 20])))
        lines = []
        cycles = 14
        for cyc in range(cycles):
            for c in ws:
                lines.append('W %d %d %d' % (c * g.cs, g.cs, cyc + 1))
            if rng.random() < 0.5:
                lines.append('F')
            for c in ws:
                lines.append('D %d %d' % (c * g.cs, g.cs))
            lines.append('F')
            lines.append('X c%d' % cyc)
        cid = 'c08r_%d' % k
        cases.append({'cid': cid, 'g': g, 'ws': ws, 'cycles': cycles, 'text': hist.case_text(cid, g, lines)})
    return cases


def run(tier, seed, replay):
    t = qv.Timer()
    rng = qv.Rng(seed)
    gate = common.proof_gate('C08', CONE)
    rc, out = qv.harness_build()
    if rc != 0:
        print(out[-3000:])
        return 2
    n = 60 if tier == 'quick' else 1200
    finds, stats, d1 = devsim.run_sim(rng, n, tag='c08g')
    finds2, stats2, d2 = devsim.run_sim(rng, n // 2, tag='c08s', gen=gen_stress)
    finds = [f for f in finds + finds2 if 'C08' in devsim.CLASS_PROPS.get(f[0], ())]
    sfinds, nscan = scan_correspondence(rng, 400 if tier == 'quick' else 6000)
    finds += sfinds
    # reuse bound
    d3 = qv.workdir('c08r')
    rcases = reuse_cases(rng, 12 if tier == 'quick' else 120)
    obs = seqrun.run_cases_text(d3, [(c['cid'], c['text']) for c in rcases], timeout=900)
    for c in rcases:
        sizes = [int(l.split()[2]) for l in obs.get(c['cid'], []) if l.startswith('snap ')]
        errs = [l for l in obs.get(c['cid'], []) if l.startswith('res ') and l.split()[2] != 'ok']
        if errs:
            finds.append(('api', c['cid'], 'write/discard cycle: %s [%s]' % (' '.join(errs[0].split()[2:5]), c['g'].desc()), c['text']))
        elif len(sizes) >= c['cycles'] and sizes[-1] > sizes[1] + 2 * c['g'].cs:
            finds.append(('growth', c['cid'], 'host file grows over write/discard cycles of a fixed working set of %d clusters: lengths %s [%s]' % (
                len(c['ws']), sizes, c['g'].desc()), c['text']))
    violations, known = [], []
    kfs = [f for f in qv.known_findings().get('findings', []) if f.get('property') == 'C08']
    seen = collections.Counter()
    for (cls, cid, desc, text) in finds:
        kf = [f for f in kfs if f.get('match', {}).get('class') == cls and (not f['match'].get('desc_contains') or f['match']['desc_contains'] in desc)]
        if kf:
            if not any(x.startswith(kf[0]['id'] + ' ') for x in known):
                known.append('%s %s (e.g. %s)' % (kf[0]['id'], kf[0]['what'], desc[:200]))
            continue
        seen[cls] += 1
        if len(violations) >= 5:
            continue
        p = qv.write_replay('C08', cid + '.json', json.dumps({'class': cls, 'what': desc, 'case_text': text}))
        violations.append({'replay': p})
        print('  finding [%s] %s: %s' % (cls, cid, desc[:360]))
    for dd in (d1, d2, d3):
        shutil.rmtree(dd, ignore_errors=True)
    st = dict(stats)
    for k, v in stats2.items():
        st['stress_' + k] = v
    cov = {'evaluations': stats['cases'] + stats2['cases'] + len(rcases), 'distinct_nontrivial': stats['distinct_cases'] + stats2['distinct_cases'], 'nontrivial_rule': 'distinct histories (operation scripts) with at least one write',
           'rule': 'general sequential histories (fresh and independently built images) and allocator-stress histories (fill, scattered discards, multi-cluster writes; refblock slices of 512 bytes so that runs cross slice boundaries; refcount widths 8..64 bit) replayed through the extracted device model with the library\'s own allocation choices; file refcounts compared with the model at every flush; write/discard cycles over a fixed working set for the reuse bound',
           'samples': [], 'model_steps': stats['model_steps'] + stats2['model_steps'], 'allocator_scan_queries': nscan, 'distribution': st, 'findings_by_class': dict(seen)}
    return common.finish('C08', tier, seed, 'proof', gate, cov, t, violations, known,
                         ['the model is hand-written (coq/Model/Dev.v); it is tied to the library only by this correspondence on sampled histories',
                          'concurrent allocation is not modelled here (see C06)'],
                         'Theorems over the device model + replay of the library\'s allocation choices through the model guard + reuse bound.')
