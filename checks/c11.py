"""C11 discard contract: zeros inside, untouched outside, space released.  Discard-heavy histories
over images with every cluster kind (data, zero, preallocated zero, compressed, backing-provided,
unallocated), with and without backing file, arbitrary (offset, len) incl. unaligned, zero-length,
straddling, out-of-range and saturating values, punch supported or not; FlatDisk oracle with the
property's rule per cluster kind; the specification checker on the flushed file (released clusters
are free: exact refcounts); result persists across flush + reopen."""
import c10, common


def run(tier, seed, replay):
    n = 80 if tier == 'quick' else 800
    gate = common.proof_gate('C11', ['Model/Dev.v', 'Proofs/DevProps.v', 'Props/C11.v'])
    return c10.run_foreign('C11', tier, seed, ('read', 'api', 'reopen', 'valid', 'open'), n,
                           'Discard-heavy histories over all cluster kinds; FlatDisk rule of the property; validb on flushed files; reopen sweep.',
                           mix={'W': 25, 'R': 25, 'D': 35, 'F': 8, 'K': 3, 'S': 2, 'N': 2},
                           plain_n=(60 if tier == 'quick' else 600), level='proof', gate=gate, sim_n=(40 if tier == 'quick' else 400), allow_v2=True)
