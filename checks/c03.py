"""C03 flushed image is a valid qcow2 file with exact refcounts (independent checker = extracted Spec/Image.validb)."""
import seqprop


def run(tier, seed, replay):
    n = 150 if tier == 'quick' else 3000
    return seqprop.run_histories('C03', tier, seed, ('valid', 'map'), n, 30, replay=replay,
                                 explanation='Every file snapshot taken after a successful flush_meta is judged by the extracted specification checker validb (structure, COPIED flags, nothing beyond the virtual size, stored refcount = number of references for every cluster); get_mapping of every cluster is compared with the specification reader on the flushed file.')
