"""C03: see DESIGN.md section 3."""
import c10


def run(tier, seed, replay):
    n = 60 if tier == 'quick' else 1500
    return c10.run_foreign('C03', tier, seed, ('valid', 'map'), n, 'Every flushed snapshot judged by the extracted specification checker validb; get_mapping vs the specification reader.', plain_n=(90 if tier == 'quick' else 1500))
