"""C03 flushed image is a valid qcow2 file with exact refcounts.
(1) proof gate: coq/Props/C03.v - the verdict of the extracted checker validb means: for EVERY host cluster stored
    refcount = number of references, and COPIED references are single (soundness of the independent checker);
(2) exploration: every flushed snapshot of sampled histories (library-formatted and independently built images) is
    judged by that checker; get_mapping is compared with the specification reader."""
import c10, c06, common


def run(tier, seed, replay):
    n = 60 if tier == 'quick' else 600
    gate = common.proof_gate('C03', ['Spec/Entries.v', 'Spec/Image.v', 'Proofs/SpecProps.v', 'Props/C03.v'])
    rc = c10.run_foreign('C03', tier, seed, ('valid', 'map'), n, 'Checker soundness theorems (Props/C03.v) + every flushed snapshot judged by the extracted specification checker validb; get_mapping vs the specification reader.', plain_n=(90 if tier == 'quick' else 600), gate=gate)
    if rc != 0:
        return rc
    # concurrent histories: the file after the closing flush_meta must be valid too (evidence of this part replaces the first)
    return c06.run_conc('C03', tier, seed, replay, extra={'sequential_part': 'passed (see the first check line)'}, gate0=gate)
