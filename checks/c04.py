"""C04 every crash state is a safe qcow2 image; C05 synced data survives any later crash.
See crash.py for the crash-state construction.  C04: extracted safeb on every explored crash image.
C05: real library opens crash images taken after a sync point (flush_meta + fsync_range both Ok) and
every block must read as the synced value or as the value of an operation issued after the sync."""
import os, json, shutil, collections, hashlib
import qv, hist, seqrun, common, crash, foreign, c10


def gen_histories(rng, d, n, prefix, with_foreign=True):
    cases = []
    for k in range(n):
        cid = '%s%d' % (prefix, k)
        if with_foreign and rng.random() < 0.35:
            top = foreign.rand_desc(rng, with_backing=rng.random() < 0.6, allow_v2=False, cbs=[9, 9, 10])
            descs = [top]
            if top.backing_file:
                descs.append(foreign.backing_desc(rng, top))
            try:
                paths, truths = foreign.write_images(d, cid, descs)
            except ValueError:
                continue
            flat = foreign.Truth(descs).flat()
            bsb, l2, rb = hist.rand_params(rng, top.cluster_bits, allow_default=False)
            g = hist.Geom(top.cluster_bits, top.refcount_order, top.size, 9, l2, rb, punch=rng.choice([1, 1, 0]))
            images = paths
        else:
            g = hist.rand_geom(rng, cbs=[9, 9, 9, 10, 10, 11])
            g.bs = 9
            flat = hist.Flat(g.size)
            images = None
            descs = None
        ops = hist.gen_ops(rng, g, rng.randrange(4, 18), mix={'W': 50, 'D': 15, 'F': 12, 'S': 8, 'R': 8, 'K': 5, 'N': 2}, flush_end=False)
        ops = [o for o in ops if o[0] != 'O']
        if images is None and rng.random() < 0.35:
            # boundary scenario on a geometry whose L2 tables have several slices
            cbx = rng.choice([10, 11, 12])
            g = hist.Geom(cbx, rng.choice([0, 2, 4, 6]), rng.choice([3, 5]) * (1 << cbx) * 64, 9, (9, rng.choice([2, 3, 8]) << 9), (9, rng.choice([2, 4]) << 9), punch=rng.choice([1, 0]))
            flat = hist.Flat(g.size)
            bo = hist.boundary_ops(rng, g)
            if bo:
                ops = bo
        if images is None and rng.random() < 0.3:
            # ordering scenarios around discard: (a) a synced cluster is discarded and its host cluster reused by a
            # write to another guest cluster; (b) a discard in a slice that also holds a not yet flushed new mapping
            cbx = rng.choice([9, 10, 12])
            g = hist.Geom(cbx, rng.choice([2, 4, 6]), 40 << cbx, 9, (9, rng.choice([2, 8]) << 9), (9, rng.choice([2, 8]) << 9), punch=rng.choice([1, 0]))
            flat = hist.Flat(g.size)
            cs = g.cs
            a, b2, c3 = rng.sample(range(0, 30), 3)
            ops = []
            if rng.random() < 0.35:
                # (c) one discard across an L2 slice boundary (512-byte slices: 64 clusters each): the second slice starts
                # with unallocated clusters, a synced cluster follows; then the freed host clusters are reused
                g = hist.Geom(cbx, g.ro, 200 << cbx, 9, (9, rng.choice([2, 8]) << 9), g.rb, punch=g.punch)
                flat = hist.Flat(g.size)
                sl = rng.choice([1, 2])
                a1 = sl * 64 - rng.randrange(1, 4)
                a2 = sl * 64 + rng.randrange(1, 6)
                ops += [('W', a1 * cs, cs, 1), ('W', a2 * cs, cs, 2), ('W', 3 * cs, cs, 3), ('F',), ('S',),
                        ('D', a1 * cs, (a2 - a1 + 1) * cs), ('W', 100 * cs, cs, 4), ('W', 101 * cs, rng.choice([512, cs]), 5)]
            elif rng.random() < 0.5:
                ops += [('W', a * cs, cs, 1), ('F',), ('S',), ('D', a * cs, cs), ('W', b2 * cs + rng.choice([0, 512]), 512, 2)]
                if rng.random() < 0.5:
                    ops.append(('W', c3 * cs, cs, 3))
            else:
                ops += [('W', b2 * cs, cs, 1), ('F',), ('S',), ('W', a * cs, rng.choice([512, cs]), 2), ('D', b2 * cs, cs)]
                if rng.random() < 0.5:
                    ops.append(('W', c3 * cs, 512, 3))
            if rng.random() < 0.3:
                ops.append(('F',))
        if images is None and rng.random() < 0.2:
            # eviction write-back of a slice of a NEW table, on a host file whose free space holds stale bytes: the
            # table must be durable (zeroed + slice) before the L1 entry / refcount-table entry that links it
            cbx = rng.choice([10, 12])
            l2e = (1 << cbx) // 8
            g = hist.Geom(cbx, rng.choice([4, 6]), (rng.choice([3, 5]) * l2e) << cbx, 9, (9, 2 << 9), (9, rng.choice([2, 8]) << 9), punch=rng.choice([1, 1, 0]))
            g.tail = (rng.choice([16, 40]) << cbx, rng.choice([0xEE, 0x80, 0x01]))
            flat = hist.Flat(g.size)
            cs = g.cs
            t_new = rng.randrange(1, g.size // cs // l2e)
            a, b2 = rng.sample(range(0, l2e // 64), 2) if l2e // 64 >= 2 else (0, 0)
            ca, cb2 = a * 64 + rng.randrange(0, 64), b2 * 64 + rng.randrange(0, 64)
            cn = t_new * l2e + rng.randrange(0, l2e)
            ops = [('W', ca * cs, cs, 1), ('W', cb2 * cs, rng.choice([512, cs]), 2), ('F',), ('W', cn * cs, rng.choice([512, cs]), 3),
                   ('R', ca * cs, 512), ('R', cb2 * cs, 512)]
            if rng.random() < 0.5:
                ops.append(('W', (t_new * l2e + rng.randrange(0, l2e)) * cs, 512, 4))
            ops.append(('F',))
        # make some sync points: F immediately followed by S
        for _ in range(2):
            pos = rng.randrange(0, len(ops) + 1)
            ops[pos:pos] = [('F',), ('S',)]
        lines = ['X init']
        lines += [hist.op_line(o) for o in ops]
        lines += ['L lg']
        if images:
            text = 'case %s\n%s\nopt punch=%d\nX init\nopen %s\n%s\nend\n' % (cid, '\n'.join('image file ' + p for p in images), g.punch, g.params(), '\n'.join(lines[1:]))
        else:
            tl = getattr(g, 'tail', None)
            text = 'case %s\nimage format %d %d %d 512\nopt %spunch=%d\nX init\nopen %s\n%s\nend\n' % (cid, g.size, g.cb, g.ro, ('tail=%d:%d ' % tl) if tl else '', g.punch, g.params(), '\n'.join(lines[1:]))
        cases.append({'cid': cid, 'g': g, 'ops': ops, 'text': text, 'flat0': flat, 'images': images, 'descs': descs})
    return cases


def later_values(ops, g):
    later = collections.defaultdict(set)
    cs = g.cs
    for op in ops:
        if op[0] == 'W':
            for b in range(op[1] // 512, (op[1] + op[2] + 511) // 512):
                later[b].add('w%x' % ((op[3] << 40) | (b & 0xffffffffff)))
        elif op[0] == 'D':
            end = min(op[1] + op[2], g.size)
            st, sp_ = (op[1] + cs - 1) // cs * cs, end // cs * cs
            for b in range(st // 512, max(st, sp_) // 512):
                later[b].add('w0')
    return later


def seq_syncs(c, reqs, ls):
    """sync points of a sequential history: (op index, index of the sync's last request, synced block values,
    values later operations may put there, later ops, label)"""
    res = {int(l.split()[1]): l.split()[2:] for l in ls if l.startswith('res ')}
    # op numbering: open is op 0, ops follow
    opres = [res.get(i + 1, ['?']) for i in range(len(c['ops']))]
    syncs = []
    flat = hist.Flat(c['g'].size, init=c['flat0'].blk)
    flat.alloc = set(c['flat0'].alloc)
    for oi, op in enumerate(c['ops']):
        ok = opres[oi][0] == 'ok'
        if op[0] == 'W' and ok:
            flat.write(op[1], op[2], op[3], c['g'].cs)
        elif op[0] == 'D' and ok:
            flat.discard(op[1], op[2], c['g'].cs)
        if op[0] == 'S' and ok and oi > 0 and c['ops'][oi - 1][0] == 'F' and opres[oi - 1][0] == 'ok':
            idxs = [i for i, r in enumerate(reqs) if r['op'] == oi + 1]
            if idxs:
                lops = c['ops'][oi + 1:]
                syncs.append((oi, max(idxs), dict(flat.blk), later_values(lops, c['g']), lops, 'op %d' % (oi + 1)))
    return syncs


def conc_syncs(c, reqs, ls):
    """history = sequential prefix, one batch of concurrently running operations, sequential suffix.  A `Y`
    (flush_meta + fsync_range) of the batch that returned Ok is a sync point for everything the prefix
    acknowledged; the other operations of the batch and the suffix count as later operations (their blocks may
    read either way).  Its position in the request stream is its last fsync."""
    pre, par, suf = c['par']
    res = {}
    for l in ls:
        if l.startswith('res '):
            tk = l.split()
            res[int(tk[1])] = tk[2:]
    flat = hist.Flat(c['g'].size, init=c['flat0'].blk)
    flat.alloc = set(c['flat0'].alloc)
    syncs = []
    for oi, op in enumerate(pre):
        r = res.get(oi + 1, ['?'])
        ok = r[0] == 'ok'
        if op[0] == 'W' and ok:
            flat.write(op[1], op[2], op[3], c['g'].cs)
        elif op[0] == 'D' and ok:
            flat.discard(op[1], op[2], c['g'].cs)
        elif op[0] == 'Y' and ok:
            idxs = [i for i, q in enumerate(reqs) if q['op'] == oi + 1]
            if idxs:
                lops = pre[oi + 1:] + par + suf
                syncs.append((oi, max(idxs), dict(flat.blk), later_values(lops, c['g']), lops, 'op %d' % (oi + 1)))
    base = len(pre) + 1
    for ti, op in enumerate(par):
        r = res.get(base + ti, ['?'])
        # par results: res <n> <start step> <finish step> <result...>
        if op[0] == 'Y' and len(r) > 2 and r[2] == 'ok':
            idxs = [i for i, q in enumerate(reqs) if q['op'] == base and q['task'] == ti and q['kind'] == 'S' and q['ok']]
            if idxs:
                lops = [o for j, o in enumerate(par) if j != ti] + suf
                syncs.append((base + ti, max(idxs), dict(flat.blk), later_values(lops, c['g']), lops,
                              'flush_meta+fsync_range running concurrently (task %d of the batch)' % ti))
    syncs.sort(key=lambda x: x[1])
    return syncs


def gen_conc_histories(rng, d, n, prefix):
    """sequential writes, then a batch of concurrent operations containing a sync (Y) next to discards, writes and
    cache shrinking on clusters that share L2 / refcount slices with the acknowledged writes"""
    cases = []
    for k in range(n):
        cid = '%sp%d' % (prefix, k)
        cbx = rng.choice([9, 10, 12])
        g = hist.Geom(cbx, rng.choice([2, 4, 6]), 40 << cbx, 9, (9, rng.choice([2, 8]) << 9), (9, rng.choice([2, 8]) << 9), punch=rng.choice([1, 0]))
        cs = g.cs
        cl = rng.sample(range(0, 38), 8)
        tag = 0
        pre = []
        # clusters that exist (and are durable) before the interesting part
        for c0 in cl[:rng.randrange(1, 3)]:
            tag += 1
            pre.append(('W', c0 * cs, cs, tag))
        if rng.random() < 0.7:
            pre.append(('Y',))
        # acknowledged but not yet flushed writes
        for c0 in cl[2:2 + rng.randrange(1, 4)]:
            tag += 1
            pre.append(('W', c0 * cs + rng.choice([0, 512]), rng.choice([512, cs]), tag))
        par = [('Y',), ('D', cl[0] * cs, cs * rng.choice([1, 1, 2]))]
        for _ in range(rng.randrange(0, 3)):
            r = rng.random()
            if r < 0.5:
                tag += 1
                par.append(('W', rng.choice(cl[5:]) * cs + rng.choice([0, 512]), rng.choice([512, cs]), tag))
            elif r < 0.7:
                par.append(('K',))
            elif r < 0.85:
                par.append(('D', cl[1] * cs, cs))
            else:
                par.append(('Y',))
        rng.shuffle(par)
        suf = []
        if rng.random() < 0.3:
            tag += 1
            suf.append(('W', rng.choice(cl[5:]) * cs, 512, tag))
        # the same operations under several schedules (seed, scheduling mode, start delays)
        for sv in range(3):
            delays = [rng.choice([0, 0, 0, 3, 8, 15, 30]) for _ in par]
            lines = [hist.op_line(o) for o in pre]
            lines.append('par %d %d %d %d' % (rng.randrange(1, 1 << 40), rng.choice([0, 0, 1, 2, 3]), 200000, len(par)))
            lines += [('@%d ' % dl if dl else '') + hist.op_line(o) for o, dl in zip(par, delays)]
            lines += [hist.op_line(o) for o in suf]
            lines.append('L lg')
            scid = '%s_s%d' % (cid, sv)
            text = 'case %s\nimage format %d %d %d 512\nopt punch=%d\nX init\nopen %s\n%s\nend\n' % (scid, g.size, g.cb, g.ro, g.punch, g.params(), '\n'.join(lines))
            cases.append({'cid': scid, 'g': g, 'ops': pre + [('par', par, delays)] + suf, 'par': (pre, par, suf), 'text': text, 'flat0': hist.Flat(g.size), 'images': None, 'descs': None})
    return cases


def run_prop(prop, tier, seed, replay):
    t = qv.Timer()
    rng = qv.Rng(seed)
    gate = {'ok': True, 'obligations': 0, 'discharged': 0, 'failed': None, 'axioms': [], 'checker_cmd': '', 'gen': {}}
    if prop == 'C04':
        # soundness of the checker that judges the crash images
        gate = common.proof_gate('C04', ['Spec/Entries.v', 'Spec/Image.v', 'Spec/Cells.v', 'Model/Crash.v', 'Proofs/SpecProps.v', 'Proofs/CrashProps.v', 'Props/C04.v'])
    if prop == 'C05':
        gate = common.proof_gate('C05', ['Model/Crash.v', 'Proofs/CrashProps.v', 'Props/C05.v'])
    rc, out = qv.harness_build()
    if rc != 0:
        print(out[-3000:])
        return 2
    d = qv.workdir(prop.lower())
    nh = 60 if tier == 'quick' else 400
    budget = 400 if tier == 'quick' else 2500
    cases = gen_histories(rng, d, nh, prop.lower() + '_')
    cases += gen_conc_histories(rng, d, nh // 3, prop.lower() + '_')
    obs = seqrun.run_cases_text(d, [(c['cid'], c['text']) for c in cases], timeout=900)
    finds = []
    nimg = 0
    distinct_imgs = set()
    npoints = 0
    stats = collections.Counter()
    for c in cases:
        cid = c['cid']
        lp = os.path.join(d, cid + '.lg.log')
        ip = os.path.join(d, cid + '.init.img')
        if not (os.path.exists(lp) and os.path.exists(ip)):
            continue
        ls = obs.get(cid, [])
        if any(l.startswith('hang') or (' panic' in l) or (l.startswith('par ') and not l.startswith('par finished')) for l in ls):
            stats['history_aborted'] += 1
            continue
        reqs = crash.parse_log(lp)
        f0 = open(ip, 'rb').read()
        syncs = conc_syncs(c, reqs, ls) if c.get('par') else seq_syncs(c, reqs, ls)
        if prop == 'C04':
            # every crash state of every prefix, through the discipline theorem (see crash.discipline)
            dstat, dec, dinfo = crash.discipline(cid, f0, reqs, d)
            stats['discipline_' + dstat] += 1
            if dstat in ('undecodable', 'tie'):
                stats['discipline_%s: %s' % (dstat, ' '.join(str(dinfo).split()[:6]))] += 1
            if dstat == 'undisciplined':
                gi = list(crash.guided_images(f0, reqs, dec, dinfo[0], dinfo[1]))
                gpaths = []
                for j, (pi, desc, data) in enumerate(gi):
                    gp = os.path.join(d, '%s.g%d.img' % (cid, j))
                    open(gp, 'wb').write(data)
                    gpaths.append(gp)
                vd = qv.qdrv_check(gpaths, d)
                hit = [j for j, gp in enumerate(gpaths) if vd.get(gp, {}).get('safe') != '1']
                for gp in gpaths:
                    os.remove(gp)
                if hit:
                    pi, desc, data = gi[hit[0]]
                    v = vd.get(gpaths[hit[0]], {})
                    finds.append(('unsafe', c, '%s: crash image is not a safe qcow2 image: supported=%s tables=%s under=%s (found through the discipline check of the request log: event %d breaks refcount >= references for host cluster %d)' % (
                        desc, v.get('supported'), v.get('tables'), v.get('under'), dinfo[0], dinfo[1]), data))
                    continue
                stats['discipline_undisciplined_without_unsafe_image'] += 1
        imgs = []
        must = 0
        if prop == 'C05' and syncs:
            # slots of guest clusters that no later operation targets must not be written after the sync point
            # (Props/C05.v: then they keep their value in every later crash state); a slot that IS written again
            # gives crash images that the library has to read correctly - they are opened below, unsampled
            import cells
            try:
                dec = cells.decode(f0, reqs)
                tie = cells.check_syncs(dec)
            except cells.Undecodable as e:
                dec, tie = None, str(e)
            if dec is None or tie:
                stats['slot_frame_not_applicable: %s' % ' '.join(str(tie).split()[:5])] += 1
            else:
                allok = True
                for (soi, sidx, synced, later, later_ops, slabel) in syncs:
                    targeted = set()
                    for o in later_ops:
                        if o[0] in ('W', 'D'):
                            ncl_ = (c['g'].size + c['g'].cs - 1) // c['g'].cs
                            targeted.update(range(min(ncl_, o[1] // c['g'].cs), min(ncl_, (o[1] + max(o[2], 1) - 1) // c['g'].cs + 1)))
                    rw = cells.rewritten_synced_slots(dec, sidx, targeted)
                    for (gc, slot, oldt, newt, ri) in rw[:3]:
                        allok = False
                        durable = bytearray(f0)
                        pend = []
                        for i2, r2 in enumerate(reqs[:ri + 1]):
                            if not r2['ok'] or r2['kind'] == 'R':
                                continue
                            if r2['kind'] == 'S':
                                for p2 in pend:
                                    crash.apply(durable, p2)
                                pend = []
                            else:
                                pend.append(r2)
                        only = bytearray(durable)
                        crash.apply(only, reqs[ri])
                        imgs.append((ri, 'after request %d: only that request persisted (it rewrites the mapping slot of guest cluster %d, synced as %s, to %s, although no later operation targets the cluster)' % (ri, gc, oldt, newt), bytes(only)))
                        allimg = bytearray(durable)
                        for p2 in pend:
                            crash.apply(allimg, p2)
                        imgs.append((ri, 'after request %d: everything pending persisted (request rewrites the synced mapping slot of guest cluster %d)' % (ri, gc), bytes(allimg)))
                stats['histories_with_every_synced_slot_stable' if allok else 'histories_with_rewritten_synced_slots'] += 1
            must = len(imgs)
        for (pi, desc, data) in crash.crash_images(f0, reqs, rng, budget):
            imgs.append((pi, desc, data))
        npoints += len(set(p for p, _, _ in imgs))
        paths = []
        for j, (pi, desc, data) in enumerate(imgs):
            p = os.path.join(d, '%s.cr%d.img' % (cid, j))
            open(p, 'wb').write(data)
            paths.append(p)
        nimg += len(paths)
        for (_pi, _desc, _data) in imgs:
            distinct_imgs.add(hashlib.sha1(_data).digest())
        if prop == 'C04':
            vd = qv.qdrv_check(paths, d)
            for j, p in enumerate(paths):
                v = vd.get(p, {})
                if v.get('safe') != '1':
                    pi, desc, data = imgs[j]
                    r = reqs[pi]
                    finds.append(('unsafe', c, '%s (request %s %d+%d of op %d %s): crash image is not a safe qcow2 image: supported=%s tables=%s under=%s' % (
                        desc, r['kind'], r['off'], r['len'], r['op'], (hist.op_line(c['ops'][r['op'] - 1]) if not c.get('par') else 'task %d' % r['task']) if 0 < r['op'] <= len(c['ops']) else 'open',
                        v.get('supported'), v.get('tables'), v.get('under')), data))
                    break
        else:
            # C05: only crash points after a sync point
            if not syncs:
                stats['no_sync_point'] += 1
            texts = []
            metas = {}
            chain = c['images'][1:] if c['images'] else []
            total = c['g'].size // 512 * 512
            # clusters read on every crash image: all of a small disk; on a larger one the clusters any operation
            # touches, their neighbours and a random sample
            csz = c['g'].cs
            ncl = (total + csz - 1) // csz
            if ncl <= 300:
                rd_clusters = list(range(ncl))
            else:
                cl = set()

                def _ops(ol):
                    for o in ol:
                        if o[0] == 'par':
                            yield from _ops(o[1])
                        else:
                            yield o
                for o in _ops(c['ops']):
                    if o[0] in ('W', 'D', 'R'):
                        lo_c, hi_c = o[1] // csz, (o[1] + max(o[2], 1) - 1) // csz
                        cl.update(range(max(0, lo_c - 1), min(ncl, hi_c + 2)))
                cl.update(rng.sample(range(ncl), 24))
                rd_clusters = sorted(x for x in cl if x < ncl)
            rd_runs = []
            for x in rd_clusters:
                if rd_runs and rd_runs[-1][1] == x and (x - rd_runs[-1][0]) < 4:
                    rd_runs[-1][1] = x + 1
                else:
                    rd_runs.append([x, x + 1])
            rd_blocks = []
            rd_lines = []
            for lo_c, hi_c in rd_runs:
                off, end = lo_c * csz, min(hi_c * csz, total)
                if off < end:
                    rd_lines.append('R %d %d' % (off, end - off))
                    rd_blocks.extend(range(off // 512, end // 512))
            for j, (pi, desc, data) in enumerate(imgs):
                sp = [s for s in syncs if s[1] <= pi]
                if not sp:
                    continue
                soi = len(sp) - 1
                if j >= must and rng.random() > (0.5 if tier == 'quick' else 0.8):
                    continue
                ccid = '%s_x%d' % (cid, j)
                lines = ['case ' + ccid, 'image file ' + paths[j]] + ['image file ' + b for b in chain] + ['open ' + c['g'].params(ro=1)]
                lines += rd_lines
                lines.append('end')
                texts.append((ccid, '\n'.join(lines) + '\n'))
                metas[ccid] = (soi, pi, desc, j)
            obs2 = seqrun.run_cases_text(d, texts, timeout=900) if texts else {}
            for ccid, _ in texts:
                soi, pi, desc, j = metas[ccid]
                ls2 = obs2.get(ccid, [])
                op2 = [l for l in ls2 if l.startswith('open ')]
                stats['crash_images_opened'] += 1
                if not op2 or not op2[0].startswith('open ok'):
                    finds.append(('open', c, '%s: the library cannot open the crash image: %s' % (desc, op2[0] if op2 else 'hang/none'), imgs[j][2]))
                    break
                _, _, synced, later, later_ops, slabel = syncs[soi]
                vals = []
                bad = None
                for l in ls2:
                    if l.startswith('res '):
                        body = l.split()[2:]
                        if not body or body[0] != 'ok':
                            bad = 'read on the crash image: ' + ' '.join(body[:3])
                            break
                        vals.extend(body[2:])
                if bad is None:
                    for b, v in zip(rd_blocks, vals):
                        want = synced.get(b, 'w0')
                        if v != want and v not in later.get(b, ()):
                            bad = 'guest block %d reads %s; synced value %s, values of later operations %s' % (b, v, want, sorted(later.get(b, ())))
                            break
                if bad:
                    cls = 'lost-synced'
                    # the block is the target of a write issued after the sync point whose data is not
                    # durable yet while its mapping is: it reads the stale bytes of the host cluster
                    if bad.startswith('guest block'):
                        b = int(bad.split()[2])
                        cs_ = c['g'].cs
                        for w in later_ops:
                            if w[0] == 'W' and w[1] // cs_ * cs_ <= b * 512 < (w[1] + w[2] + cs_ - 1) // cs_ * cs_:
                                cls = 'stale-unsynced-write'
                    finds.append((cls, c, '%s, sync point = %s: %s' % (desc, slabel, bad), imgs[j][2]))
                    break
        for p in paths:
            os.remove(p)
    violations, known = [], []
    kfs = [f for f in qv.known_findings().get('findings', []) if f.get('property') == prop]
    seen = collections.Counter()
    for (cls, c, desc, data) in finds:
        kf = [f for f in kfs if f.get('match', {}).get('class') == cls and (not f['match'].get('desc_contains') or f['match']['desc_contains'] in desc)]
        if kf:
            if not any(x.startswith(kf[0]['id'] + ' ') for x in known):
                known.append('%s %s (e.g. %s)' % (kf[0]['id'], kf[0]['what'], desc[:260]))
            continue
        seen[cls] += 1
        if len(violations) >= 4:
            continue
        keep = os.path.join(qv.VERIF, 'evidence', 'replay')
        os.makedirs(keep, exist_ok=True)
        ip = os.path.join(keep, '%s-%s.crash.img' % (prop, c['cid']))
        open(ip, 'wb').write(data)
        text = c['text']
        for p in (c['images'] or []):
            q = os.path.join(keep, '%s-%s' % (prop, os.path.basename(p)))
            shutil.copy(p, q)
            text = text.replace(p, q)
        path = qv.write_replay(prop, c['cid'] + '.json', json.dumps({'class': cls, 'what': desc, 'geometry': c['g'].desc(), 'crash_image': ip,
                                                                   'ops': c['ops'], 'case_text': text}))
        violations.append({'replay': path})
        print('  finding [%s] %s [%s]: %s' % (cls, c['cid'], c['g'].desc(), desc[:420]))
    shutil.rmtree(d, ignore_errors=True)
    cov = {'evaluations': nimg, 'distinct_nontrivial': len(distinct_imgs), 'nontrivial_rule': 'distinct crash images (byte content)',
           'rule': 'crash images = (prefix of the completed request stream) x (subset of un-synced requests: all subsets up to %d pending, else nothing/everything/drop-one/keep-one + random) + block-level tearings; histories over library-formatted and independently built images incl. COW, discard, eviction write-back, flush_meta; plus histories with a batch of concurrently running operations (sync next to discards / writes / cache shrinking on shared slices, 3 schedules each), whose request stream is taken in the order the effects reached the file' % crash.EXH,
           'samples': [{'geometry': c['g'].desc(), 'ops': [hist.op_line(o) for o in c['ops'][:10]]} for c in cases[:2]],
           'histories_whose_every_crash_state_is_covered_by_the_discipline_theorem': stats.get('discipline_covered', 0), 'histories': len(cases), 'concurrent_histories': sum(1 for c in cases if c.get('par')), 'crash_points': npoints, 'crash_images': nimg, 'notes': dict(stats), 'findings_by_class': dict(seen)}
    return common.finish(prop, tier, seed, 'exploration', gate, cov, t, violations, known,
                         ["the crash model is the property's own: un-synced requests independently persisted, lost or torn at 512-byte granularity; the file length follows the persisted writes"],
                         'Crash-state exploration judged by the extracted specification checker safeb (C04) / by the real library opened on the crash image (C05).')


def run(tier, seed, replay):
    return run_prop('C04', tier, seed, replay)
