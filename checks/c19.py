"""C19 I/O back ends are interchangeable and match the host-file model.
The harness (`qh backend`) runs the same raw request sequences (read / write / zero-punch / sync; at, across and
beyond end of file, zero-length, multi-megabyte) and the same guest histories on SimFile (the in-memory host-file
model every other check runs on) and on the three real back ends over scratch files: Qcow2IoSync, Qcow2IoTokio,
Qcow2IoUring.  Every result (read count + content hash, Ok/Err/fallback of a punch), the final host file (length and
content hash) and the final guest content must be identical across the four."""
import os, json, shutil, collections
import qv, common


def gen_reqs(rng):
    reqs = []
    size = 0
    for _ in range(rng.randrange(4, 30)):
        k = rng.random()
        if k < 0.45:
            off = rng.choice([0, 512, 4096, size, max(0, size - 512), size + 4096, rng.randrange(0, 1 << 16) * 512, rng.randrange(0, 1 << 20)])
            ln = rng.choice([512, 512, 4096, 65536, 1, 3, 1000, 1 << 20, 3 << 20])
            reqs.append('W %d %d %d' % (off, ln, rng.randrange(1, 1 << 30)))
            size = max(size, off + ln)
        elif k < 0.8:
            off = rng.choice([0, 512, size, max(0, size - 100), max(0, size - 4096), size + 1, size + (1 << 20), rng.randrange(0, max(1, size))])
            ln = rng.choice([0, 512, 4096, 65536, 1, 7, 1 << 20, 3 << 20])
            reqs.append('R %d %d' % (off, ln))
        elif k < 0.95:
            off = rng.choice([0, 4096, size, max(0, size - 4096), size + 8192, rng.randrange(0, max(1, size)) // 512 * 512])
            ln = rng.choice([512, 4096, 65536, 1 << 20])
            reqs.append('Z %d %d' % (off, ln))
        else:
            reqs.append('S')
    if rng.random() < 0.3:
        # a file size limit (RLIMIT_FSIZE on the real files): writes ending at, crossing and beyond it - a write across
        # the limit stores the part below it and must be reported as failed by every back end
        lim = max(4096, (size // 512 + rng.choice([1, 8, 100])) * 512)
        reqs.append('L %d' % lim)
        for off, ln in [(lim - 4096, 4096), (lim - 2048, 4096), (lim - 512, 1024), (lim, 512), (lim - 1536, 1 << 16)]:
            if rng.random() < 0.6:
                reqs.append('W %d %d %d' % (off, ln, rng.randrange(1, 1 << 30)))
        reqs.append('R %d %d' % (max(0, lim - 8192), 16384))
        reqs.append('L 0')
        reqs.append('W %d 512 7' % (lim + 512))
        size = max(size, lim + 1024)
    # a full read-back
    reqs.append('R 0 %d' % max(512, min(size + 4096, 8 << 20)))
    return reqs


def gen_hist(rng):
    cb = rng.choice([9, 12, 16])
    ro = rng.choice([0, 4, 6])
    n = rng.choice([16, 64, 300])
    size = n << cb
    cs = 1 << cb
    ops = []
    tag = 1
    for _ in range(rng.randrange(5, 40)):
        k = rng.random()
        off = rng.randrange(0, size // 512) * 512
        ln = min(rng.choice([512, 512, cs, 2 * cs, cs + 512, 8 * cs]), size - off)
        if k < 0.5:
            ops.append('W %d %d %d' % (off, ln, tag))
            tag += 1
        elif k < 0.75:
            ops.append('R %d %d' % (off, ln))
        elif k < 0.9:
            ops.append('D %d %d' % (off // cs * cs, rng.choice([cs, 2 * cs, 5 * cs])))
        elif k < 0.96:
            ops.append('F')
        else:
            ops.append('K')
    return size, cb, ro, ops


def run(tier, seed, replay):
    t = qv.Timer()
    rng = qv.Rng(seed)
    gate = {'ok': True, 'obligations': 0, 'discharged': 0, 'failed': None, 'axioms': [], 'checker_cmd': '', 'gen': {}}
    rc, out = qv.harness_build()
    if rc != 0:
        print(out[-3000:])
        return 2
    d = qv.workdir('c19')
    nreq = 40 if tier == 'quick' else 600
    nh = 25 if tier == 'quick' else 400
    lines = []
    texts = {}
    for k in range(nreq):
        rq = gen_reqs(rng)
        cid = 'c19r_%d' % k
        texts[cid] = 'breq %s\n%s\nbend\n' % (cid, '\n'.join(rq))
        lines.append(texts[cid])
    for k in range(nh):
        size, cb, ro, ops = gen_hist(rng)
        cid = 'c19h_%d' % k
        tail = rng.choice([0, 0, 8, 64]) << cb
        texts[cid] = 'bhist %s %d %d %d %d\n%s\nbend\n' % (cid, size, cb, ro, tail, '\n'.join(ops))
        lines.append(texts[cid])
    sp = os.path.join(d, 's.txt')
    open(sp, 'w').write(''.join(lines))
    rc, out, err = qv.run_harness(['backend', sp, d], timeout=3000)
    res = collections.defaultdict(lambda: collections.defaultdict(list))
    for ln in out.split('\n'):
        tk = ln.split(None, 2)
        if len(tk) == 3:
            res[tk[0]][tk[1]].append(tk[2])
    shutil.rmtree(d, ignore_errors=True)
    finds = []
    stats = collections.Counter()
    unavailable = collections.Counter()
    if rc != 0:
        finds.append(('driver', 'all', 'the back-end driver exited with %s: %s' % (rc, (err or out)[-300:]), ''))
    # a back end that cannot start at all in this sandbox panics in every case; a panic in some cases is a finding
    dead = set()
    for be in ('sync', 'tokio', 'uring'):
        outs = [res.get(cid, {}).get(be, []) for cid in texts]
        if outs and all(o and 'unavailable' in o[0] for o in outs):
            dead.add(be)
    for cid, text in texts.items():
        per = res.get(cid, {})
        sim = per.get('sim')
        if not sim:
            finds.append(('driver', cid, 'no result for the host-file model', text))
            continue
        stats['cases'] += 1
        stats['steps'] += len(sim)
        # without hole punching the guest-visible results must be the same (host file length may differ)
        np_ = per.get('simnp')
        if np_ is not None:
            stats['compared_simnp'] += 1
            simg = [x for x in sim if not x.startswith('final')]
            if np_ != simg:
                i = next((k for k in range(min(len(np_), len(simg))) if np_[k] != simg[k]), min(len(np_), len(simg)))
                finds.append(('nopunch', cid, 'with hole punching unsupported (zero-write fallback) the history differs at step %d: %s | punching: %s' % (
                    i, np_[i] if i < len(np_) else '(missing)', simg[i] if i < len(simg) else '(missing)'), text))
        for be in ('sync', 'tokio', 'uring'):
            got = per.get(be, [])
            if be in dead:
                unavailable[be] += 1
                continue
            stats['compared_' + be] += 1
            if got != sim:
                i = next((k for k in range(min(len(got), len(sim))) if got[k] != sim[k]), min(len(got), len(sim)))
                finds.append((be, cid, 'back end %s differs from the host-file model at step %d: %s | model: %s' % (
                    be, i, got[i] if i < len(got) else '(missing)', sim[i] if i < len(sim) else '(missing)'), text))
    violations, known = [], []
    kfs = [f for f in qv.known_findings().get('findings', []) if f.get('property') == 'C19']
    seen = collections.Counter()
    for (be, cid, desc, text) in finds:
        kf = [f for f in kfs if f.get('match', {}).get('backend') in (None, be) and f['match'].get('desc_contains', '') in desc]
        if kf:
            if not any(x.startswith(kf[0]['id'] + ' ') for x in known):
                known.append('%s %s (e.g. %s)' % (kf[0]['id'], kf[0]['what'], desc[:200]))
            continue
        seen[be] += 1
        if len(violations) >= 5:
            continue
        p = qv.write_replay('C19', cid + '.json', json.dumps({'backend': be, 'what': desc, 'script': text}))
        violations.append({'replay': p})
        print('  finding [%s] %s: %s' % (be, cid, desc[:300]))
    ass = ['scratch files live on the filesystem of /verif/work; buffered I/O only (direct I/O is not exercised: O_DIRECT support of the scratch filesystem is not assumed)',
           'a back end that cannot start in this sandbox is reported here and skipped: %s' % (dict(unavailable) or 'none skipped')]
    cov = {'evaluations': stats['cases'], 'distinct_nontrivial': qv.distinct_nontrivial(list(texts.values()), needs=('W ', 'Z ')), 'nontrivial_rule': 'distinct scripts with at least one write or punch',
           'rule': 'raw request sequences on an initially empty file: writes (512 B .. 3 MiB, unaligned lengths too) at 0 / EOF / beyond EOF / random, reads incl. zero-length, across and beyond EOF, punches inside / across / beyond EOF, syncs, writes at / across / beyond a file size limit (RLIMIT_FSIZE), final read-back; guest histories (write / read / discard / flush / shrink) on freshly formatted images of 3 cluster sizes x 3 refcount widths; compared: every result, final host file length + hash, final guest sweep hash',
           'samples': [texts[k] for k in list(texts)[:2]], 'distribution': dict(stats), 'backends_unavailable': dict(unavailable), 'findings_by_backend': dict(seen)}
    return common.finish('C19', tier, seed, 'exploration', gate, cov, t, violations, known, ass,
                         'Differential run of SimFile and the three real back ends on the same request sequences and guest histories.')
