"""Proof gate and verdict logic shared by all property checks."""
import os, sys, json, re, time
import qv


def setup():
    """MANIFEST.setup_cmd: build everything from files on disk"""
    t = qv.Timer()
    rc, out, rep = qv.regen()
    print(out.strip())
    rc, out = qv.coq_make()
    print('coq build rc=%d (%.0fs)' % (rc, t.s()))
    if rc != 0:
        print(out[-3000:])
    rc2, out2 = qv.harness_build()
    print('harness build rc=%d (%.0fs)' % (rc2, t.s()))
    if rc2 != 0:
        print(out2[-3000:])
    drv = os.path.join(qv.VERIF, 'driver', 'build.sh')
    if os.path.exists(drv):
        rc3, out3 = qv.sh('sh build.sh', cwd=os.path.dirname(drv))
        print('driver build rc=%d' % rc3)
        if rc3 != 0:
            print(out3[-3000:])
    # setup never fails the pipeline on a broken proof: the per-property checks report it
    return 0 if rc2 == 0 else 1


def proof_gate(prop, cone):
    """rebuild Gen + the cone of Props/<prop>.v; returns a dict describing the obligations"""
    res = {'ok': False, 'obligations': 0, 'discharged': 0, 'failed': None, 'axioms': [], 'checker_cmd': '',
           'gen': {}, 'notes': []}
    rc, out, rep = qv.regen()
    res['gen'] = {'translated': len(rep.get('translated', [])), 'untranslated': rep.get('untranslated', [])}
    if rc != 0:
        res['failed'] = {'file': 'gen/rs2v.py', 'item': 'translator', 'line': 0, 'log': out[-2000:]}
        return res
    bad = qv.gate_sources()
    if bad:
        res['failed'] = {'file': bad[0], 'item': 'forbidden token', 'line': 0, 'log': '\n'.join(bad)}
        return res
    target = 'Props/%s.vo' % prop
    rc, out = qv.coq_make([target])
    res['checker_cmd'] = 'python3 gen/rs2v.py && cd coq && coq_makefile -f _CoqProject -o Makefile && make %s && coqc <-Q..> Props/%s.v  (Coq 8.16.1, full .vo build)' % (target, prop)
    res['obligations'] = qv.count_qed(cone)
    if rc != 0:
        f = qv.coq_failed_item(out) or {'file': '?', 'item': None, 'line': 0}
        f['log'] = out[-3000:]
        res['failed'] = f
        # count what did compile
        done = 0
        for c in cone:
            # a compiled file left over from an earlier run does not count: `make -q` says whether it is up to date
            # with respect to the sources as they are now (regenerated Gen included)
            if os.path.exists(os.path.join(qv.COQ, c[:-2] + '.vo')) and c != f.get('file'):
                rq, _ = qv.sh('timeout 120 make -q %s' % (c[:-2] + '.vo'), cwd=qv.COQ)
                if rq == 0:
                    done += qv.count_qed([c])
        res['discharged'] = done
        return res
    rc, pout = qv.coq_props(prop)
    if rc != 0:
        res['failed'] = {'file': 'Props/%s.v' % prop, 'item': None, 'line': 0, 'log': pout[-3000:]}
        return res
    ass = qv.parse_assumptions(pout)
    res['axioms'] = ass
    n_thm = len(re.findall(r'^Print Assumptions', open(os.path.join(qv.COQ, 'Props', prop + '.v')).read(), re.M))
    if len(ass) != n_thm:
        res['failed'] = {'file': 'Props/%s.v' % prop, 'item': 'Print Assumptions count', 'line': 0,
                         'log': 'expected %d assumption reports, saw %d' % (n_thm, len(ass))}
        return res
    for a in ass:
        if a != 'closed':
            extra = [x for x in a if x not in qv.ALLOWED_AXIOMS]
            if extra:
                res['failed'] = {'file': 'Props/%s.v' % prop, 'item': 'axioms', 'line': 0, 'log': 'axioms: %s' % extra}
                return res
    res['discharged'] = res['obligations']
    res['ok'] = True
    return res


TRUSTED = [
    'Coq 8.16.1 kernel incl. vm_compute (used in Examples, refuted-witnesses, finite sweeps); no native_compute',
    'gen/rs2v.py + gen/rsparse.py: parse the Rust subset and print RExpr terms (integer widths from declared types)',
    'Base/RExpr.v: the semantics given to the translated Rust subset (checked arithmetic, casts, unwrap)',
    'harness/ (SimFile in-memory Qcow2IoOps, DetExec scheduler) and bin/check diffing: a bug there can hide a divergence',
    'rustc/cargo toolchain building /repo and the harness',
]


def finish(prop, tier, seed, level, gate, cov, timer, violations, known, assumptions, explanation):
    """print verdict lines, write evidence, return exit code"""
    cov = dict(cov)
    cov['obligations'] = gate['obligations']
    cov['discharged'] = gate['discharged']
    cov['checker_cmd'] = gate['checker_cmd']
    cov['trusted_base'] = TRUSTED + ['axioms reported by Print Assumptions: %s' % (
        'none (all pinned theorems closed under the global context)' if all(a == 'closed' for a in gate['axioms']) else gate['axioms'])]
    cov['gen'] = gate['gen']
    cov['explanation'] = explanation
    cov['known_findings_reported'] = known
    rc = 0
    for k in known:
        print('KNOWN-FINDING: property=%s %s' % (prop, k))
    nviol = 0
    for v in violations:
        nviol += 1
        print('VIOLATION property=%s replay=%s%s' % (prop, v['replay'], ' no-failing-input-found' if v.get('nofail') else ''))
        rc = 1
    if not gate['ok'] and not violations:
        # a proof obligation or the tie no longer checks and the search found no failing input
        f = gate['failed'] or {}
        path = qv.write_replay(prop, 'obligation.txt',
                               'property %s: proof obligation no longer checks\nfile: %s\nitem: %s\nline: %s\n\n%s\n' % (
                                   prop, f.get('file'), f.get('item'), f.get('line'), f.get('log', '')))
        print('VIOLATION property=%s replay=%s no-failing-input-found' % (prop, path))
        nviol += 1
        rc = 1
    qv.write_evidence(prop, tier, seed, level, cov, timer.s(), nviol, assumptions)
    print('check %s: %s  (tier %s, %.1fs, obligations %d/%d)' % (
        prop, 'OK' if rc == 0 else 'FAILED', tier, timer.s(), gate['discharged'], gate['obligations']))
    return rc


def replay(prop, path):
    """bin/check <Cxx> --replay <file>: re-runs the recorded input on the current /repo and prints what the library does
    next to what the replay file recorded.  Exit 1 when the run shows a panic / deadlock / hang / error marker or the
    file records a broken proof obligation; exit 0 otherwise (compare the printed observation with the 'what' field:
    the per-property oracles are applied by the normal check run, not here)."""
    import shutil
    txt = open(path).read()
    try:
        j = json.loads(txt)
    except ValueError:
        print(txt[:4000])
        print('replay %s: this file records a proof obligation / correspondence that no longer checks; run `bin/check %s` to re-check it' % (prop, prop))
        return 1
    print('recorded: %s' % (str(j.get('what') or j.get('finding') or '')[:600]))
    text = j.get('case_text') or j.get('script')
    rc, out = qv.harness_build()
    if rc != 0:
        print(out[-2000:])
        return 2
    d = qv.workdir('replay')
    bad = False
    if isinstance(text, str) and text.startswith(('case ', 'breq ', 'bhist ')):
        fpath = os.path.join(d, 'case.txt')
        open(fpath, 'w').write(text)
        args = ['backend', fpath, d] if text.startswith('b') else [fpath, d]
        try:
            rc, out, err = qv.run_harness(args, timeout=600)
        except Exception as e:
            rc, out, err = 3, '', str(e)
        for ln in out.split('\n')[:400]:
            print('  ' + ln[:300])
        bad = rc != 0 or any(k in out for k in (' panic', 'deadlock', 'hang ', 'budget'))
    elif 'script(limit op:key ...)' in j:
        fpath = os.path.join(d, 's.txt')
        open(fpath, 'w').write(j['script(limit op:key ...)'] + '\n')
        rc, out, err = qv.run_harness(['cache', fpath], timeout=60)
        print(out[:3000])
    elif 'lines' in j or 'query' in j:
        q = j.get('lines') or [j.get('query')]
        fpath = os.path.join(d, 'q.txt')
        open(fpath, 'w').write('\n'.join(q) + '\n')
        rc, out, err = qv.run_harness(['codec', fpath], timeout=60)
        print(out[:3000])
    else:
        print(json.dumps(j, indent=1)[:3000])
    shutil.rmtree(d, ignore_errors=True)
    print('replay %s: %s' % (prop, 'the library still misbehaves on this input (panic / deadlock / hang)' if bad else 'done; compare with the recorded finding'))
    return 1 if bad else 0
