"""Correspondence between the slice-cache model (coq/Model/Cache.v) and src/cache.rs, through the cfg-gated
hook cache::verif::cache_script: random scripts of load / hold / release / dirty / lookup / shrink steps on small
caches; after every step the cached key set and the dirty victims returned by commit must be what the model
allows (victims: unused entries with the smallest LRU stamp, evicted exactly while the cache is over its limit
and an unused entry exists).  The model is evaluated inside Coq (vm_compute)."""
import os, shutil
import qv

IMPORTS = '''From Coq Require Import NArith List Bool.
From Q.Model Require Import Cache.
Import ListNotations.
Open Scope N_scope.
'''
OPN = {0: 'CLoad', 1: 'CHold', 2: 'CRelease', 3: 'CDirty', 4: 'CGet', 5: 'CShrink'}


def gen_script(rng):
    limit = rng.choice([1, 2, 2, 3, 4, 6])
    nkeys = limit + rng.choice([1, 2, 4])
    ops = []
    for _ in range(rng.randrange(5, 40)):
        k = rng.randrange(0, nkeys)
        op = rng.choice([0, 0, 0, 0, 1, 1, 2, 3, 3, 4, 4, 5])
        ops.append((op, k))
    return limit, ops


def run(rng, n):
    """returns (findings, nsteps): findings = [(script index, step, description, script text)]"""
    d = qv.workdir('cachesim')
    scripts = [gen_script(rng) for _ in range(n)]
    p = os.path.join(d, 's.txt')
    open(p, 'w').write('\n'.join('%d %s' % (lim, ' '.join('%d:%d' % o for o in ops)) for lim, ops in scripts) + '\n')
    rc, out, err = qv.run_harness(['cache', p], timeout=300)
    if rc != 0:
        shutil.rmtree(d, ignore_errors=True)
        return [(0, 0, 'the hook driver failed: %s' % (err[-300:] or out[-300:]), '')], 0
    obs = []
    for ln in out.split('\n'):
        if ln.startswith('script '):
            obs.append([])
        elif '|' in ln and obs:
            a, b = ln.split('|')
            obs[-1].append(([int(x) for x in a.strip(' []').split(',') if x.strip()], [int(x) for x in b.strip(' []').split(',') if x.strip()]))
    terms = []
    nsteps = 0
    for (lim, ops), ob in zip(scripts, obs):
        prev = set()
        steps = []
        for (op, k), (keys, ret) in zip(ops, ob):
            nsteps += 1
            if op == 0:
                evs = sorted(prev - set(keys))
                o = 'CLoad %d [%s]' % (k, '; '.join(map(str, evs)))
            elif op == 5:
                o = 'CShrink'
            else:
                o = '%s %d' % (OPN[op], k)
            steps.append('(%s, [%s], [%s])' % (o, '; '.join(map(str, keys)), '; '.join(map(str, ret))))
            prev = set(keys)
        terms.append('match check_script (cinit %d) [%s] 0 with None => 0 | Some i => i + 1 end' % (lim, ';\n '.join(steps)))
    body = ''
    CH = 100
    for i in range(0, len(terms), CH):
        body += 'Eval vm_compute in [%s].\n' % ';\n'.join(terms[i:i + CH])
    rc, cout = qv.coq_eval('cache', body, IMPORTS, timeout=600)
    shutil.rmtree(d, ignore_errors=True)
    if rc != 0:
        return [(0, 0, 'the model evaluation failed: ' + cout[-400:], '')], nsteps
    res = [x for l in qv.parse_N_list(cout) for x in l]
    finds = []
    for si, r in enumerate(res):
        if r:
            lim, ops = scripts[si]
            st = r - 1
            finds.append((si, st, 'cache of %d entries: at step %d (%s %d) the code left keys %s and returned dirty victims %s, which the model does not allow (after %s)' % (
                lim, st, OPN[ops[st][0]], ops[st][1], obs[si][st][0], obs[si][st][1], ['%s %d' % (OPN[o], k) for o, k in ops[:st]][-8:]),
                '%d %s' % (lim, ' '.join('%d:%d' % o for o in ops))))
    return finds, nsteps
