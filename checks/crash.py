"""Crash-state exploration shared by C04 and C05.
A history runs on SimFile with the full request log (payloads).  For crash points (prefixes of the
completed-request stream) the un-synced requests since the last completed fsync are independently
persisted, lost, or torn at 512-byte block granularity, which yields crash images:
  * every subset of the pending requests when there are at most EXH of them, otherwise all
    'drop one' / 'keep one' subsets plus random subsets;
  * plus block-level tearings (each block of each pending request chosen independently).
Each image is judged by the extracted specification checker safeb (C04); for C05 the real library
opens the image and every block synced earlier must read as the synced value or the value of a
later operation."""
import os, json, shutil, collections
import qv, hist, seqrun

EXH = 7


def parse_log(path):
    reqs = []
    for ln in open(path):
        tk = ln.split()
        if not tk:
            continue
        kind, off, ln_, ok, op = tk[0], int(tk[1]), int(tk[2]), tk[3] == '1', int(tk[4])
        payload = bytes.fromhex(tk[9]) if len(tk) > 9 else None
        reqs.append({'kind': kind, 'off': off, 'len': ln_, 'ok': ok, 'op': op, 'task': int(tk[5]), 'aseq': int(tk[8]), 'payload': payload})
    # the order in which the effects reached the file (differs from issue order when operations run concurrently);
    # requests that were never applied had no effect
    reqs = sorted([r for r in reqs if r['aseq'] >= 0], key=lambda r: r['aseq'])
    return reqs


def apply(img, r, blocks=None):
    """apply request r to bytearray img (whole, or only the listed 512-byte blocks of its range)"""
    if r['kind'] == 'W':
        end = r['off'] + r['len']
        if len(img) < end:
            img.extend(bytes(end - len(img)))
        if blocks is None:
            img[r['off']:end] = r['payload']
        else:
            for b in blocks:
                lo = max(r['off'], b * 512)
                hi = min(end, (b + 1) * 512)
                if lo < hi:
                    img[lo:hi] = r['payload'][lo - r['off']:hi - r['off']]
    elif r['kind'] == 'Z':
        end = min(r['off'] + r['len'], len(img))
        if blocks is None:
            if r['off'] < end:
                img[r['off']:end] = bytes(end - r['off'])
        else:
            for b in blocks:
                lo = max(r['off'], b * 512)
                hi = min(end, (b + 1) * 512)
                if lo < hi:
                    img[lo:hi] = bytes(hi - lo)


def crash_images(f0, reqs, rng, budget, points=None):
    """yields (point_index, description, bytes).  point k = crash after request k completed."""
    durable = bytearray(f0)
    pending = []
    n = 0
    mods = [i for i, r in enumerate(reqs) if r['kind'] in 'WZS' and r['ok']]
    if not mods:
        return
    per_point = max(4, budget // max(1, len(mods)))
    for i, r in enumerate(reqs):
        if not r['ok'] or r['kind'] == 'R':
            continue
        if r['kind'] == 'S':
            for p in pending:
                apply(durable, p)
            pending = []
            continue
        pending.append(r)
        if points is not None and i not in points:
            continue
        k = len(pending)
        subsets = []
        if k <= EXH:
            subsets = list(range(1 << k))
        else:
            full = (1 << k) - 1
            subsets = [0, full] + [full ^ (1 << j) for j in range(k)] + [1 << j for j in range(k)]
            subsets += [rng.getrandbits(k) for _ in range(per_point)]
        if len(subsets) > per_point:
            # always keep: nothing, everything, drop-one, only-last
            keep = {0, (1 << k) - 1, 1 << (k - 1)} | {((1 << k) - 1) ^ (1 << j) for j in range(k)}
            rest = [s for s in subsets if s not in keep]
            rng.shuffle(rest)
            subsets = list(keep) + rest[:max(0, per_point - len(keep))]
        for s in set(subsets):
            img = bytearray(durable)
            for j, p in enumerate(pending):
                if s >> j & 1:
                    apply(img, p)
            yield (i, 'after request %d: persisted subset %s of %d pending' % (i, bin(s), k), bytes(img))
        # tearing: per block of each pending request
        for _ in range(2):
            img = bytearray(durable)
            for p in pending:
                if p['kind'] == 'W' or p['kind'] == 'Z':
                    bl = [b for b in range(p['off'] // 512, (p['off'] + p['len'] + 511) // 512) if rng.random() < 0.5]
                    apply(img, p, blocks=bl)
            yield (i, 'after request %d: block-level tearing of %d pending' % (i, k), bytes(img))


# ---------------------------------------------------------------- discipline (coq/Model/Crash.v)
def discipline(cid, f0, reqs, d):
    """decode the request log into cell events (lib/cells.py), tie the decoding to the images at every sync point, and
    run the extracted discipline check.  -> (status, dec, info)
       'covered'        the log is disciplined: by Proofs/CrashProps.disciplined_all_crash_states_safe EVERY crash
                        state of EVERY prefix keeps refcount >= references (not only the sampled subsets)
       'undisciplined'  info = (event index, host cluster) of the first event that breaks the bounds
       'undecodable'    the log leaves the class the decoder handles (info = why)
       'tie'            the incremental decoding disagrees with a from-scratch reading of a synced image (decoder
                        problem: the history is left to the sampled exploration)"""
    import cells, subprocess
    try:
        dec = cells.decode(f0, reqs)
    except cells.Undecodable as e:
        return 'undecodable', None, str(e)
    bad = cells.check_syncs(dec) or cells.check_syncs_coq(dec, d, cid, os.path.join(qv.VERIF, 'driver', 'qdrv'))
    if bad:
        return 'tie', dec, bad
    p = os.path.join(d, cid + '.disc.txt')
    open(p, 'w').write(cells.script(cid, dec))
    out = subprocess.run('ulimit -s unlimited; exec %s disc %s' % (os.path.join(qv.VERIF, 'driver', 'qdrv'), p), shell=True,
                         stdout=subprocess.PIPE, stderr=subprocess.DEVNULL, text=True, timeout=600).stdout
    os.remove(p)
    if ('%s disc=1' % cid) in out:
        return 'covered', dec, None
    if ('%s disc=0' % cid) not in out:
        return 'tie', dec, 'the model driver gave no verdict'
    ok, ei, h = cells.py_disciplined(dec)
    if ok:
        return 'tie', dec, 'extracted check and its re-implementation disagree'
    return 'undisciplined', dec, (ei, h)


def guided_images(f0, reqs, dec, ei, h):
    """crash images aimed at the cell whose bound broke: the writes that carry a reference to host cluster h persist,
    the writes that carry its refcount do not (and variants)"""
    ri = dec['events'][ei][3] if ei >= 0 else -1
    durable = bytearray(f0)
    pending = []
    for i, r in enumerate(reqs[:ri + 1]):
        if not r['ok'] or r['kind'] == 'R':
            continue
        if r['kind'] == 'S':
            for _, p in pending:
                apply(durable, p)
            pending = []
        else:
            pending.append((i, r))
    if ei < 0:
        yield (max(ri, 0), 'the initial image', bytes(durable))
        return
    pts = {e[3] for e in dec['events'][:ei + 1] if e[0] == 'S' and h in e[2]}
    rcs = {e[3] for e in dec['events'][:ei + 1] if e[0] == 'R' and e[1] == h}
    idx = [i for i, _ in pending]
    masks = [('only the writes that reference the cluster', [i in pts for i in idx]),
             ('everything but the writes of its refcount', [i not in rcs for i in idx]),
             ('references without refcount writes', [(i in pts) and (i not in rcs) for i in idx]),
             ('everything but refcount-only writes', [(i not in rcs) or (i in pts) for i in idx])]
    seen = set()
    for what, m in masks:
        key = tuple(m)
        if key in seen:
            continue
        seen.add(key)
        img = bytearray(durable)
        for keep, (_, p) in zip(m, pending):
            if keep:
                apply(img, p)
        yield (ri, 'after request %d, %s persisted (host cluster %d, %d pending)' % (ri, what, h, len(pending)), bytes(img))


def safety_finds(c, d, rng, budget, stats, max_points=None, verdict='safe'):
    """C04's judgement of one logged history (files <cid>.lg.log / <cid>.init.img in d): discipline theorem first
    (all crash states), then the sampled crash images under the extracted checker safeb (streamed in chunks; with
    max_points the crash points are the requests around header / refcount-table writes plus a random sample).
    -> [(class, case, description, image bytes)]"""
    import cells
    cid = c['cid']
    lp = os.path.join(d, cid + '.lg.log')
    ip = os.path.join(d, cid + '.init.img')
    if not (os.path.exists(lp) and os.path.exists(ip)):
        stats['no_log'] += 1
        return []
    reqs = parse_log(lp)
    f0 = open(ip, 'rb').read()
    dstat, dec, dinfo = discipline(cid, f0, reqs, d)
    stats['discipline_' + dstat] += 1
    if dstat in ('undecodable', 'tie'):
        stats['discipline_%s: %s' % (dstat, ' '.join(str(dinfo).split()[:6]))] += 1
    points = None
    mods = [i for i, r in enumerate(reqs) if r['kind'] in 'WZ' and r['ok']]
    if max_points and len(mods) > max_points:
        h = cells.parse_header(f0)
        hot = set()
        if h:
            lo, hi = h['rt_off'], h['rt_off'] + (h['rt_clusters'] << h['cb'])
            for i in mods:
                r = reqs[i]
                if r['off'] < 512 or (r['off'] < hi and r['off'] + r['len'] > lo):
                    hot.update(range(i - 6, i + 7))
        points = (hot & set(mods)) | set(rng.sample(mods, max_points))

    def gen():
        if dstat == 'undisciplined':
            for x in guided_images(f0, reqs, dec, dinfo[0], dinfo[1]):
                yield (True,) + x
        for x in crash_images(f0, reqs, rng, budget, points=points):
            yield (False,) + x
    finds = []
    chunk = []
    pts = set()

    def flush():
        paths = []
        for j, (_, pi, desc, data) in enumerate(chunk):
            p = os.path.join(d, '%s.cr%d.img' % (cid, j))
            open(p, 'wb').write(data)
            paths.append(p)
        vd = qv.qdrv_check(paths, d)
        for j, p in enumerate(paths):
            v = vd.get(p, {})
            if v.get(verdict) != '1' and not finds:
                guided, pi, desc, data = chunk[j]
                r = reqs[pi] if 0 <= pi < len(reqs) else {'kind': '?', 'off': 0, 'len': 0, 'op': 0}
                finds.append(('unsafe', c, '%s (request %s %d+%d of op %d): crash image is not a safe qcow2 image: supported=%s tables=%s under=%s%s' % (
                    desc, r['kind'], r['off'], r['len'], r['op'], v.get('supported'), v.get('tables'), v.get('under'),
                    ' (found through the discipline check)' if guided else ''), data))
        for p in paths:
            os.remove(p)
        stats['crash_images'] += len(paths)
        del chunk[:]
    for x in gen():
        chunk.append(x)
        pts.add(x[1])
        if len(chunk) >= 128:
            flush()
            if finds:
                break
    if chunk and not finds:
        flush()
    stats['crash_points'] += len(pts)
    if dstat == 'undisciplined' and not finds:
        stats['discipline_undisciplined_without_unsafe_image'] += 1
    return finds
