"""Crash-state exploration shared by C04 and C05.
A history runs on SimFile with the full request log (payloads).  For crash points (prefixes of the
completed-request stream) the un-synced requests since the last completed fsync are independently
persisted, lost, or torn at 512-byte block granularity, which yields crash images:
  * every subset of the pending requests when there are at most EXH of them, otherwise all
    'drop one' / 'keep one' subsets plus random subsets;
  * plus block-level tearings (each block of each pending request chosen independently).
Each image is judged by the extracted specification checker safeb (C04); for C05 the real library
opens the image and every block synced earlier must read as the synced value or the value of a
later operation."""
import os, json, shutil, collections
import qv, hist, seqrun

EXH = 7


def parse_log(path):
    reqs = []
    for ln in open(path):
        tk = ln.split()
        if not tk:
            continue
        kind, off, ln_, ok, op = tk[0], int(tk[1]), int(tk[2]), tk[3] == '1', int(tk[4])
        payload = bytes.fromhex(tk[8]) if len(tk) > 8 else None
        reqs.append({'kind': kind, 'off': off, 'len': ln_, 'ok': ok, 'op': op, 'payload': payload})
    return reqs


def apply(img, r, blocks=None):
    """apply request r to bytearray img (whole, or only the listed 512-byte blocks of its range)"""
    if r['kind'] == 'W':
        end = r['off'] + r['len']
        if len(img) < end:
            img.extend(bytes(end - len(img)))
        if blocks is None:
            img[r['off']:end] = r['payload']
        else:
            for b in blocks:
                lo = max(r['off'], b * 512)
                hi = min(end, (b + 1) * 512)
                if lo < hi:
                    img[lo:hi] = r['payload'][lo - r['off']:hi - r['off']]
    elif r['kind'] == 'Z':
        end = min(r['off'] + r['len'], len(img))
        if blocks is None:
            if r['off'] < end:
                img[r['off']:end] = bytes(end - r['off'])
        else:
            for b in blocks:
                lo = max(r['off'], b * 512)
                hi = min(end, (b + 1) * 512)
                if lo < hi:
                    img[lo:hi] = bytes(hi - lo)


def crash_images(f0, reqs, rng, budget, points=None):
    """yields (point_index, description, bytes).  point k = crash after request k completed."""
    durable = bytearray(f0)
    pending = []
    n = 0
    mods = [i for i, r in enumerate(reqs) if r['kind'] in 'WZS' and r['ok']]
    if not mods:
        return
    per_point = max(4, budget // max(1, len(mods)))
    for i, r in enumerate(reqs):
        if not r['ok'] or r['kind'] == 'R':
            continue
        if r['kind'] == 'S':
            for p in pending:
                apply(durable, p)
            pending = []
            continue
        pending.append(r)
        if points is not None and i not in points:
            continue
        k = len(pending)
        subsets = []
        if k <= EXH:
            subsets = list(range(1 << k))
        else:
            full = (1 << k) - 1
            subsets = [0, full] + [full ^ (1 << j) for j in range(k)] + [1 << j for j in range(k)]
            subsets += [rng.getrandbits(k) for _ in range(per_point)]
        if len(subsets) > per_point:
            # always keep: nothing, everything, drop-one, only-last
            keep = {0, (1 << k) - 1, 1 << (k - 1)} | {((1 << k) - 1) ^ (1 << j) for j in range(k)}
            rest = [s for s in subsets if s not in keep]
            rng.shuffle(rest)
            subsets = list(keep) + rest[:max(0, per_point - len(keep))]
        for s in set(subsets):
            img = bytearray(durable)
            for j, p in enumerate(pending):
                if s >> j & 1:
                    apply(img, p)
            yield (i, 'after request %d: persisted subset %s of %d pending' % (i, bin(s), k), bytes(img))
        # tearing: per block of each pending request
        for _ in range(2):
            img = bytearray(durable)
            for p in pending:
                if p['kind'] == 'W' or p['kind'] == 'Z':
                    bl = [b for b in range(p['off'] // 512, (p['off'] + p['len'] + 511) // 512) if rng.random() < 0.5]
                    apply(img, p, blocks=bl)
            yield (i, 'after request %d: block-level tearing of %d pending' % (i, k), bytes(img))
