"""C10 copy-on-write merges correctly; read-only sources are never written.
Histories of partial / straddling writes, reads, discards and flushes over images whose clusters are
backing-provided or compressed (independent builder), backing shorter / longer than the top image,
chains of depth 2; FlatDisk oracle immediately and after flush + reopen; the specification checker
judges the flushed file (released compressed clusters: exact refcounts); every backing file's
request log must contain reads only."""
import os, json, shutil, collections
import qv, hist, seqrun, common, foreign


def gen(rng, d, n, prefix, depth2_ratio=0.3, mix=None, allow_v2=False):
    cases = []
    for k in range(n):
        top = foreign.rand_desc(rng, with_backing=rng.random() < 0.7, allow_v2=allow_v2, cbs=[9, 9, 10, 10, 11, 12])
        descs = [top]
        if top.backing_file:
            b = foreign.backing_desc(rng, top)
            if rng.random() < depth2_ratio:
                b.backing_file = 'b2.img'
                descs.append(b)
                descs.append(foreign.backing_desc(rng, b))
            else:
                descs.append(b)
        cid = '%s%d' % (prefix, k)
        try:
            paths, truths = foreign.write_images(d, cid, descs)
        except ValueError:
            continue
        tr = foreign.Truth(descs)
        flat = tr.flat()
        bsb, l2, rb = hist.rand_params(rng, top.cluster_bits)
        # every image of the chain is read at block granularity: with a block size that does not divide the size of
        # one of them, the last partial block of that image is unreachable (known finding F32).  One case in ten keeps
        # such a block size and is matched against that finding only; the others use a dividing block size.
        misfit = False
        if any(dd.size % (1 << bsb) for dd in descs) and rng.random() < 0.1:
            misfit = True
        else:
            while any(dd.size % (1 << bsb) for dd in descs) and bsb > 9:
                bsb -= 1
        g = hist.Geom(top.cluster_bits, top.refcount_order, top.size, bsb, l2, rb, punch=rng.choice([1, 1, 0]))
        g.bs_misfit = misfit
        # short histories too: a single operation whose effect nothing else re-dirties or repairs
        nops = rng.choice([1, 1, 2, 3]) if rng.random() < 0.3 else rng.randrange(3, 25)
        ops = hist.gen_ops(rng, g, nops, mix=mix or {'W': 50, 'R': 25, 'D': 8, 'F': 8, 'K': 3, 'S': 2, 'N': 2}, flush_end=nops > 3)
        text, plan, snaps, _ = seqrun.build_case(cid, g, ops, rng, flat=flat, images=paths)
        cases.append({'cid': cid, 'g': g, 'ops': ops, 'text': text, 'plan': plan, 'snaps': snaps, 'descs': descs, 'paths': paths})
    return cases


def run_foreign(prop, tier, seed, projections, n, explanation, mix=None, extra_judge=None, plain_n=0, level='exploration', gate=None, sim_n=0, allow_v2=False):
    t = qv.Timer()
    rng = qv.Rng(seed)
    gate = gate or {'ok': True, 'obligations': 0, 'discharged': 0, 'failed': None, 'axioms': [], 'checker_cmd': '', 'gen': {}}
    rc, out = qv.harness_build()
    if rc != 0:
        print(out[-3000:])
        return 2
    d0 = qv.workdir(prop.lower() + 'img')
    cases = gen(rng, d0, n, prop.lower() + '_', mix=mix, allow_v2=allow_v2)
    if plain_n:
        for c in seqrun.gen_cases(rng, plain_n, 30, prop.lower() + 'p_', cbs=[9, 9, 9, 10, 10, 11, 12, 13, 16] if tier != 'quick' else [9, 9, 10, 10, 11, 12, 13], mix=mix):
            c['descs'] = None
            c['paths'] = []
            cases.append(c)
    d, obs, ver, maps = seqrun.run_batch(prop.lower(), cases)
    violations, known = [], []
    counts = collections.Counter()
    other = collections.Counter()
    stats = collections.Counter()
    kfs = [f for f in qv.known_findings().get('findings', []) if f.get('property') == prop]
    for c in cases:
        if c['descs']:
            top = c['descs'][0]
            for x in top.clusters.values():
                stats[x[0]] += 1
            stats['chain_depth_%d' % len(c['descs'])] += 1
        else:
            top = None
            stats['library_formatted'] += 1
        stats['cb_%d' % c['g'].cb] += 1
        stats['ro_%d' % c['g'].ro] += 1
        finds = seqrun.judge(c, obs.get(c['cid'], []), ver, maps.get(c['cid']) if not c['descs'] else None)
        # read-only sources: the backing files must see reads only
        for l in obs.get(c['cid'], []):
            if l.startswith('reqcount'):
                toks = l.split()[1:]
                for fi, tk in enumerate(toks[1:], start=1):
                    if int(tk.split('/')[1]) != 0:
                        finds.append(('backing-written', -1, 'backing file %d received %s modifying requests' % (fi, tk.split('/')[1])))
        mine = [f for f in finds if f[0] in projections]
        for f in finds:
            if f[0] not in projections:
                other[f[0]] += 1
        if not mine:
            continue
        f = mine[0]
        counts[f[0]] += 1
        kf = [x for x in kfs if x.get('match', {}).get('projection') == f[0] and (not x['match'].get('desc_contains') or x['match']['desc_contains'] in f[2])]
        if getattr(c['g'], 'bs_misfit', False):
            # this case exists only to show F32; anything it finds is attributed to it
            kf = [x for x in kfs if x.get('match', {}).get('predicate') == 'bs_misfit']
            if not kf:
                continue
        if kf:
            if not any(y.startswith(kf[0]['id'] + ' ') for y in known):
                known.append('%s %s (e.g. %s)' % (kf[0]['id'], kf[0]['what'], f[2][:200]))
            continue
        if len(violations) < 5:
            keep = os.path.join(qv.VERIF, 'evidence', 'replay')
            os.makedirs(keep, exist_ok=True)
            text = c['text']
            for p in c['paths']:
                q = os.path.join(keep, '%s-%s' % (prop, os.path.basename(p)))
                shutil.copy(p, q)
                text = text.replace(p, q)
            path = qv.write_replay(prop, c['cid'] + '.json', json.dumps({'finding': {'projection': f[0], 'op_index': f[1], 'what': f[2]},
                                                                       'image': ('v%d cb=%d ro=%d size=%d chain=%d' % (top.version, top.cluster_bits, top.refcount_order, top.size, len(c['descs']))) if top else 'library formatted',
                                                                       'geometry': c['g'].desc(), 'ops': c['ops'], 'case_text': text}))
            violations.append({'replay': path})
            print('  finding in %s [%s chain=%d]: %s' % (c['cid'], c['g'].desc(), len(c['descs'] or [1]), f[2][:300]))
    sim_stats = {}
    if sim_n:
        # correspondence of the Coq device model with the library (see devsim.py); findings of this property's classes
        import devsim
        sfinds, sstats, sd = devsim.run_sim(rng, sim_n, tag=prop.lower() + 'sim')
        sim_stats = dict(sstats)
        for (cls, cid, desc, text) in sfinds:
            if prop not in devsim.CLASS_PROPS.get(cls, ()):
                other['model-' + cls] += 1
                continue
            counts['model-' + cls] += 1
            if len(violations) < 5:
                path = qv.write_replay(prop, cid + '.json', json.dumps({'finding': {'projection': 'model-' + cls, 'what': desc}, 'case_text': text}))
                violations.append({'replay': path})
                print('  finding (device model vs library) in %s: %s' % (cid, desc[:300]))
        shutil.rmtree(sd, ignore_errors=True)
    shutil.rmtree(d, ignore_errors=True)
    shutil.rmtree(d0, ignore_errors=True)
    cov = {'evaluations': len(cases), 'distinct_nontrivial': qv.distinct_nontrivial([c['text'] for c in cases]), 'nontrivial_rule': 'distinct operation scripts with at least one write',
           'rule': 'images from the independent builder (data / compressed / zero / preallocated-zero / unallocated clusters, optional backing chain of depth 1-2, backing shorter / equal / longer) x random device parameters x histories of partial, whole and straddling writes, reads, discards, flushes; closing sweep, flush, snapshot, reopen with other parameters, sweep; specification checker on every flushed snapshot',
           'samples': [{'image': c['g'].desc() + (' chain=%d' % len(c['descs']) if c['descs'] else ' (library formatted)'), 'ops': [hist.op_line(o) for o in c['ops'][:8]]} for c in cases[:2] + cases[-1:]],
           'programs': len(cases), 'disagreements_checked': sum(counts.values()), 'distribution': dict(stats),
           'findings_by_projection': dict(counts), 'findings_left_to_other_properties': dict(other), 'device_model_correspondence': sim_stats}
    return common.finish(prop, tier, seed, level, gate, cov, t, violations, known, ['as C09'], explanation)


def run(tier, seed, replay):
    n = 250 if tier == 'quick' else 1000
    gate = common.proof_gate('C10', ['Model/Dev.v', 'Proofs/DevProps.v', 'Props/C10.v'])
    return run_foreign('C10', tier, seed, ('read', 'api', 'reopen', 'valid', 'backing-written', 'open'), n,
                       'Theorems over the device model (Props/C10.v: COW keeps the source content, replaced compressed clusters released once) + model/library correspondence + COW histories over backing-provided and compressed clusters: FlatDisk oracle now and after flush+reopen, validb on the flushed file, backing request logs read-only.',
                       level='proof', gate=gate, sim_n=(40 if tier == 'quick' else 400))
