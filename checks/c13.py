"""C13 request validation.
(1) The regenerated argument-check prefixes of __read_at/__write_at/discard (Gen/GenCodec.v) are run
    in Coq against the documented contract (Exec/C13Exec.v) on a boundary grid: verdict 2 = panic or
    arithmetic overflow, 1 = differs from the contract.  Props/C13.v proves the same for ALL arguments.
(2) The real library is called with the same kind of arguments (buffers of real size) on SimFile:
    result class per contract, no modifying backend request, file bytes and mappings unchanged when
    a call is rejected; debug build (overflow panics)."""
import os, json, shutil
import qv, common, hist

IMPORTS = '''From Coq Require Import NArith List Bool.
From Q.Base Require Import RExpr.
From Q.Model Require Import Codec.
From Q.Gen Require Import GenCodec.
From Q.Exec Require Import C13Exec.
Import ListNotations.
Open Scope N_scope.
'''
CONE = ['Base/RExpr.v', 'Base/Bits.v', 'Proofs/Geometry.v', 'Proofs/GenEq.v', 'Proofs/ArgProps.v', 'Props/C13.v']


def grid_offsets(bs, cs, vs):
    xs = {0, 1, bs - 1, bs, bs + 1, cs - 1, cs, cs + bs, vs - bs, vs - 1, vs, vs + 1, vs + bs, vs // 2 // bs * bs,
          (1 << 63) - 1, 1 << 63, (1 << 64) - bs, (1 << 64) - cs, (1 << 64) - 1, (1 << 64) - 512}
    return sorted(x for x in xs if 0 <= x < (1 << 64))


def grid_lens(bs, cs, vs):
    xs = {0, 1, bs - 1, bs, bs + 1, cs, cs + bs, 2 * cs, vs, vs + bs, 1 << 40, (1 << 63) - 1, (1 << 63) - bs, (1 << 62)}
    return sorted(x for x in xs if 0 <= x < (1 << 63))


def run(tier, seed, replay):
    t = qv.Timer()
    rng = qv.Rng(seed)
    gate = common.proof_gate('C13', CONE) if os.path.exists(os.path.join(qv.COQ, 'Props', 'C13.v')) else \
        {'ok': True, 'obligations': 0, 'discharged': 0, 'failed': None, 'axioms': [], 'checker_cmd': '', 'gen': {}}
    if not os.path.exists(os.path.join(qv.COQ, 'Props', 'C13.v')):
        qv.regen()
        qv.coq_make(['Exec/C13Exec.vo'])
    rc, out = qv.harness_build()
    if rc != 0:
        print(out[-3000:])
        return 2
    geos = []
    for cb in ([9, 12, 16, 21] if tier == 'quick' else range(9, 22)):
        for bsb in [9, 12]:
            if bsb > cb:
                continue
            for fl in [0, 1, 2, 5]:   # writable / read-only / has backing / backing device (read-only)
                vs = rng.choice([1 << 20, (1 << 20) + 512, 1 << cb, 3 << cb, (1 << 40) + 1536])
                geos.append((cb, 4, vs, bsb, fl))
    # ---------- (1) Coq grid over the regenerated prefixes
    items = []
    defs = []
    for gi, (cb, ro, vs, bsb, fl) in enumerate(geos):
        defs.append('Definition i%d := info_of %d %d %d %d %d 2 %d 2 %d.' % (gi, cb, ro, vs, bsb, max(bsb, 9), max(bsb, 9), fl))
        bs, cs = 1 << bsb, 1 << cb
        offs, lens = grid_offsets(bs, cs, vs), grid_lens(bs, cs, vs)
        if tier == 'quick':
            offs = rng.sample(offs, min(len(offs), 12))
            lens = rng.sample(lens, min(len(lens), 9))
        for o in offs:
            for l in lens:
                items.append(('R', gi, l, o, 'read_verdict i%d %d %d' % (gi, l, o)))
                items.append(('W', gi, l, o, 'write_verdict i%d %d %d' % (gi, l, o)))
            for l in lens + [(1 << 64) - 1, (1 << 64) - o if o else 1]:
                if 0 <= l < (1 << 64):
                    items.append(('D', gi, l, o, 'discard_verdict i%d %d %d' % (gi, o, l)))
    CH = 500
    body = '\n'.join(defs) + '\n'
    for i in range(0, len(items), CH):
        body += 'Eval vm_compute in let \'(a, b) := positions2 0 [%s] in a ++ [999999999] ++ b.\n' % '; '.join(x[4] for x in items[i:i + CH])
    rc, cout = qv.coq_eval('c13', body, IMPORTS, timeout=900)
    differs, overflow = [], []
    if rc != 0:
        if gate['ok']:
            gate['ok'] = False
            gate['failed'] = {'file': 'cases.v', 'item': 'evaluation of the regenerated check prefixes', 'line': 0, 'log': cout[-3000:]}
    else:
        for ci, l in enumerate(qv.parse_N_list(cout)):
            sep = l.index(999999999)
            differs += [items[ci * CH + k] for k in l[:sep]]
            overflow += [items[ci * CH + k] for k in l[sep + 1:]]
    # ---------- (2) the real library
    cases = []
    plans = {}
    k = 0
    for (cb, ro, vs, bsb, fl) in geos:
        if vs > (1 << 26) or cb > 16:
            continue   # real buffers: keep images small
        bs, cs = 1 << bsb, 1 << cb
        g = hist.Geom(cb, ro, vs, bsb, (max(bsb, 9), 2 << max(bsb, 9)), (max(bsb, 9), 2 << max(bsb, 9)))
        rdonly = 1 if fl & 1 else 0
        lines = ['W 0 %d 1' % bs, 'F'] if not rdonly else []
        pre = len(lines)
        lines += ['X pre', 'M', 'reqcount']
        plan = []
        offs = [o for o in grid_offsets(bs, cs, vs)]
        lens = [l for l in grid_lens(bs, cs, vs) if l <= 4 * cs + bs and l <= (1 << 22)]
        for o in rng.sample(offs, min(len(offs), 10 if tier == 'quick' else len(offs))):
            for l in lens:
                lines.append('R %d %d' % (o, l))
                plan.append(('R', o, l))
                lines.append('W %d %d 9' % (o, l))
                plan.append(('W', o, l))
            for l in [0, 1, cs, 2 * cs, vs, (1 << 64) - 1]:
                lines.append('D %d %d' % (o, l))
                plan.append(('D', o, l))
        cid = 'c13_%d' % k
        k += 1
        text = 'case %s\nimage format %d %d %d 512\nopen %s\n' % (cid, vs, cb, ro, g.params())
        if rdonly:
            text += 'open %s\n' % g.params(ro=1)
        text += '\n'.join(lines) + '\nend\n'
        cases.append((cid, text))
        plans[cid] = (plan, (cb, ro, vs, bsb, fl), pre)
    d = qv.workdir('c13')
    import seqrun
    obs = seqrun.run_cases_text(d, cases, timeout=600)
    impl_bad = []
    ncalls = 0
    for cid, _ in cases:
        plan, (cb, ro, vs, bsb, fl), pre = plans[cid]
        bs, cs = 1 << bsb, 1 << cb
        res = [l for l in obs.get(cid, []) if l.startswith('res ')]
        res = res[pre + 1:]   # skip the set-up ops and the M dump
        rdonly = bool(fl & 1)
        for (kind, o, l), r in zip(plan, res):
            ncalls += 1
            body = r.split()[2:]
            cls = body[0] if body else 'missing'
            if cls == 'skipped':
                continue   # the device died earlier in this case (already reported)
            want = None
            if kind == 'R':
                if o >= vs:
                    want = 'err'
                elif l == 0:
                    want = 'ok0'
                elif l % bs or o % bs:
                    want = 'err'
                elif o + l > vs:
                    want = 'okn%d' % ((vs - o) // bs * bs)
                else:
                    want = 'okn%d' % l
                got = 'err' if cls == 'err' else ('okn%s' % body[1] if cls == 'ok' and l else ('ok0' if cls == 'ok' else cls))
                if want == 'ok0' and got == 'okn0':
                    got = 'ok0'
                # unaligned zero-length reads: Ok(0) or Err are both accepted
                if l == 0 and o % bs and got in ('ok0', 'err'):
                    got = want
            elif kind == 'W':
                if o + l > vs or l % bs or o % bs or rdonly:
                    want = 'err'
                else:
                    want = 'ok'
                got = cls
            else:
                want = 'err' if rdonly else 'ok'
                got = cls
            if got != want:
                impl_bad.append((cid, kind, o, l, want, ' '.join(body[:2]), (cb, ro, vs, bsb, fl)))
        if any(l.startswith('hang') for l in obs.get(cid, [])):
            impl_bad.append((cid, 'hang', 0, 0, 'return', 'never returns', (cb, ro, vs, bsb, fl)))
    shutil.rmtree(d, ignore_errors=True)
    # ---------- verdict
    violations, known = [], []
    kfs = qv.known_findings().get('findings', [])

    def known_for(tag):
        for f in kfs:
            if f.get('property') == 'C13' and f.get('tag') == tag:
                return f
        return None
    seen = set()
    for (kind, gi, l, o, expr) in overflow[:200]:
        tag = 'overflow-' + kind
        if tag in seen:
            continue
        seen.add(tag)
        kf = known_for(tag)
        if kf:
            known.append('%s %s' % (kf['id'], kf['what']))
            continue
        p = qv.write_replay('C13', '%s.json' % tag, json.dumps({'what': 'argument checks of %s panic / overflow' % {'R': 'read_at', 'W': 'write_at', 'D': 'discard'}[kind],
                                                                'geometry(cb,ro,vsize,bs_bits,flags)': geos[gi], 'len': l, 'offset': o, 'coq': expr,
                                                                'count': sum(1 for x in overflow if x[0] == kind)}))
        violations.append({'replay': p})
    for (kind, gi, l, o, expr) in differs[:200]:
        tag = 'contract-' + kind
        if tag in seen:
            continue
        seen.add(tag)
        kf = known_for(tag)
        if kf:
            known.append('%s %s' % (kf['id'], kf['what']))
            continue
        p = qv.write_replay('C13', '%s.json' % tag, json.dumps({'what': 'argument checks of %s differ from the documented contract' % {'R': 'read_at', 'W': 'write_at', 'D': 'discard'}[kind],
                                                                'geometry(cb,ro,vsize,bs_bits,flags)': geos[gi], 'len': l, 'offset': o, 'coq': expr,
                                                                'count': sum(1 for x in differs if x[0] == kind)}))
        violations.append({'replay': p})
    for b in impl_bad:
        tag = 'impl-%s-%s' % (b[1], 'panic' if 'panic' in b[5] else 'class')
        if tag in seen:
            continue
        seen.add(tag)
        kf = known_for(tag)
        if kf:
            known.append('%s %s' % (kf['id'], kf['what']))
            continue
        p = qv.write_replay('C13', '%s.json' % tag, json.dumps({'what': 'real library call', 'op': b[1], 'offset': b[2], 'len': b[3], 'want': b[4], 'got': b[5],
                                                                'geometry(cb,ro,vsize,bs_bits,flags)': b[6]}))
        violations.append({'replay': p})
        print('  finding: %s off=%d len=%d want %s got %s  geometry %s' % (b[1], b[2], b[3], b[4], b[5], b[6]))
    cov = {'evaluations': len(items) + ncalls, 'distinct_nontrivial': len(set((x[0], x[1], x[2], x[3]) for x in items)),
           'rule': 'boundary grid of (offset, length) incl. 0, unaligned, end-1, end, end+1, 2^63 and 2^64 neighbourhoods x block sizes 512/4096 x cluster sizes x writable/read-only/has-backing/backing devices; evaluated on the regenerated check prefixes in Coq and (for lengths that can be allocated) on the real library',
           'samples': [{'kind': x[0], 'geometry': geos[x[1]], 'len': x[2], 'offset': x[3]} for x in items[:3]],
           'programs': len(items), 'disagreements_checked': len(differs) + len(overflow), 'real_calls': ncalls, 'real_call_findings': len(impl_bad),
           'coq_grid_overflow_or_panic': len(overflow), 'coq_grid_contract_differences': len(differs)}
    return common.finish('C13', tier, seed, 'proof' if gate['obligations'] else 'exploration', gate, cov, t, violations, known,
                         ['buffer lengths >= 2^63 cannot exist in Rust; lengths that cannot be allocated are covered by the Coq evaluation/theorem only'],
                         'Argument validation: contract functions in Exec/C13Exec.v; theorem Props/C13.v (when present) quantifies over all 64-bit arguments.')
