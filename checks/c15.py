"""C15 codec fidelity.
Proof: Props/C15.v (theorems over the regenerated functions, via Proofs/GenEq.v).
Tie B + search: the real functions (harness `codec` mode) and the evaluator of the regenerated
ASTs are run on the same inputs inside Coq; the specification (Spec/Entries.v) judges the
implementation's outputs."""
import os, re, json
import qv, common

CONE = ['Base/RExpr.v', 'Base/Bits.v', 'Proofs/Geometry.v', 'Proofs/GenEq.v', 'Proofs/CodecProps.v',
        'Proofs/RefcountProps.v', 'Proofs/AddrProps.v', 'Props/C15.v']

IMPORTS = '''From Coq Require Import NArith List Bool.
From Q.Base Require Import RExpr.
From Q.Spec Require Import Entries.
From Q.Model Require Import Codec.
From Q.Gen Require Import GenCodec.
From Q.Exec Require Import C15Exec.
Import ListNotations.
Open Scope N_scope.
'''


def geometries(rng, tier):
    gs = []
    cbs = list(range(9, 22))
    for cb in cbs:
        for ro in ([0, 3, 4, 6] if tier == 'quick' else range(7)):
            bs = rng.choice([9, 10, 11, 12])
            if bs > cb:
                bs = 9
            l2sb = rng.randint(bs, cb)
            rbsb = rng.randint(bs, cb)
            hb = rng.choice([0, 1])
            size = rng.choice([1 << 20, 1 << 30, (1 << 40) + 512, 1 << 16])
            # one L1 table of at most 32 MiB must map the whole disk (images beyond that are refused at open)
            size = min(size, (1 << 22) * (1 << (2 * cb - 3)) - 512)
            gs.append((cb, ro, size, hb, bs, '%d:%d' % (l2sb, 4 << l2sb), '%d:%d' % (rbsb, 2 << rbsb), 0, 0, l2sb, rbsb))
            if cb >= 12 and rng.random() < 0.3:
                gs.append((cb, ro, size, hb, 9, '-', '-', 0, 0, 12, 12))
    return gs


def geom_line(g):
    return ' '.join(str(x) for x in g[:9])


def l2_values(rng, cb, n):
    vals = []
    x = 62 - (cb - 8)
    cs = 1 << cb
    for _ in range(n):
        k = rng.random()
        if k < 0.3:      # standard, valid
            off = rng.randrange(0, 1 << (56 - cb)) << cb
            if rng.random() < 0.2:
                off = 0
            v = off | (rng.choice([0, 1]) << 63 if off else 0) | rng.choice([0, 0, 1])
        elif k < 0.65:   # compressed, valid
            sectors = rng.randrange(0, 1 << (cb - 8))
            if rng.random() < 0.5:
                sectors = rng.choice([0, 1, (cs >> 9) - 1, cs >> 9, (cs >> 9) + 1, (1 << (cb - 8)) - 1])
                sectors = min(sectors, (1 << (cb - 8)) - 1)
            off = rng.randrange(0, 1 << min(x, 56))
            if rng.random() < 0.4:
                off = (rng.randrange(1, 1 << 20) << cb) + rng.choice([0, 1, 511, 512, cs - 1, cs - 512])
            v = (1 << 62) | (sectors << x) | off
        elif k < 0.8:    # boundary words
            v = rng.choice(qv.boundary_u64())
        else:            # anything
            v = rng.getrandbits(64)
        vals.append(v)
    return vals


def optN(s):
    return 'None' if s == '-' else '(Some %s)' % s


def voptN(s):
    return '(VOpt None)' if s == '-' else '(VOpt (Some (VInt %s)))' % s


def run(tier, seed, replay):
    t = qv.Timer()
    rng = qv.Rng(seed)
    gate = common.proof_gate('C15', CONE)
    rc, out = qv.harness_build()
    if rc != 0:
        print(out[-3000:])
        return 2
    n_l2 = 12 if tier == 'quick' else 120
    n_split = 10 if tier == 'quick' else 80
    n_rb = 250 if tier == 'quick' else 4000
    n_top = 150 if tier == 'quick' else 2000
    geos = geometries(rng, tier)
    if replay:
        rp = json.load(open(replay))
        lines, meta = rp['lines'], rp['meta']
    else:
        lines, meta = [], []
        for g in geos:
            cb = g[0]
            lines.append('info ' + geom_line(g))
            meta.append(('info', g))
            for v in l2_values(rng, cb, n_l2):
                gv = min((1 << 56) - 1, rng.choice([0, 1 << cb, (rng.randrange(0, 1 << 40) << cb) + rng.randrange(0, 1 << cb), (1 << 56) - 1]))
                lines.append('l2 %s %d %d' % (geom_line(g), v, gv))
                meta.append(('l2', g, v, gv))
            cs = 1 << cb
            for _ in range(n_split):
                base = rng.choice([0, cs, cs << (g[9] - 3), cs << (cb - 3), rng.randrange(0, 1 << 62), (1 << 63) - 1, (1 << 64) - 1])
                gv = max(0, min((1 << 64) - 1, base + rng.choice([-1, 0, 1, 511, 512])))
                lines.append('split %s %d' % (geom_line(g), gv))
                meta.append(('split', g, gv))
        for _ in range(n_rb):
            ro = rng.randrange(0, 7)
            nbytes = rng.choice([8, 16, 32, 64])
            data = bytes(rng.getrandbits(8) if rng.random() < 0.8 else rng.choice([0, 255]) for _ in range(nbytes))
            entries = nbytes * 8 >> ro
            idx = rng.choice([0, entries - 1, rng.randrange(0, entries)])
            if rng.random() < 0.4:
                lines.append('rb %d %s %d get' % (ro, data.hex(), idx))
                meta.append(('rbget', ro, data, idx))
            else:
                bits = 1 << ro
                v = rng.choice([0, 1, (1 << bits) - 1, 1 << bits, (1 << bits) + 1, rng.getrandbits(bits), rng.getrandbits(64), (1 << 64) - 1])
                v = min(v, (1 << 64) - 1)
                lines.append('rb %d %s %d set %d' % (ro, data.hex(), idx, v))
                meta.append(('rbset', ro, data, idx, v))
        bnd = qv.boundary_u64()
        for _ in range(n_top):
            v = rng.choice(bnd) if rng.random() < 0.3 else rng.getrandbits(64)
            lines.append('top %d' % v)
            meta.append(('top', v))
    d = qv.workdir('c15')
    qf = os.path.join(d, 'q.txt')
    open(qf, 'w').write('\n'.join(lines) + '\n')
    rc, out, err = qv.run_harness(['codec', qf])
    outs = out.strip().split('\n')
    if rc != 0 or len(outs) != len(lines):
        print('harness codec mode failed rc=%d lines %d/%d\n%s' % (rc, len(outs), len(lines), err[-2000:]))
        return 2
    # ---- build the Coq case file
    defs = []
    pairs = []     # (label, coq_res_expr, expected_res_expr)
    verdicts = []  # (label, coq_N_expr)
    info_terms = {}
    stats = {'geometries': 0, 'info_panic_or_err': 0, 'l2': 0, 'l2_valid_classes': {}, 'split': 0, 'rbget': 0, 'rbset': 0, 'top': 0}
    cur_info = None
    for k, (ln, m, o) in enumerate(zip(lines, meta, outs)):
        tk = o.split()
        if m[0] == 'info':
            g = m[1]
            if tk[1] != 'ok':
                cur_info = None
                stats['info_panic_or_err'] += 1
                exp = 'Panic' if tk[1] == 'panic' else '(Ret (VRes (inr 1)))'
            else:
                fields = re.findall(r'(\w+): (\d+)', o)
                name = 'info%d' % k
                defs.append('Definition %s : value := VTup [%s].' % (name, '; '.join('VInt %s' % v for _, v in fields)))
                cur_info = name
                info_terms[g] = name
                stats['geometries'] += 1
                exp = '(Ret (VRes (inl %s)))' % name
            cb, ro, size, hb, bs, l2c, rbc, rof, bk = g[:9]

            def copt(s):
                if s == '-':
                    return 'VOpt None'
                b, n = s.split(':')
                return 'VOpt (Some (VTup [VInt %s; VInt %s]))' % (b, n)
            hv = 'VTup [VInt %d; VInt %d; VInt %d; VBool %s]' % (cb, ro, size, 'true' if hb else 'false')
            pv = 'VTup [VInt %d; %s; %s; VBool %s; VBool %s]' % (bs, copt(rbc), copt(l2c), 'true' if rof else 'false', 'true' if bk else 'false')
            pairs.append((k, 'call g_Qcow2Info_new [%s; %s]' % (hv, pv), exp))
            continue
        if m[0] == 'l2':
            g, v, gv = m[1], m[2], m[3]
            if g not in info_terms or tk[1] == 'panic':
                continue
            it = info_terms[g]
            cb = g[0]
            # l2 off comp cop zero res desc cr o l al o l tfp b map src off len cop po x fm y
            f = dict(off=tk[1], comp=tk[2], cop=tk[3], zero=tk[4], res=tk[5], desc=tk[6], cro=tk[8], crl=tk[9],
                     alo=tk[11], all=tk[12], tfp=tk[14], src=tk[16], moff=tk[17], mlen=tk[18], mcop=tk[19], po=tk[21], fm=tk[23])
            stats['l2'] += 1
            mapping = 'VTup [VInt %s; %s; %s; VBool %s]' % (f['src'], voptN(f['moff']), voptN(f['mlen']), 'true' if f['mcop'] == '1' else 'false')
            pairs.append((k, 'call g_L2Entry_into_mapping [VInt %d; %s; VInt %d]' % (v, it, gv), '(Ret (%s))' % mapping))
            pairs.append((k, 'call g_L2Entry_from_mapping [%s; VInt %d]' % (mapping, cb),
                          'Panic' if f['fm'] == 'panic' else '(Ret (VInt %s))' % f['fm']))
            crv = '(VOpt None)' if f['cro'] == '-' else '(VOpt (Some (VTup [VInt %s; VInt %s])))' % (f['cro'], f['crl'])
            pairs.append((k, 'call g_L2Entry_compressed_range [VInt %d; VInt %d]' % (v, cb), '(Ret %s)' % crv))
            alv = '(VOpt None)' if f['alo'] == '-' else '(VOpt (Some (VTup [VInt %s; VInt %s])))' % (f['alo'], f['all'])
            pairs.append((k, 'call g_L2Entry_allocation [VInt %d; VInt %d]' % (v, cb), '(Ret %s)' % alv))
            pairs.append((k, 'call g_L2Entry_reserved_bits [VInt %d]' % v, '(Ret (VInt %s))' % f['res']))
            verdicts.append((k, 'alloc_verdict %d %d %s' % (cb, v, 'None' if f['alo'] == '-' else '(Some (%s, %s))' % (f['alo'], f['all']))))
            verdicts.append((k, 'l2_verdict %d %s %d %d %s %s %s %s %s' % (
                cb, 'true' if g[3] else 'false', v, gv, f['src'], optN(f['moff']), optN(f['mlen']),
                'true' if f['mcop'] == '1' else 'false', 'None' if f['fm'] == 'panic' else '(Some %s)' % f['fm'])))
            continue
        if m[0] == 'split':
            g, gv = m[1], m[2]
            if g not in info_terms or tk[1] == 'panic':
                continue
            it = info_terms[g]
            stats['split'] += 1
            names = ['l1_index', 'l2_index', 'l2_slice_index', 'l2_slice_key', 'l2_slice_off_in_table', 'in_cluster_offset', 'cluster_offset']
            for nm, val in zip(names, tk[1:8]):
                pairs.append((k, 'call g_SplitGuestOffset_%s [VInt %d; %s]' % (nm, gv, it), '(Ret (VInt %s))' % val))
            verdicts.append((k, 'split_verdict %d %d %d %s' % (g[0], g[9], gv, ' '.join(tk[1:8]))))
            continue
        if m[0] == 'rbget':
            ro, data, idx = m[1], m[2], m[3]
            stats['rbget'] += 1
            lst = '[%s]' % '; '.join(str(b) for b in data)
            got = tk[2]
            pairs.append((k, 'call g_RefBlock_get [VTup [VList %s; VInt %d]; VInt %d]' % (lst, ro, idx), '(Ret (VInt %s))' % got))
            verdicts.append((k, 'rbget_verdict %d %s %d %s' % (ro, lst, idx, got)))
            continue
        if m[0] == 'rbset':
            ro, data, idx, v = m[1], m[2], m[3], m[4]
            stats['rbset'] += 1
            lst = '[%s]' % '; '.join(str(b) for b in data)
            ok = tk[2] == '1'
            nb = bytes.fromhex(tk[3])
            nlst = '[%s]' % '; '.join(str(b) for b in nb)
            exp = '(Ret (VTup [%s; VList %s]))' % ('VRes (inl (VTup []))' if ok else 'VRes (inr 1)', nlst)
            pairs.append((k, 'call g_RefBlock_set [VTup [VList %s; VInt %d]; VInt %d; VInt %d]' % (lst, ro, idx, v), exp))
            verdicts.append((k, 'rbset_verdict %d %s %d %d %s %s' % (ro, lst, idx, v, 'true' if ok else 'false', nlst)))
            continue
        if m[0] == 'top':
            v = m[1]
            stats['top'] += 1
            pairs.append((k, 'call g_L1Entry_l2_offset [VInt %d]' % v, '(Ret (VInt %s))' % tk[1]))
            pairs.append((k, 'call g_L1Entry_reserved_bits [VInt %d]' % v, '(Ret (VInt %s))' % tk[4]))
            pairs.append((k, 'call g_RefTableEntry_refblock_offset [VInt %d]' % v, '(Ret (VInt %s))' % tk[5]))
            verdicts.append((k, 'top_verdict %d %s %s %s %s' % (v, tk[1], 'true' if tk[2] == '1' else 'false', tk[5], tk[7])))
    body = '\n'.join(defs) + '\n'
    # a function the translator could not regenerate this run has no g_ definition: its comparisons are dropped (the
    # proof gate has already failed on it) so that the specification oracle below still runs on the real outputs
    try:
        have = set(re.findall(r'^Definition (g_\w+)', open(os.path.join(qv.COQ, 'Gen', 'GenCodec.v')).read(), re.M))
    except OSError:
        have = set()
    n_all_pairs = len(pairs)
    pairs = [p_ for p_ in pairs if (re.match(r'call (g_\w+)', p_[1]) or [None, None])[1] in have]
    untied_pairs = n_all_pairs - len(pairs)
    # shard to keep terms small
    CH = 400
    for i in range(0, len(pairs), CH):
        body += 'Eval vm_compute in mismatches 0 [%s].\n' % ';\n '.join('(%s, %s)' % (a, b) for _, a, b in pairs[i:i + CH])
    for i in range(0, len(verdicts), CH):
        body += 'Eval vm_compute in let vs := [%s] in positions 0 1 vs ++ [999999999] ++ positions 0 2 vs.\n' % ';\n '.join(e for _, e in verdicts[i:i + CH])
    tie_ok = gate['failed'] is None or not str(gate['failed'].get('file', '')).startswith('gen/')
    violations, known = [], []
    mism, viol, kf = [], [], []
    rc, cout = qv.coq_eval('c15', body, IMPORTS, timeout=1200)
    if rc != 0:
        # the generated file itself does not compile / evaluate: treat as broken tie
        if gate['ok']:
            gate['ok'] = False
            gate['failed'] = {'file': 'cases.v', 'item': 'correspondence evaluation', 'line': 0, 'log': cout[-3000:]}
    else:
        lists = qv.parse_N_list(cout)
        npair_chunks = (len(pairs) + CH - 1) // CH
        for ci, l in enumerate(lists[:npair_chunks]):
            for idx in l:
                mism.append(pairs[ci * CH + idx])
        for ci, l in enumerate(lists[npair_chunks:]):
            sep = l.index(999999999)
            for idx in l[:sep]:
                viol.append(verdicts[ci * CH + idx])
            for idx in l[sep + 1:]:
                kf.append(verdicts[ci * CH + idx])
    kfile = qv.known_findings()
    if kf:
        if any(f.get('id') == 'F27' for f in kfile.get('findings', [])):
            known.append('F27 L2Entry::from_mapping panics on a specification-valid compressed entry whose byte budget reaches the cluster size (%d inputs this run, e.g. %s)' % (len(kf), lines[kf[0][0]]))
        else:
            viol.extend(kf)
    for (k, e) in viol[:5]:
        path = qv.write_replay('C15', 'case%d.json' % k, json.dumps({'lines': [lines[j] for j in range(len(lines)) if meta[j][0] == 'info' or j == k],
                                                                       'meta': [meta[j] for j in range(len(lines)) if meta[j][0] == 'info' or j == k],
                                                                       'implementation_output': outs[k], 'oracle': e}, default=lambda o: o.hex() if isinstance(o, bytes) else list(o)))
        violations.append({'replay': path})
    if mism and not viol:
        # model/translator and implementation disagree, specification oracle is quiet
        k, a, b = mism[0]
        path = qv.write_replay('C15', 'tie.json', json.dumps({'what': 'evaluator of the regenerated function and the compiled code disagree',
                                                              'query': lines[k], 'implementation_output': outs[k], 'coq_term': a, 'expected': b,
                                                              'all': [lines[x[0]] for x in mism[:20]]}))
        violations.append({'replay': path, 'nofail': True})
    # header codec: parse -> serialise -> parse keeps every extension (incl. unknown ones, odd payload lengths)
    import c14
    hfinds, nhdr = c14.roundtrip_findings(rng, tier)
    for (hb, desc) in hfinds[:3]:
        path = qv.write_replay('C15', 'hdr_roundtrip_%d.json' % len(violations), json.dumps({'what': desc, 'buffer': hb.hex()}))
        violations.append({'replay': path})
        print('  finding [header round trip]: %s' % desc[:300])
    import shutil
    shutil.rmtree(d, ignore_errors=True)
    distinct = len(set(lines))
    cov = {
        'evaluations': len(pairs) + len(verdicts), 'distinct_nontrivial': distinct,
        'rule': 'inputs drawn per class (valid standard / valid compressed / boundary words / random words; refcount widths 0..6 with fitting and non-fitting values; offsets at cluster, slice and table boundaries) over geometries cb 9..21 x refcount_order x slice bits; non-trivial = distinct query line',
        'samples': [{'query': lines[i], 'implementation': outs[i]} for i in ([1, len(lines) // 3, len(lines) // 2, len(lines) - 1] if len(lines) > 3 else range(len(lines)))],
        'programs': len(pairs), 'disagreements_checked': len(mism), 'comparisons_dropped_function_not_regenerated': untied_pairs, 'traces_validated_against_impl': len(pairs) - len(mism),
        'distribution': stats, 'header_roundtrip_buffers': nhdr, 'spec_oracle_evaluations': len(verdicts), 'spec_oracle_violations': len(viol), 'known_finding_hits': len(kf),
    }
    expl = ('Theorems C15_l1_entry, C15_rt_entry, C15_l2_decode, C15_l2_roundtrip, C15_refcount, C15_guest_split, C15_host_split '
            '(+ C15_F27_refuted) are proved over the functions regenerated from /repo/src this run. '
            'Header (de)serialisation is covered by the C14/C09 correspondence, not by a theorem here (partial). '
            'Correspondence: %d evaluator-vs-implementation comparisons, %d mismatches; specification oracle on implementation outputs: %d, %d violations.' % (
                len(pairs), len(mism), len(verdicts), len(viol)))
    return common.finish('C15', tier, seed, 'proof', gate, cov, t, violations, known,
                         ['Rust integer semantics as given in Base/RExpr.v; debug-build panics on overflow',
                          'HostCluster functions are crate-private: tied by translation + proof only (no direct differential run)'], expl)
