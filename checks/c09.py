"""C09 specification conformance: the library reads foreign images (independent builder lib/qimg.py:
v2/v3, random layouts, compressed runs straddling host clusters, zero clusters with and without
preallocation, backing file, extensions) like the specification says, with default and custom
parameters; every image it formats is valid under the extracted specification checker."""
import os, json, shutil, collections
import qv, hist, seqrun, common, foreign


def sweep_lines(size, bs, chunk):
    total = size // bs * bs
    out = []
    off = 0
    while off < total:
        ln = min(chunk, total - off)
        out.append((off, ln))
        off += ln
    return out


def run(tier, seed, replay):
    t = qv.Timer()
    rng = qv.Rng(seed)
    gate = {'ok': True, 'obligations': 0, 'discharged': 0, 'failed': None, 'axioms': [], 'checker_cmd': '', 'gen': {}}
    rc, out = qv.harness_build()
    if rc != 0:
        print(out[-3000:])
        return 2
    d = qv.workdir('c09')
    n = 60 if tier == 'quick' else 1200
    cases = []
    stats = collections.Counter()
    for k in range(n):
        top = foreign.rand_desc(rng)
        if k == 7:
            # the smallest legal image: virtual size 0 (no L1 entry at all); it must open, and there is nothing to read
            import qimg
            top = qimg.ImageDesc(version=rng.choice([2, 3]), cluster_bits=rng.choice([9, 12, 16]), refcount_order=4, size=0, clusters={})
        descs = [top]
        if top.backing_file:
            descs.append(foreign.backing_desc(rng, top))
        cid = 'c09_%d' % k
        try:
            paths, truths = foreign.write_images(d, cid, descs)
        except ValueError:
            continue
        tr = foreign.Truth(descs)
        flat = tr.flat()
        cs = 1 << top.cluster_bits
        lines = ['case ' + cid] + ['image file ' + p for p in paths]
        plan = []
        for which in ('default', 'custom'):
            if which == 'default':
                params = '9 - - %d' % rng.choice([0, 1])
                bs = 512
            else:
                bsb, l2, rb = hist.rand_params(rng, top.cluster_bits, allow_default=False)
                if rng.random() < 0.6:
                    # the largest legal block size: compressed data is then rarely block aligned
                    bsb = min(12, top.cluster_bits)
                    l2 = (max(l2[0], bsb), max(l2[1], 2 << max(l2[0], bsb))) if l2 else l2
                    rb = (max(rb[0], bsb), max(rb[1], 2 << max(rb[0], bsb))) if rb else rb
                while any(dd.size % (1 << bsb) for dd in descs) and bsb > 9:   # every image of the chain is read at block granularity
                    bsb -= 1
                g = hist.Geom(top.cluster_bits, top.refcount_order, top.size, bsb, l2, rb)
                params = g.params(ro=rng.choice([0, 1]))
                bs = 1 << bsb
            lines.append('open ' + params)
            plan.append(('open', params))
            lines.append('M')
            plan.append(('M',))
            for (off, ln) in sweep_lines(top.size, bs, max(4 * cs, 4096)):
                lines.append('R %d %d' % (off, ln))
                plan.append(('R', off, ln, flat.read(off, ln)))
            # partial reads: from the start / the middle of a cluster, lengths that are no power of two, across clusters
            nb = top.size // bs
            cpb = max(1, cs // bs)
            for _ in range(8):
                gc = rng.choice(sorted(top.clusters)) if top.clusters and rng.random() < 0.8 else rng.randrange(0, max(1, top.size // cs))
                b0 = gc * cpb + (0 if rng.random() < 0.5 else rng.randrange(0, cpb))
                k = rng.choice([1, 3, 3, 5, 6, 7, cpb - 1, cpb + 1])
                if b0 >= nb or k <= 0:
                    continue
                k = min(k, nb - b0)
                lines.append('R %d %d' % (b0 * bs, k * bs))
                plan.append(('R', b0 * bs, k * bs, flat.read(b0 * bs, k * bs)))
        lines.append('end')
        cases.append({'cid': cid, 'text': '\n'.join(lines) + '\n', 'plan': plan, 'descs': descs, 'truth': truths[0], 'paths': paths})
        for c in top.clusters.values():
            stats[c[0]] += 1
        stats['v%d' % top.version] += 1
        stats['backing'] += 1 if top.backing_file else 0
        stats['shuffled'] += 1 if top.shuffle_seed else 0
    obs = seqrun.run_cases_text(d, [(c['cid'], c['text']) for c in cases], timeout=900)
    # the builder's images under the specification checker (sanity of the generator)
    lst = os.path.join(d, 'l.txt')
    open(lst, 'w').write('\n'.join(c['paths'][0] for c in cases) + '\n')
    rc, dout = qv.sh('ulimit -s unlimited; exec %s check %s' % (os.path.join(qv.VERIF, 'driver', 'qdrv'), lst), timeout=1500)
    spec_ok = {}
    for ln in dout.split('\n'):
        if ln.strip():
            spec_ok[ln.split()[0]] = ' valid=1 ' in ln
    finds = []
    for c in cases:
        if not spec_ok.get(c['paths'][0], False):
            stats['builder_image_rejected_by_spec_checker'] += 1
            continue    # generator problem, not the library's: skip (counted)
        lines = obs.get(c['cid'], [])
        res = [l for l in lines if l.startswith('res ')]
        opens = [l for l in lines if l.startswith('open ')]
        hangs = [l for l in lines if l.startswith('hang')]
        top = c['descs'][0]
        desc = 'v%d cb=%d ro=%d size=%d backing=%s shuffle=%s ext=%d' % (top.version, top.cluster_bits, top.refcount_order, top.size, bool(top.backing_file), top.shuffle_seed, len(top.extensions))
        if hangs:
            finds.append(('hang', c, desc + ': an operation never returns'))
            continue
        ri = oi = 0
        want_map = foreign.truth_map(c['truth'], top, bool(top.backing_file) and len(c['descs']) > 1)
        bad = None
        for p in c['plan']:
            if p[0] == 'open':
                if oi >= len(opens) or not opens[oi].startswith('open ok'):
                    bad = ('open', 'open with params "%s" fails: %s' % (p[1], opens[oi] if oi < len(opens) else 'missing'))
                    break
                oi += 1
                continue
            if ri >= len(res):
                bad = ('api', 'missing result')
                break
            body = res[ri].split()[2:]
            ri += 1
            if not body or body[0] != 'ok':
                bad = ('api', '%s -> %s' % (p[0], ' '.join(body[:3])))
                break
            if p[0] == 'M':
                got = hist.parse_map(' '.join(body[1:]))
                if got != want_map:
                    ks = sorted(set(got) | set(want_map))
                    dk = [k for k in ks if got.get(k) != want_map.get(k)]
                    bad = ('mapping', 'get_mapping of guest cluster %d: %s, specification/builder: %s' % (dk[0], got.get(dk[0]), want_map.get(dk[0])))
                    break
            else:
                n_ret = int(body[1])
                vals = body[2:]
                if n_ret != p[2]:
                    bad = ('read', 'R %d %d returned %d' % (p[1], p[2], n_ret))
                    break
                diff = [i for i, (a, b) in enumerate(zip(vals, p[3])) if a != b]
                if diff:
                    i = diff[0]
                    gb = p[1] // 512 + i
                    gcn = gb * 512 // (1 << top.cluster_bits)
                    bad = ('read', 'guest block %d (cluster %d, %s): got %s want %s' % (gb, gcn, foreign.Truth(c['descs']).kind(gcn), vals[i], p[3][i]))
                    break
        if bad:
            finds.append((bad[0], c, desc + ': ' + bad[1]))
    # ---------- formatted images
    fcases = []
    grid = []
    for cb in ([9, 10, 12, 16] if tier == 'quick' else range(9, 21)):
        for ro in ([0, 2, 4, 6] if tier == 'quick' else range(7)):
            for size in [1 << 20, (1 << 20) + 512, 64 << 20, 1 << 16, 1 << 30]:
                for bs in ([512] if tier == 'quick' else [512, 4096]):
                    if bs > (1 << cb) or ((1 << cb) * 8 >> ro) > (1 << 18) or size % bs:
                        continue
                    grid.append((size, cb, ro, bs))
    for k, (size, cb, ro, bs) in enumerate(grid):
        cid = 'c09f_%d' % k
        fcases.append((cid, 'case %s\nimage format %d %d %d %d\nX fmt\nopen 9 - - 0\nM\nend\n' % (cid, size, cb, ro, bs)))
    fobs = seqrun.run_cases_text(d, fcases, timeout=600)
    fpaths = []
    for (cid, _), gp in zip(fcases, grid):
        ls = fobs.get(cid, [])
        img = [l for l in ls if l.startswith('image ')]
        if img and img[0].startswith('image err too_many_meta_clusters'):
            stats['format_refused'] += 1
            continue
        if not img or not img[0].startswith('image ok'):
            finds.append(('format', {'cid': cid, 'text': 'format %s' % (gp,), 'paths': []}, 'format_qcow2%s: %s' % (gp, img[0] if img else 'no result')))
            continue
        op = [l for l in ls if l.startswith('open ')]
        if not op or not op[0].startswith('open ok'):
            finds.append(('format-open', {'cid': cid, 'text': 'format %s' % (gp,), 'paths': []}, 'a freshly formatted image %s does not open with default parameters: %s' % (gp, op[0] if op else 'missing')))
        fpaths.append((os.path.join(d, cid + '.fmt.img'), gp, cid))
    open(lst, 'w').write('\n'.join(p for p, _, _ in fpaths) + '\n')
    rc, dout = qv.sh('ulimit -s unlimited; exec %s check %s' % (os.path.join(qv.VERIF, 'driver', 'qdrv'), lst), timeout=1500)
    vd = {ln.split()[0]: ln for ln in dout.split('\n') if ln.strip()}
    for p, gp, cid in fpaths:
        stats['formatted'] += 1
        ln = vd.get(p, '')
        if ' valid=1 ' not in ln:
            finds.append(('format-valid', {'cid': cid, 'text': 'format %s' % (gp,), 'paths': []}, 'format_qcow2(size=%d, cb=%d, ro=%d, bs=%d) is not valid under the specification checker: %s' % (gp + (ln[len(p):][:200],))))
    violations, known = [], []
    kfs = [f for f in qv.known_findings().get('findings', []) if f.get('property') == 'C09']
    seen = collections.Counter()
    for (cls, c, desc) in finds:
        kf = [f for f in kfs if f.get('match', {}).get('class') == cls and (not f['match'].get('desc_contains') or f['match']['desc_contains'] in desc)]
        if kf:
            if not any(x.startswith(kf[0]['id'] + ' ') for x in known):
                known.append('%s %s (e.g. %s)' % (kf[0]['id'], kf[0]['what'], desc[:200]))
            continue
        seen[cls] += 1
        if seen[cls] > 2 or len(violations) >= 8:
            continue
        keep = os.path.join(qv.VERIF, 'evidence', 'replay')
        os.makedirs(keep, exist_ok=True)
        imgs = []
        for p in c.get('paths', []):
            q = os.path.join(keep, 'C09-' + os.path.basename(p))
            shutil.copy(p, q)
            imgs.append(q)
        path = qv.write_replay('C09', c['cid'] + '.json', json.dumps({'what': desc, 'images': imgs, 'case_text': c['text'].replace(d, keep + '/C09-').replace('C09-/', 'C09-')}))
        violations.append({'replay': path})
        print('  finding [%s]: %s' % (cls, desc[:300]))
    shutil.rmtree(d, ignore_errors=True)
    cov = {'evaluations': len(cases) * 2 + len(grid), 'distinct_nontrivial': len(set(open(p, 'rb').read() if os.path.exists(p) else p for c in cases for p in c['paths'][:1])) if False else len(cases), 'nontrivial_rule': 'independently built images (each from its own random description)',
           'rule': 'independent builder: v2/v3, cluster_bits 9..16, all refcount widths, random placement with gaps, packed compressed runs, zero / preallocated-zero clusters, backing file (shorter, equal, longer), extensions; each opened with default and with random custom parameters, get_mapping + full read sweep + partial reads (cluster start / middle, non-power-of-two lengths, across clusters) against ground truth; format_qcow2 over a (size, cluster_bits, refcount_order, block size) grid judged by the specification checker',
           'samples': [{'image': 'v%d cb=%d ro=%d size=%d' % (c['descs'][0].version, c['descs'][0].cluster_bits, c['descs'][0].refcount_order, c['descs'][0].size), 'kinds': dict(collections.Counter(x[0] for x in c['descs'][0].clusters.values()))} for c in cases[:3]],
           'programs': len(cases), 'disagreements_checked': len(finds), 'distribution': dict(stats), 'format_grid': len(grid)}
    return common.finish('C09', tier, seed, 'exploration', gate, cov, t, violations, known,
                         ['raw deflate payloads come from python zlib (independent of miniz_oxide)', 'lib/qimg.py is itself judged by the extracted specification checker each run'],
                         'Foreign images through the real library vs builder ground truth; formatted images vs Spec/Image.validb.')
