"""Histories on images built by the independent builder (lib/qimg.py): foreign layouts, compressed /
zero / preallocated clusters, v2, backing chains.  Shared by C09, C10, C11 (and C01's full form)."""
import os, json, shutil, collections, random
import qv, hist, seqrun, qimg

BLK = 512


def fnv(b):
    h = 0xcbf29ce484222325
    for x in b:
        h ^= x
        h = (h * 0x100000001b3) & 0xffffffffffffffff
    return h


def blockval(b):
    """same canonical value the harness prints for a 512-byte block"""
    w0 = b[0:8]
    if b == w0 * (len(b) // 8):
        return 'w%x' % int.from_bytes(w0, 'little')
    return 'h%x' % fnv(b)


def cluster_bytes(rng, cs, kind):
    """content of one guest cluster; compressible when it has to be"""
    if kind == 'text':
        words = [bytes([rng.randrange(65, 91)]) * rng.randrange(1, 40) for _ in range(cs // 8)]
        return (b''.join(words))[:cs].ljust(cs, b'.')
    if kind == 'pattern':
        w = rng.getrandbits(64).to_bytes(8, 'little')
        return w * (cs // 8)
    # blocks of repeated words (each 512-byte block prints as a w-value)
    out = bytearray()
    for _ in range(cs // BLK):
        out += (rng.getrandbits(48) | (1 << 60)).to_bytes(8, 'little') * (BLK // 8)
    return bytes(out)


def rand_desc(rng, with_backing=None, cbs=None, allow_v2=True, nclusters=None, compress=True):
    cb = rng.choice(cbs or [9, 9, 10, 10, 11, 12, 13, 16])
    cs = 1 << cb
    version = 2 if (allow_v2 and rng.random() < 0.2) else 3
    ro = 4 if version == 2 else rng.choice([0, 1, 2, 3, 4, 4, 5, 6])
    n = nclusters or rng.choice([8, 20, 40, 70])
    if cb >= 16:
        n = min(n, 12)
    # sometimes leave whole L2 tables unallocated (a write there must create the table)
    l2e = cs // 8
    sparse = cb <= 10 and rng.random() < 0.35
    if sparse:
        n = l2e * rng.choice([2, 3]) + rng.randrange(0, 8)
    size = n * cs + (rng.choice([0, 0, 512, cs // 2]) if cs > 512 else 0)
    clusters = {}
    dense_l2 = rng.randrange(0, max(1, n // l2e)) if sparse else None
    for gc in range(n):
        k = rng.random()
        if sparse and gc // l2e != dense_l2:
            continue
        if sparse and k < 0.8:
            continue
        if k < 0.3:
            continue
        if k < 0.55:
            clusters[gc] = ('data', cluster_bytes(rng, cs, rng.choice(['blocks', 'pattern'])))
        elif k < 0.8 and compress:
            clusters[gc] = ('compressed', cluster_bytes(rng, cs, rng.choice(['text', 'pattern', 'text'])))
        elif version == 3:
            clusters[gc] = rng.choice([('zero',), ('zero_prealloc',)])
        else:
            clusters[gc] = ('data', cluster_bytes(rng, cs, 'pattern'))
    if version == 3 and not sparse and rng.random() < 0.2:
        # every cluster already has a host cluster (data or preallocated zero): writes need no allocation
        for gc in range(n):
            if gc not in clusters or clusters[gc][0] in ('zero',):
                clusters[gc] = ('zero_prealloc',) if rng.random() < 0.7 else ('data', cluster_bytes(rng, cs, 'blocks'))
    backing = with_backing if with_backing is not None else (rng.random() < 0.4)
    exts = []
    if rng.random() < 0.3:
        exts.append((qimg.EXT_BACKING_FORMAT, b'qcow2'))
    if rng.random() < 0.3:
        exts.append((0x12345678, bytes(rng.getrandbits(8) for _ in range(rng.randrange(0, 30)))))
    if rng.random() < 0.2:
        exts.append((qimg.EXT_FEATURE_NAMES, bytes([0, 0]) + b'dirty bit'.ljust(46, b'\0') + bytes([1, 0]) + b'lazy refcounts'.ljust(46, b'\0')))
    d = qimg.ImageDesc(version=version, cluster_bits=cb, refcount_order=ro, size=size, clusters=clusters,
                       backing_file='backing.img' if backing else None, l1_minimal=False, extensions=exts,
                       shuffle_seed=rng.randrange(1, 1 << 30) if rng.random() < 0.6 else None,
                       pack_compressed=rng.random() < 0.8)
    d.junk_free = d.shuffle_seed is not None and rng.random() < 0.6
    d.short_header = version == 3 and rng.random() < 0.3
    return d


def backing_desc(rng, top, shorter=None):
    """a backing image for `top` (same cluster size is not required, but keeps expectations simple)"""
    cb = top.cluster_bits
    cs = 1 << cb
    ntop = (top.size + cs - 1) // cs
    k = rng.random() if shorter is None else (0.1 if shorter else 0.9)
    n = max(1, ntop // 2) if k < 0.4 else (ntop + 3 if k < 0.6 else ntop)
    clusters = {}
    for gc in range(n):
        if rng.random() < 0.7:
            clusters[gc] = ('data', cluster_bytes(rng, cs, rng.choice(['blocks', 'pattern'])))
    # the backing image may end inside a cluster (zeros beyond its end, also inside the straddling cluster)
    size = n * cs - (rng.choice([0, 0, 512, cs // 2, cs - 512]) if cs > 512 and n > 1 else 0)
    return qimg.ImageDesc(version=3, cluster_bits=cb, refcount_order=4, size=size, clusters=clusters)


class Truth:
    """expected guest content of a chain, at 512-byte granularity"""

    def __init__(self, descs):
        self.descs = descs   # top first
        self.cs = 1 << descs[0].cluster_bits
        self.size = descs[0].size

    def cluster(self, gc, level=0):
        d = self.descs[level]
        cs = 1 << d.cluster_bits
        if gc * cs >= d.size:
            return bytes(cs)
        c = d.clusters.get(gc)
        if c is None:
            if d.backing_file and level + 1 < len(self.descs):
                b = self.cluster(gc, level + 1)
                # beyond the end of the backing image: zeros
                bd = self.descs[level + 1]
                if (gc + 1) * cs > bd.size:
                    keep = max(0, bd.size - gc * cs)
                    b = b[:keep] + bytes(cs - keep)
                return b
            return bytes(cs)
        if c[0] in ('data', 'compressed'):
            return c[1]
        return bytes(cs)

    def kind(self, gc):
        c = self.descs[0].clusters.get(gc)
        if c is None:
            return 'backing' if (self.descs[0].backing_file and len(self.descs) > 1) else 'unalloc'
        return c[0]

    def flat(self):
        f = hist.Flat(self.size)
        cs = self.cs
        n = (self.size + cs - 1) // cs
        for gc in range(n):
            data = self.cluster(gc)
            for i in range(cs // BLK):
                b = gc * (cs // BLK) + i
                if b * BLK >= self.size:
                    break
                v = blockval(data[i * BLK:(i + 1) * BLK])
                if v != 'w0':
                    f.blk[b] = v
            if self.kind(gc) in ('data',):
                f.alloc.add(gc)
        return f


def write_images(d, cid, descs):
    paths = []
    truths = []
    for i, ds in enumerate(descs):
        img, tr = qimg.build(ds)
        if getattr(ds, 'junk_free', False):
            # free host clusters may hold anything: stale bytes must never show up in the guest
            img = bytearray(img)
            cs = tr['cluster_size']
            for c, k in tr['refcounts'].items():
                if k == 0 and (c + 1) * cs <= len(img):
                    img[c * cs:(c + 1) * cs] = bytes([0x5A, c & 0xff, 0xC3, (c >> 8) & 0xff]) * (cs // 4)
            img = bytes(img)
        p = os.path.join(d, '%s.img%d' % (cid, i))
        open(p, 'wb').write(img)
        paths.append(p)
        truths.append(tr)
    return paths, truths


def truth_map(tr, desc, has_backing):
    """the mapping dump the library should print (same format as the harness `M` op)"""
    m = {}
    cs = 1 << desc.cluster_bits
    n = (desc.size + cs - 1) // cs
    for gc in range(n):
        t = tr['mapping'].get(gc)
        if t is None:
            if has_backing:
                m[gc] = ('B', gc * cs, 0, 0)
            continue
        kind, off, budget = t
        if kind == 'D':
            m[gc] = ('D', off, 0, 1)
        elif kind == 'Z':
            m[gc] = ('Z', off if off is not None else -1, 0, 1 if off is not None else 0)
        elif kind == 'C':
            m[gc] = ('C', off, budget, 0)
    return m
