"""Checks built on sequential histories (C01, C02, C03, C08, C11): shared runner.
Each property selects the projections it is about; everything else a run shows is left to the
property that owns it."""
import os, json, shutil, collections
import qv, hist, seqrun, common


def classify_known(prop, finding, case):
    """map a finding to an entry of known_findings.json, or None"""
    kf = qv.known_findings().get('findings', [])
    proj, pi, desc = finding
    for f in kf:
        if f.get('property') != prop:
            continue
        m = f.get('match', {})
        if m.get('projection') and m['projection'] != proj:
            continue
        if m.get('desc_contains') and m['desc_contains'] not in desc:
            continue
        return f
    return None


def run_histories(prop, tier, seed, projections, ncases, nops, cbs=None, mix=None, gate=None, level='exploration',
                  explanation='', assumptions=None, extra_cases=None, replay=None, owner_of_rest=None):
    t = qv.Timer()
    rng = qv.Rng(seed)
    if gate is None:
        gate = {'ok': True, 'obligations': 0, 'discharged': 0, 'failed': None, 'axioms': [], 'checker_cmd': '', 'gen': {}}
    rc, out = qv.harness_build()
    if rc != 0:
        print(out[-3000:])
        return 2
    if replay:
        rp = json.load(open(replay))
        g = hist.Geom(*rp['geom'])
        ops = [tuple(o) for o in rp['ops']]
        text, plan, snaps, flat = seqrun.build_case('r0', g, ops, qv.Rng(rp.get('seed', 1)))
        cases = [{'cid': 'r0', 'g': g, 'ops': ops, 'text': text, 'plan': plan, 'snaps': snaps}]
    else:
        cases = seqrun.gen_cases(rng, ncases, nops, prop.lower() + '_', cbs=cbs, mix=mix)
        if extra_cases:
            cases.extend(extra_cases(rng))
    d, obs, ver, maps = seqrun.run_batch(prop.lower(), cases)
    violations, known = [], []
    counts = collections.Counter()
    nontrivial = set()
    other = collections.Counter()
    kinds = collections.Counter()
    for c in cases:
        finds = seqrun.judge(c, obs.get(c['cid'], []), ver, maps.get(c['cid']))
        for op in c['ops']:
            kinds[op[0]] += 1
        sig = (c['g'].cb, c['g'].ro, tuple(op[0] for op in c['ops']))
        if any(op[0] == 'R' for op in c['ops']) and any(op[0] in 'WD' for op in c['ops']):
            nontrivial.add(hash((c['g'].desc(), tuple(c['ops']))))
        mine = [f for f in finds if f[0] in projections]
        for f in finds:
            if f[0] not in projections:
                other[f[0]] += 1
        if not mine:
            continue
        # one report per case: the first finding
        f = mine[0]
        counts[f[0]] += 1
        kfe = classify_known(prop, f, c)
        if kfe is not None:
            msg = '%s %s (e.g. %s: %s)' % (kfe['id'], kfe['what'], c['g'].desc(), f[2][:160])
            if not any(k.startswith(kfe['id'] + ' ') for k in known):
                known.append(msg)
            continue
        if len(violations) < 5:
            path = qv.write_replay(prop, '%s.json' % c['cid'], json.dumps({
                'geom': [c['g'].cb, c['g'].ro, c['g'].size, c['g'].bs, c['g'].l2, c['g'].rb, c['g'].punch],
                'ops': c['ops'], 'seed': seed, 'finding': {'projection': f[0], 'op_index': f[1], 'what': f[2]},
                'case_text': c['text']}))
            violations.append({'replay': path})
            print('  finding in %s [%s]: %s' % (c['cid'], c['g'].desc(), f[2][:300]))
    shutil.rmtree(d, ignore_errors=True)
    samples = [{'geometry': c['g'].desc(), 'ops': [hist.op_line(o) for o in c['ops'][:12]]} for c in cases[:3]]
    cov = {
        'evaluations': len(cases), 'distinct_nontrivial': len(nontrivial),
        'rule': 'structured argument-valid histories (write/read/discard/flush/shrink/reopen; sub-cluster, whole-cluster and straddling ranges) over random geometries (cluster_bits, refcount_order, block size, slice sizes, cache sizes down to 2 slices, punch supported or not); each ends with sweep, flush, snapshot, reopen with other parameters, sweep; non-trivial = distinct history with at least one read after a write or discard',
        'samples': samples,
        'programs': len(cases), 'disagreements_checked': sum(counts.values()), 'traces_validated_against_impl': len(cases) - sum(counts.values()),
        'distribution': {'ops': dict(kinds), 'cluster_bits': dict(collections.Counter(c['g'].cb for c in cases)),
                         'refcount_order': dict(collections.Counter(c['g'].ro for c in cases)),
                         'punch_unsupported': sum(1 for c in cases if not c['g'].punch)},
        'findings_by_projection': dict(counts), 'findings_left_to_other_properties': dict(other),
    }
    return common.finish(prop, tier, seed, level, gate, cov, t, violations, known, assumptions or [], explanation)
