"""C17 backend errors are reported and recoverable by retrying the flush.
For each history: one clean run to count the backend requests, then one run per request index with
that single request failing (read, write, zero/punch, fsync alike), plus runs with hole punching
unsupported and with random multi-request fault sets.  Every call must return Ok or Err (no panic,
no hang).  After the faults stop, flush_meta is repeated until Ok; then the file must pass the
extracted specification checker's safeb (leaks are the only permitted residue) and, on a device
reopened on the file, every block of an acknowledged write reads back, where 'acknowledged' means
the call returned Ok; blocks targeted by a call that returned Err may hold the old or the new value."""
import os, json, shutil, collections
import qv, hist, seqrun, common


def build_variant(cid, g, ops, fault_lines, rng, image=None):
    """history with faults switched on during the ops; recovery; snapshot; reopen; sweep"""
    lines = []
    lines += fault_lines
    for op in ops:
        lines.append(hist.op_line(op))
    lines.append('faults clear')
    for _ in range(4):
        lines.append('F')
    lines.append('X rec')
    lines.append('open ' + g.params())
    total = g.size // (1 << g.bs) * (1 << g.bs)
    chunk = max(4 * g.cs, 4096, (g.size >> 7) // 4096 * 4096)
    sweeps = []
    off = 0
    while off < total:
        ln = min(chunk, total - off)
        lines.append('R %d %d' % (off, ln))
        sweeps.append((off, ln))
        off += ln
    return hist.case_text(cid, g, lines, image=image), sweeps


def judge_variant(g, ops, sweeps, lines, verdict, init=None):
    """returns (class, description) or None"""
    res = [l for l in lines if l.startswith('res ')]
    opens = [l for l in lines if l.startswith('open ')]
    if any(l.startswith('hang') for l in lines):
        return ('hang', 'an operation never returns')
    for l in res + opens:
        tk = l.split()
        cls = tk[2] if tk[0] == 'res' and len(tk) > 2 else (tk[1] if tk[0] == 'open' and len(tk) > 1 else '')
        if cls in ('panic', 'deadlock', 'budget'):
            return ('panic', '%s' % ' '.join(tk[:4]))
    if len(opens) < 2 or not opens[0].startswith('open ok'):
        return None
    # walk the ops: exact or uncertain expectations per block
    flat = hist.Flat(g.size)
    if init is not None:
        flat.blk = dict(init.blk)
        flat.alloc = set(init.alloc)
    uncertain = {}   # block -> set of acceptable values
    cs = g.cs

    def blocks(off, ln):
        return range(off // 512, (off + ln + 511) // 512)
    ri = 0
    for op in ops:
        if ri >= len(res):
            return None
        body = res[ri].split()[2:]
        ri += 1
        ok = bool(body) and body[0] == 'ok'
        if op[0] == 'W':
            before = {b: flat.val(b) for b in blocks(op[1], op[2])}
            # the rest of a cluster that gets allocated by this write may be zeroed or kept
            flat.write(op[1], op[2], op[3], cs)
            if not ok:
                for b in blocks(op[1], op[2]):
                    s = uncertain.setdefault(b, set())
                    s.update([before[b], flat.val(b), 'w0'])
            else:
                for b in blocks(op[1], op[2]):
                    uncertain.pop(b, None)
        elif op[0] == 'D':
            end = min(op[1] + op[2], g.size)
            start = (op[1] + cs - 1) // cs * cs
            stop = end // cs * cs
            before = {b: flat.val(b) for b in blocks(start, max(0, stop - start))} if stop > start else {}
            flat.discard(op[1], op[2], cs)
            if not ok:
                for b in before:
                    uncertain.setdefault(b, set()).update([before[b], flat.val(b)])
    # flush retries
    fl = res[ri:ri + 4]
    if not any(len(x.split()) > 2 and x.split()[2] == 'ok' for x in fl):
        return ('flush-retry', 'flush_meta still fails after the faults stopped: %s' % [' '.join(x.split()[2:4]) for x in fl])
    ri += 4
    if not opens[1].startswith('open ok'):
        return ('reopen', 'reopen after recovery fails: ' + opens[1])
    if verdict is not None and verdict.get('safe') != '1':
        return ('unsafe', 'recovered file fails safeb: under=%s tables=%s supported=%s' % (verdict.get('under'), verdict.get('tables'), verdict.get('supported')))
    for (off, ln) in sweeps:
        if ri >= len(res):
            return ('reopen', 'missing sweep result')
        body = res[ri].split()[2:]
        ri += 1
        if not body or body[0] != 'ok':
            return ('read', 'sweep read %d %d after recovery: %s' % (off, ln, ' '.join(body[:3])))
        vals = body[2:]
        for i, v in enumerate(vals):
            b = off // 512 + i
            want = flat.val(b)
            if v != want and v not in uncertain.get(b, ()):
                return ('lost', 'guest block %d reads %s after recovery and reopen; acknowledged value %s%s' % (b, v, want, (' (also acceptable: %s)' % sorted(uncertain[b])) if b in uncertain else ''))
    return None


def run(tier, seed, replay):
    t = qv.Timer()
    rng = qv.Rng(seed)
    gate = common.proof_gate('C17', ['Model/Flush.v', 'Proofs/FlushProps.v', 'Props/C17.v'])
    rc, out = qv.harness_build()
    if rc != 0:
        print(out[-3000:])
        return 2
    nh = 8 if tier == 'quick' else 80
    d = qv.workdir('c17')
    bases = []
    for k in range(nh):
        g = hist.rand_geom(rng, cbs=[9, 9, 10, 10, 11])
        g.punch = 1
        ops = hist.gen_ops(rng, g, rng.randrange(4, 14), mix={'W': 55, 'D': 15, 'F': 15, 'R': 10, 'K': 5}, flush_end=False)
        ops = [o for o in ops if o[0] != 'O']
        image, init = None, None
        if k % 4 == 1 and k % 8 != 6:
            # cache pressure: more L2 slices in use than the cache holds and no flush in between, so loading a
            # slice evicts a dirty one (write-back inside the operation)
            cbx = rng.choice([9, 10, 11])
            se = 512 // 8
            nsl = rng.choice([3, 4, 6])
            g = hist.Geom(cbx, rng.choice([2, 4, 6]), (nsl * se) << cbx, 9, (9, 2 << 9), (9, rng.choice([2, 8]) << 9), punch=1)
            if cbx >= 10:
                # L2 tables larger than a slice, on a host file whose free space holds stale bytes: a new table that is
                # not zeroed (failed zeroing) shows up as garbage entries in the slices nobody wrote
                g.tail = (rng.choice([16, 32]) << cbx, rng.choice([0x01, 0xEE]))
            ops = []
            tag = 1
            for _ in range(rng.randrange(4, 10)):
                sl = rng.randrange(0, nsl)
                c = sl * se + rng.randrange(0, se)
                ops.append(('W', c * g.cs, rng.choice([512, g.cs]), tag))
                tag += 1
                if rng.random() < 0.15:
                    ops.append(('R', c * g.cs, g.cs))
        if k % 8 == 6:
            # slice loads from disk: mappings in several slices are flushed, the caches emptied, and the slices are loaded
            # again one after the other (a failed load, then the load of another slice, then the first region again)
            cbx = rng.choice([9, 10])
            se = 64
            nsl = rng.choice([3, 4, 5])
            g = hist.Geom(cbx, rng.choice([2, 4, 6]), (nsl * se) << cbx, 9, (9, 2 << 9), (9, rng.choice([2, 8]) << 9), punch=1)
            order = list(range(nsl))
            rng.shuffle(order)
            ops, tag = [], 1
            for sl in order:
                ops.append(('W', (sl * se + rng.randrange(0, 30)) * g.cs, g.cs, tag))
                tag += 1
            ops += [('F',), ('K',)]
            rng.shuffle(order)
            for i in range(nsl):
                x, y = order[i], order[(i + 1) % nsl]
                # region x (its slice load may fail), another region, region x again - then everything is dropped again
                ops.append(('R', (x * se + rng.randrange(0, 30)) * g.cs, 512))
                ops.append(('R', (y * se + rng.randrange(0, 30)) * g.cs, 512))
                ops.append(('W', (x * se + 30 + rng.randrange(0, 30)) * g.cs, 512, tag))
                tag += 1
                ops += [('F',), ('K',)]
            image, init = None, None
        if k % 8 == 4:
            # COW from a backing image with SMALLER clusters: one COW reads several backing clusters; faults hit reads of
            # the backing file (file index 1)
            import foreign, qimg
            cbT, cbB = 12, rng.choice([9, 10])
            nT = rng.choice([6, 10])
            csT, csB = 1 << cbT, 1 << cbB
            bclusters = {gc: ('data', foreign.cluster_bytes(rng, csB, 'blocks')) for gc in range((nT * csT) // csB) if rng.random() < 0.9}
            back = qimg.ImageDesc(version=3, cluster_bits=cbB, refcount_order=4, size=nT * csT, clusters=bclusters)
            tclusters = {gc: ('data', foreign.cluster_bytes(rng, csT, 'blocks')) for gc in rng.sample(range(nT), 2)}
            top = qimg.ImageDesc(version=3, cluster_bits=cbT, refcount_order=4, size=nT * csT, clusters=tclusters, backing_file='back.img')
            try:
                paths, _ = foreign.write_images(d, 'c17img_%d' % k, [top, back])
                g = hist.Geom(cbT, 4, top.size, 9, (9, 4 << 9), (9, 4 << 9), punch=1)
                init = hist.Flat(top.size)
                for b in range(top.size // 512):
                    gcT = (b * 512) // csT
                    if gcT in tclusters:
                        data = tclusters[gcT][1][(b * 512) % csT:(b * 512) % csT + 512]
                    else:
                        gcB = (b * 512) // csB
                        data = bclusters[gcB][1][(b * 512) % csB:(b * 512) % csB + 512] if gcB in bclusters else bytes(512)
                    v = foreign.blockval(data)
                    if v != 'w0':
                        init.blk[b] = v
                init.alloc = set(tclusters)
                init.backing_faults = True
                ops = []
                tag = 1
                for gcT in rng.sample([x for x in range(nT) if x not in tclusters], 3):
                    ops.append(('W', gcT * csT + 512 * rng.randrange(0, csT // 512 - 2), rng.choice([512, 1024]), tag))
                    tag += 1
                    if rng.random() < 0.5:
                        ops.append(('R', gcT * csT, csT))
                ops.append(('F',))
                image = 'image file %s\nimage file %s' % (paths[0], paths[1])
            except ValueError:
                image, init = None, None
        if k % 3 == 2 and k % 8 not in (4, 6):
            # independently built image: compressed / zero / preallocated clusters, free clusters with stale content
            import foreign
            for _ in range(8):
                top = foreign.rand_desc(rng, with_backing=False, allow_v2=False, cbs=[10, 11, 12], nclusters=rng.choice([8, 20, 40]))
                if any(foreign.Truth([top]).kind(gc) in ('unalloc', 'zero') for gc in range(top.size >> top.cluster_bits)):
                    break
            try:
                paths, _ = foreign.write_images(d, 'c17img_%d' % k, [top])
                g = hist.Geom(top.cluster_bits, top.refcount_order, top.size, 9, (9, rng.choice([2, 3, 8]) << 9), (9, rng.choice([2, 3, 8]) << 9), punch=1)
                ops = [o for o in hist.gen_ops(rng, g, rng.randrange(4, 14), mix={'W': 60, 'D': 10, 'F': 15, 'R': 10, 'K': 5}, flush_end=False) if o[0] != 'O']
                tr = foreign.Truth([top])
                image, init = 'image file ' + paths[0], tr.flat()
                init.fresh = [gc for gc in range((top.size + g.cs - 1) // g.cs) if tr.kind(gc) in ('unalloc', 'zero') and (gc + 1) * g.cs <= top.size]
                # the host file is longer than the image needs and its tail holds stale bytes: new clusters land there
                g.tail = (rng.choice([8, 24]) * g.cs, 0xEE)
            except ValueError:
                image, init = None, None
        bases.append((g, ops, image, init))
    # clean runs: number of requests per history
    clean = [('c17b_%d' % k, hist.case_text('c17b_%d' % k, g, [hist.op_line(o) for o in ops] + ['reqcount'], image=image)) for k, (g, ops, image, init) in enumerate(bases)]
    obs = seqrun.run_cases_text(d, clean, timeout=600)
    variants = []
    meta = {}
    for k, (g, ops, image, init) in enumerate(bases):
        ls = obs.get('c17b_%d' % k, [])
        rq = [l for l in ls if l.startswith('reqcount')]
        if not rq:
            continue
        total = int(rq[0].split()[1].split('/')[0])
        nreads = total - int(rq[0].split()[1].split('/')[1])
        # every read of the history fails once (reads are few: table / slice loads, COW sources) - in the quick tier the
        # sampled request indices rarely hit them
        for kk in range(min(nreads, 40 if tier == 'quick' else 400)):
            cid = 'c17_%d_rd%d' % (k, kk)
            fl = ['fault R 0 %d %d' % (1 << 40, kk)]
            text, sweeps = build_variant(cid, g, ops, fl, rng, image)
            text = text.replace('open %s\n%s\n' % (g.params(), fl[0]), '%s\nopen %s\n' % (fl[0], g.params()))
            variants.append((cid, text))
            meta[cid] = (g, ops, sweeps, 'faults: ' + fl[0], init)
        # requests issued by open() come first: find how many by a run without ops
        idxs = list(range(total))
        if tier == 'quick' and len(idxs) > 60:
            idxs = sorted(rng.sample(idxs, 60))
        for i in idxs:
            cid = 'c17_%d_%d' % (k, i)
            text, sweeps = build_variant(cid, g, ops, ['failidx %d' % i], rng, image)
            # failidx counts from the moment it is placed: place it before `open` by moving it up
            text = text.replace('open %s\nfailidx %d\n' % (g.params(), i), 'failidx_abs %d\nopen %s\n' % (i, g.params()))
            variants.append((cid, text))
            meta[cid] = (g, ops, sweeps, 'request #%d fails' % i, init)
        # punch unsupported for the whole history
        cid = 'c17_%d_np' % k
        g2 = hist.Geom(g.cb, g.ro, g.size, g.bs, g.l2, g.rb, punch=0)
        g2.tail = getattr(g, 'tail', None)
        text, sweeps = build_variant(cid, g2, ops, [], rng, image)
        variants.append((cid, text))
        meta[cid] = (g2, ops, sweeps, 'hole punching unsupported', init)
        if image is None and getattr(g, 'tail', None):
            # the zeroing of a new (data or table) cluster fails in both forms, at its 1st .. nth occurrence
            for kk in range(4 if tier == 'quick' else 10):
                cid = 'c17_%d_zt%d' % (k, kk)
                fl = ['fault ZW 0 %d %d' % (1 << 40, kk)]
                text, sweeps = build_variant(cid, g, ops, fl, rng, image)
                variants.append((cid, text))
                meta[cid] = (g, ops, sweeps, 'faults: ' + '; '.join(fl), init)
        if image is not None and getattr(init, 'backing_faults', False):
            # the n-th read of the backing file fails
            for kk in range(6 if tier == 'quick' else 24):
                cid = 'c17_%d_br%d' % (k, kk)
                fl = ['fault R 0 %d %d 1' % (1 << 40, kk)]
                text, sweeps = build_variant(cid, g, ops, fl, rng, image)
                variants.append((cid, text))
                meta[cid] = (g, ops, sweeps, 'faults: ' + '; '.join(fl) + ' (backing file)', init)
        if image is not None:
            # zeroing of a new cluster fails twice (punch, then the zero-write fallback): stale host bytes must not show up
            for kk in range(3 if tier == 'quick' else 6):
                cid = 'c17_%d_zw%d' % (k, kk)
                if kk % 3 != 2 and getattr(init, 'fresh', None):
                    # sub-cluster writes into clusters that need a new host cluster, each followed by a retry at another
                    # offset of the same cluster: the rest of the cluster must read as zeros whichever attempt zeroed it
                    zops, tag = [], 1
                    for gc in rng.sample(init.fresh, min(len(init.fresh), 4)):
                        for _ in range(2):
                            zops.append(('W', gc * g.cs + 512 * rng.randrange(0, g.cs // 512), 512, tag))
                            tag += 1
                        if rng.random() < 0.3:
                            zops.append(('F',))
                    fl = ['fault ZW 0 %d %d' % (1 << 40, kk % 3)]
                    text, sweeps = build_variant(cid, g, zops, fl, rng, image)
                    variants.append((cid, text))
                    meta[cid] = (g, zops, sweeps, 'faults: ' + '; '.join(fl), init)
                    continue
                fl = ['fault ZW 0 %d %d' % (1 << 40, kk)] if kk < 3 else ['fault ZW 0 %d %d' % (1 << 40, kk - 3), 'fault ZW 0 %d %d' % (1 << 40, kk - 1)]
                text, sweeps = build_variant(cid, g, ops, fl, rng, image)
                variants.append((cid, text))
                meta[cid] = (g, ops, sweeps, 'faults: ' + '; '.join(fl), init)
        # random multi-request fault sets by kind/range
        for j in range(3 if tier == 'quick' else 10):
            cid = 'c17_%d_m%d' % (k, j)
            fl = []
            for _ in range(rng.randrange(2, 5)):
                kind = rng.choice(['W', 'W', 'Z', 'S', 'R'])
                lo = rng.randrange(0, 40) * g.cs
                fl.append('fault %s %d %d %d' % (kind, lo, lo + rng.randrange(1, 20) * g.cs, rng.randrange(0, 3)))
            text, sweeps = build_variant(cid, g, ops, fl, rng, image)
            variants.append((cid, text))
            meta[cid] = (g, ops, sweeps, 'faults: ' + '; '.join(fl), init)
    obs2 = seqrun.run_cases_text(d, variants, timeout=1500)
    lst = os.path.join(d, 'l.txt')
    paths = [os.path.join(d, cid + '.rec.img') for cid, _ in variants if os.path.exists(os.path.join(d, cid + '.rec.img'))]
    open(lst, 'w').write('\n'.join(paths) + '\n')
    rc, dout = qv.sh('ulimit -s unlimited; exec %s check %s' % (os.path.join(qv.VERIF, 'driver', 'qdrv'), lst), timeout=1500)
    ver = {}
    for ln in dout.split('\n'):
        if ln.strip():
            ver[os.path.basename(ln.split()[0])] = dict(x.split('=', 1) for x in ln.split()[1:] if '=' in x)
    finds = []
    errs = collections.Counter()
    for cid, text in variants:
        g, ops, sweeps, what, init = meta[cid]
        ls = obs2.get(cid, [])
        for l in ls:
            tk = l.split()
            if tk[0] == 'res' and len(tk) > 2 and tk[2] == 'err':
                errs['err'] += 1
        r = judge_variant(g, ops, sweeps, ls, ver.get(cid + '.rec.img'), init)
        if r:
            finds.append((r[0], cid, '%s [%s; %s]' % (r[1], what, g.desc()), text))
    violations, known = [], []
    kfs = [f for f in qv.known_findings().get('findings', []) if f.get('property') == 'C17']
    seen = collections.Counter()
    for (cls, cid, desc, text) in finds:
        kf = [f for f in kfs if f.get('match', {}).get('class') == cls and (not f['match'].get('desc_contains') or f['match']['desc_contains'] in desc)]
        if kf:
            if not any(x.startswith(kf[0]['id'] + ' ') for x in known):
                known.append('%s %s (e.g. %s)' % (kf[0]['id'], kf[0]['what'], desc[:220]))
            continue
        seen[cls] += 1
        if seen[cls] > 2 or len(violations) >= 6:
            continue
        p = qv.write_replay('C17', cid + '.json', json.dumps({'class': cls, 'what': desc, 'case_text': text}))
        violations.append({'replay': p})
        print('  finding [%s] %s: %s' % (cls, cid, desc[:330]))
    if not os.environ.get("KEEPW"): shutil.rmtree(d, ignore_errors=True)
    cov = {'evaluations': len(variants), 'distinct_nontrivial': qv.distinct_nontrivial([t for _, t in variants], needs=('W ', 'D ')), 'nontrivial_rule': 'distinct (history, fault set) scripts with at least one write or discard',
           'rule': 'for each base history one run per backend request index with that request failing (exhaustive per history in the thorough tier, sampled to 60 in quick), one run with hole punching unsupported, and random multi-request fault sets by (kind, host range, nth occurrence); recovery = faults off, flush_meta x4, snapshot, reopen, sweep',
           'samples': [{'geometry': g.desc(), 'ops': [hist.op_line(o) for o in ops]} for g, ops, _, _ in bases[:2]],
           'base_histories': len(bases), 'fault_runs': len(variants), 'api_errors_observed': errs['err'],
           'findings_by_class': dict(collections.Counter(f[0] for f in finds))}
    return common.finish('C17', tier, seed, 'fault_enumeration', gate, cov, t, violations, known,
                         ['a failed request changes nothing in the file (SimFile); torn failed writes are not modelled here (see C04)'],
                         'Single-request fault enumeration over the request stream of each history + fallback + multi-fault sets; safeb and acknowledged-write oracle after recovery.')
