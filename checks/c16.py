"""C16 backend requests are block aligned: every request the library sends (offset, length, buffer
address modulo the block size; the harness hands in 4096-aligned caller buffers) over random
histories and geometries, block sizes 512..4096."""
import os, json, shutil, collections
import qv, hist, seqrun, common


def run(tier, seed, replay):
    t = qv.Timer()
    rng = qv.Rng(seed)
    gate = common.proof_gate('C16', ['Model/Codec.v', 'Base/Bits.v', 'Proofs/Geometry.v', 'Proofs/AlignProps.v', 'Props/C16.v'])
    rc, out = qv.harness_build()
    if rc != 0:
        print(out[-3000:])
        return 2
    n = 150 if tier == 'quick' else 3000
    cases = []
    d = qv.workdir('c16')
    for i in range(n):
        g = hist.rand_geom(rng, cbs=[9, 10, 11, 12, 12, 13, 16])
        # exercise block sizes above 512: sizes are multiples of 4096 when the cluster allows it
        ops = hist.gen_ops(rng, g, rng.randrange(3, 30), mix={'W': 40, 'R': 30, 'D': 10, 'F': 8, 'K': 4, 'S': 2, 'N': 2})
        cid = 'c16_%d' % i
        image = None
        if i % 3 == 2:
            # independently built image with compressed clusters / backing: bounce-buffer reads and COW
            import foreign
            top = foreign.rand_desc(rng, with_backing=rng.random() < 0.3, allow_v2=False, cbs=[10, 11, 12, 12, 13], nclusters=rng.choice([8, 20]))
            descs = [top] + ([foreign.backing_desc(rng, top)] if top.backing_file else [])
            try:
                paths, _ = foreign.write_images(d, cid, descs)
                bsb = rng.choice([9, 10, 11, 12, 12])
                bsb = min(bsb, top.cluster_bits)
                while any(dd.size % (1 << bsb) for dd in descs) and bsb > 9:   # every image of the chain is read at block granularity
                    bsb -= 1
                sb = max(bsb, 9)
                g = hist.Geom(top.cluster_bits, top.refcount_order, top.size, bsb, (sb, 4 << sb), (sb, 4 << sb))
                ops = hist.gen_ops(rng, g, rng.randrange(3, 30), mix={'W': 40, 'R': 40, 'D': 8, 'F': 8, 'K': 4})
                ops = [o for o in ops if o[0] != 'O']
                image = '\n'.join('image file ' + p for p in paths)
            except ValueError:
                image = None
        if i % 7 == 6:
            # a virtual size that is not a multiple of the block size (top image over a backing image): whatever the
            # library does with the last partial block (known finding F32 is about its data), every request it sends
            # must still be block aligned - COW of the last, partial cluster included
            import foreign, qimg
            cbx = rng.choice([12, 13, 16])
            csx = 1 << cbx
            ncl = rng.choice([3, 5])
            sizex = ncl * csx + 4096 + rng.choice([512, 1536, 2560])
            bclusters = {gc: ('data', foreign.cluster_bytes(rng, csx, 'blocks')) for gc in range(ncl + 1)}
            back = qimg.ImageDesc(version=3, cluster_bits=cbx, refcount_order=4, size=(ncl + 1) * csx, clusters=bclusters)
            topd = qimg.ImageDesc(version=3, cluster_bits=cbx, refcount_order=4, size=sizex, clusters={}, backing_file='back.img')
            try:
                paths, _ = foreign.write_images(d, cid, [topd, back])
                bsb = rng.choice([10, 12, 12])
                g = hist.Geom(cbx, 4, sizex, bsb, (12, 4 << 12), (12, 4 << 12))
                bsz = 1 << bsb
                ops = [('W', ncl * csx, bsz, 1), ('W', csx + bsz, bsz, 2), ('R', ncl * csx, bsz), ('W', ncl * csx + 4096 - bsz, bsz, 3) if bsz <= 4096 else ('F',),
                       ('R', 0, csx), ('F',), ('R', (ncl - 1) * csx, csx)]
                image = '\n'.join('image file ' + p for p in paths)
            except ValueError:
                image = None
        if i % 7 == 3:
            # header updates: an image whose header lists fewer L1 entries than the virtual size needs; a write far
            # into the disk makes the library extend the L1 table and rewrite the header
            import foreign, qimg
            cbx = rng.choice([9, 10, 12])
            csx = 1 << cbx
            l2e = csx // 8
            nl1 = rng.choice([3, 8])
            clusters = {gc: ('data', foreign.cluster_bytes(rng, csx, 'blocks')) for gc in rng.sample(range(0, l2e), 3)}
            # the header carries extensions as other tools write them (feature name table of 8 x 48 bytes, an unknown
            # extension): its serialized form can be longer than one block and not a multiple of the block size
            exts = []
            if rng.random() < 0.7 and cbx >= 10:
                names = b''.join(bytes([t, b]) + (b'feat%d' % b).ljust(46, b'\0') for t, b in [(0, 0), (0, 1), (0, 2), (0, 3), (0, 4), (1, 0), (2, 0), (2, 1)])
                exts.append((0x6803f857, names))
                exts.append((0x12345678, bytes(rng.getrandbits(8) for _ in range(rng.choice([3, 24, 100])))))
            desc = qimg.ImageDesc(version=3, cluster_bits=cbx, refcount_order=4, size=l2e * nl1 * csx, clusters=clusters, l1_minimal=True, extensions=exts)
            try:
                paths, _ = foreign.write_images(d, cid, [desc])
                bsb = min(rng.choice([9, 10, 12]), cbx)
                sb = max(bsb, 9)
                g = hist.Geom(cbx, 4, desc.size, bsb, (sb, 4 << sb), (sb, 4 << sb))
                hi = (l2e * (nl1 - 1) + 5) * csx
                ops = [('W', hi, csx, 1), ('F',), ('W', l2e * csx + csx, csx, 2), ('R', hi, csx), ('F',)]
                image = 'image file ' + paths[0]
            except ValueError:
                image = None
        if i % 7 == 5:
            # a host file that ends inside an allocated cluster at a multiple of 512 only (written with block size 512),
            # then served with a larger block size: reads at / across the end of the host file
            cbx = rng.choice([12, 13, 16])
            g0 = hist.Geom(cbx, 4, 64 << cbx, 9, (9, 4 << 9), (9, 4 << 9))
            pre = 'c16w_%d' % i
            k = rng.choice([1, 3, 5])
            cases.append({'cid': pre, 'g': g0, 'ops': [], 'text': hist.case_text(pre, g0, ['W %d %d 1' % (rng.randrange(0, 4) << cbx, 512 * k), 'F', 'X w', 'alignstat 9'])})
            bsb = rng.choice([10, 11, 12])
            g = hist.Geom(cbx, 4, 64 << cbx, bsb, (bsb, 4 << bsb), (bsb, 4 << bsb))
            ops = [('R', c << cbx, n << bsb) for c in range(4) for n in (1, (1 << cbx) >> bsb)]
            image = 'image file ' + os.path.join(d, pre + '.w.img')
        lines = [hist.op_line(o) for o in ops] + ['F', 'alignstat %d' % g.bs]
        cases.append({'cid': cid, 'g': g, 'ops': ops, 'text': hist.case_text(cid, g, lines, image=image)})
    obs = seqrun.run_cases_text(d, [(c['cid'], c['text']) for c in cases])
    shutil.rmtree(d, ignore_errors=True)
    violations, known = [], []
    total = 0
    badcases = 0
    bsd = collections.Counter()
    kfs = [f for f in qv.known_findings().get('findings', []) if f.get('property') == 'C16']
    for c in cases:
        for l in obs.get(c['cid'], []):
            if l.startswith('alignstat '):
                kv = dict(x.split('=', 1) for x in l.split()[1:])
                total += int(kv['reqs'])
                bsd[c['g'].bs] += int(kv['reqs'])
                if kv['bad'] != '0':
                    badcases += 1
                    desc = 'request %s (kind:offset:len:bufaddr%%4096:op) is not aligned to the %d-byte block size [%s]' % (kv['first'], 1 << c['g'].bs, c['g'].desc())
                    kf = [f for f in kfs if f.get('match', {}).get('kind', '') == kv['first'][0]]
                    if kf:
                        if not known:
                            known.append('%s %s (e.g. %s)' % (kf[0]['id'], kf[0]['what'], desc))
                        continue
                    if len(violations) < 5:
                        p = qv.write_replay('C16', c['cid'] + '.json', json.dumps({'what': desc, 'case_text': c['text']}))
                        violations.append({'replay': p})
                        print('  finding: ' + desc)
    cov = {'evaluations': total, 'distinct_nontrivial': len(cases) - badcases if len(cases) - badcases >= 2 else len(cases),
           'rule': 'every backend request of every history (data, table and slice I/O, zeroing, flushes); non-trivial = history whose every request was examined',
           'samples': [{'geometry': c['g'].desc(), 'ops': [hist.op_line(o) for o in c['ops'][:8]]} for c in cases[:2]],
           'requests_by_block_size_bits': dict(bsd), 'histories': len(cases), 'histories_with_unaligned_request': badcases}
    return common.finish('C16', tier, seed, 'exploration', gate, cov, t, violations, known,
                         ['buffer addresses are observed modulo 4096 in the harness process'],
                         'Alignment predicate on the implementation request log; compressed-cluster and header-update paths need the image builder / growth histories (added with C09/C12).')
