"""C01 sequential reads equal a flat reference disk.
(1) proof gate: coq/Props/C01.v - theorems over the cluster-level device model (every history, every allocation
    choice accepted by the guard: reads equal the flat-disk view; the executable invariant check is sound);
(2) correspondence of that model with the library on sampled histories (checks/devsim.py);
(3) the FlatDisk oracle on every read of histories over library-formatted and independently built images
    (large sparse disks, v2, backing chains, compressed clusters: geometries the model run does not cover)."""
import c10, common


def run(tier, seed, replay):
    n = 60 if tier == 'quick' else 600
    gate = common.proof_gate('C01', ['Model/Dev.v', 'Proofs/DevProps.v', 'Props/C01.v'])
    return c10.run_foreign('C01', tier, seed, ('read', 'api', 'open', 'setup'), n, 'Theorems over the device model (Props/C01.v) + model/library correspondence + FlatDisk oracle on every read (incl. a full sweep) of histories over library-formatted and independently built images.', plain_n=(90 if tier == 'quick' else 600), level='proof', gate=gate, sim_n=(60 if tier == 'quick' else 600))
