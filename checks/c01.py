"""C01 sequential reads equal the flat reference disk."""
import seqprop


def run(tier, seed, replay):
    n = 150 if tier == 'quick' else 3000
    return seqprop.run_histories('C01', tier, seed, ('read', 'api', 'open', 'setup'), n, 30, replay=replay,
                                 explanation='FlatDisk oracle on the implementation: every read of every history, incl. a full sweep, equals the flat reference disk; all operations return Ok.',
                                 assumptions=['SimFile implements the host-file contract of Base/File (validated against the real backends by C19)'])
