"""C01: see DESIGN.md section 3."""
import c10


def run(tier, seed, replay):
    n = 60 if tier == 'quick' else 1500
    return c10.run_foreign('C01', tier, seed, ('read', 'api', 'open', 'setup'), n, 'FlatDisk oracle on every read (incl. a full sweep) of histories over library-formatted and independently built images (data/zero/compressed/backing chains).', plain_n=(90 if tier == 'quick' else 1500))
