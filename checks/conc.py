"""Concurrent histories under the deterministic scheduler (harness `par`): shared by C06, C07, C18.
Each batch starts k operations together on one device; DetExec chooses which woken task to poll and
which in-flight backend request completes next (PRNG, four bias modes).  Observed: per-operation
result, start/finish step, deadlock / step-budget outcome, then (sequentially) need_flush_meta(), a
full sweep, flush_meta, snapshot, reopen sweep."""
import os, json, shutil, collections
import qv, hist, seqrun

BLK = 512


def gen_batch(rng, g, tagbase, hot):
    cs, bs = g.cs, 1 << g.bs
    nclus = max(1, g.size // cs)
    k = rng.choice([2, 2, 3, 3, 4, 5, 6])
    style = rng.choice(['disjoint', 'samecluster', 'overlap', 'mixed', 'mixed', 'reuse'])
    ops = []
    tag = tagbase
    base = rng.choice(hot)
    if style == 'reuse':
        # a discard of a (probably allocated) hot cluster while writes to OTHER clusters allocate: the freed host cluster
        # may be handed out again while the discard is still punching it
        c = base % nclus
        ops.append(('D', c * cs, cs))
        for i in range(rng.choice([1, 1, 2, 3])):
            c2 = (c + 3 + 2 * i + rng.randrange(0, 5)) % nclus
            if c2 == c:
                continue
            tag += 1
            ops.append(('W', c2 * cs + rng.choice([0, bs]) % cs, rng.choice([bs, cs]) if rng.choice([0, bs]) == 0 else bs, tag))
        ops = [o if o[0] != 'W' or o[1] + o[2] <= g.size // bs * bs else ('W', 0, bs, o[3]) for o in ops]
        if rng.random() < 0.4:
            ops.append(('R', c * cs, cs))
        return ops, tag
    for i in range(k):
        kind = rng.choice(['W', 'W', 'W', 'R', 'R', 'D', 'F', 'K']) if style == 'mixed' else rng.choice(['W', 'W', 'R', 'D', 'F'])
        if style == 'disjoint':
            c = (base + i * 2) % nclus
            off, ln = c * cs, cs if rng.random() < 0.5 else bs * rng.randrange(1, cs // bs + 1)
        elif style == 'samecluster':
            c = base % nclus
            nb = cs // bs
            a = rng.randrange(0, nb)
            l = rng.randrange(1, nb - a + 1)
            off, ln = c * cs + a * bs, l * bs
        else:
            c = (base + rng.randrange(0, 3)) % nclus
            nb = cs // bs
            a = rng.randrange(0, nb)
            l = rng.randrange(1, 2 * nb)
            off, ln = c * cs + a * bs, l * bs
        if off + ln > g.size // bs * bs:
            ln = g.size // bs * bs - off
        if ln <= 0:
            off, ln = 0, bs
        if kind == 'W':
            tag += 1
            ops.append(('W', off, ln, tag))
        elif kind == 'R':
            ops.append(('R', off, ln))
        elif kind == 'D':
            ops.append(('D', off // cs * cs, cs * rng.randrange(1, 3)))
        else:
            ops.append((kind,))
    return ops, tag


def build_case(cid, g, rng, nbatches, images=None, faults_p=0.0, alloc=None, open_only=False):
    lines = []
    batches = []
    tag = 0
    nclus = max(1, g.size // g.cs)
    hot = [rng.randrange(0, nclus) for _ in range(3)]
    prelude = []
    for b in range(nbatches):
        stale_style = (images is None and b == 0 and bool(getattr(g, 'tail', None)) and g.l2[0] < g.cb
                       and nclus > (1 << g.l2[0]) // 8 + 2 and rng.random() < 0.8)
        if b == 0 and not stale_style and rng.random() < 0.5:
            # prelude: the hot clusters are allocated and flushed before the concurrent part
            for hc in hot:
                tag += 1
                lines.append('W %d %d %d' % (hc * g.cs, g.cs, tag))
                prelude.append(('W', hc * g.cs, g.cs, tag))
            lines.append('F')
        ops, tag = gen_batch(rng, g, tag, hot)
        evict_style = False
        l2_slots = g.l2[1] >> g.l2[0]
        per_slice = (1 << g.l2[0]) // 8
        if faults_p and nclus > per_slice * l2_slots and rng.random() < 0.7:
            # eviction write-back racing with a flush: dirty slices filling the cache (sequential writes, no flush),
            # then concurrently an access to one more slice (evicts a dirty one) and flush_meta
            evict_style = True
            for sl in range(l2_slots):
                tag += 1
                c0 = sl * per_slice + rng.randrange(0, per_slice)
                lines.append('W %d %d %d' % (c0 * g.cs, 512, tag))
                prelude.append(('W', c0 * g.cs, 512, tag))
            cx = l2_slots * per_slice + rng.randrange(0, min(per_slice, nclus - l2_slots * per_slice))
            ops = [rng.choice([('R', cx * g.cs, 512), ('W', cx * g.cs, 512, tag + 1)]), rng.choice([('F',), ('K',)])]
            tag += 1
            if rng.random() < 0.5:
                ops.append(('F',))
        rb_slots = g.rb[1] >> g.rb[0]
        per_rb = ((1 << g.rb[0]) * 8) >> g.ro
        if not evict_style and images is None and b == 0 and nclus > rb_slots * per_rb + 8 and rng.random() < 0.6:
            # refcount-block cache pressure: host clusters covering every cached refblock slice are allocated (dirty
            # slices, no flush), then an allocation that needs one more slice (evicts a dirty one) races with flush_meta
            fill = max(1, rb_slots * per_rb - rng.choice([10, 14, 20]))
            tag += 1
            lines.append('W 0 %d %d' % (fill * g.cs, tag))
            prelude.append(('W', 0, fill * g.cs, tag))
            k2 = min(nclus - fill, rng.choice([16, 24, 30]))
            ops = [('W', fill * g.cs, k2 * g.cs, tag + 1), ('F',)]
            tag += 1
            if rng.random() < 0.5 and nclus - fill - k2 > 0:
                ops.append(('W', (fill + k2) * g.cs, g.cs, tag + 1))
                tag += 1
            rng.shuffle(ops)
        if not evict_style and stale_style:
            # a new L2 table lands on host bytes that are not zero (stale tail of the host file); its first slice is
            # written back by a discard (not by flush_meta) while another slice of the same table is loaded
            a = rng.randrange(0, per_slice)
            tag += 1
            lines.append('W %d %d %d' % (a * g.cs, g.cs, tag))
            prelude.append(('W', a * g.cs, g.cs, tag))
            o = per_slice + rng.randrange(0, min(per_slice, nclus - per_slice))
            ops = [('D', a * g.cs, g.cs), rng.choice([('R', o * g.cs, 512), ('W', o * g.cs, 512, tag + 1), ('R', o * g.cs, g.cs)])]
            tag += 1
            if rng.random() < 0.4:
                ops.append(('F',))
            rng.shuffle(ops)
        spread_style = False
        if (not evict_style and not stale_style and images is None and b == 0 and l2_slots <= 3
                and nclus >= per_slice * (l2_slots + 3) and rng.random() < 0.6):
            # more concurrent writes into distinct, not yet cached L2 slices than the L2 cache has slots: every slice load
            # has to evict a dirty slice of another task (write-back awaited) while the others commit theirs
            nsl = nclus // per_slice
            m = min(nsl, l2_slots + rng.choice([1, 2, 3, 4, 6]))
            sls = rng.sample(range(nsl), m)
            ops = []
            for sl in sls:
                tag += 1
                ops.append(('W', (sl * per_slice + rng.randrange(0, per_slice)) * g.cs, 512, tag))
            if rng.random() < 0.3:
                ops.append(rng.choice([('F',), ('K',), ('R', sls[0] * per_slice * g.cs, 512)]))
            rng.shuffle(ops)
            spread_style = True
        open_style = False
        if not evict_style and not stale_style and not spread_style and b == 0 and alloc and (open_only or rng.random() < 0.35):
            # right after open (nothing cached yet): an operation that releases a host cluster has to load the refcount
            # block slice first - next to a flush_meta that scans the refcount cache meanwhile
            a = rng.choice(alloc)
            # (a flush that starts later would repair a flag cleared too early, so exactly one flush)
            ops = [('D', a * g.cs, g.cs), ('F',)]
            if not open_only and rng.random() < 0.3:
                ops.append(rng.choice([('K',), ('D', rng.choice(alloc) * g.cs, g.cs)]))
            rng.shuffle(ops)
            open_style = True
        seed = rng.randrange(1, 1 << 40)
        mode = rng.choice([0, 0, 1, 2, 3])
        if stale_style and not evict_style and rng.random() < 0.9:
            mode = 3   # the request issued last completes first: a slice load overtakes the zeroing issued before it
        faulty = rng.random() < faults_p or evict_style
        if faulty:
            # one backend write (metadata area: low host offsets) fails during this batch
            lo = rng.randrange(0, 24) * g.cs
            if evict_style:
                lines.append('fault W 0 %d %d' % (64 * g.cs, rng.randrange(0, 3)))
            else:
                lines.append('fault W %d %d %d' % (lo, lo + rng.randrange(1, 12) * g.cs, rng.randrange(0, 4)))
        lines.append('par %d %d %d %d' % (seed, mode, 200000, len(ops)))
        # some operations start late (after a few scheduler steps): @<n> prefix
        delays = [rng.choice([0, 0, 0, 3, 8, 15, 30]) if i > 0 else 0 for i in range(len(ops))]
        if stale_style and not evict_style:
            delays = [0 if o[0] == 'D' else rng.choice([2, 3, 4, 5, 6, 7, 8, 9, 10]) for o in ops]
        if open_style:
            # the flush starts while the discard is somewhere between its own flush block and the refcount update
            delays = [0 if o[0] == 'D' else rng.randrange(2, 44) for o in ops]
            if rng.random() < 0.5:
                mode = 3
        lines += [('@%d ' % dl if dl else '') + hist.op_line(o) for o, dl in zip(ops, delays)]
        if faulty:
            lines.append('faults clear')
        lines.append('N')
        lines.append('X q%d' % b)
        # sweep
        total = g.size // (1 << g.bs) * (1 << g.bs)
        chunk = max(4 * g.cs, 4096)
        off = 0
        sw = []
        while off < total:
            ln = min(chunk, total - off)
            lines.append('R %d %d' % (off, ln))
            sw.append((off, ln))
            off += ln
        batches.append({'ops': ops, 'seed': seed, 'mode': mode, 'sweep': sw, 'delays': delays, 'prelude': list(prelude), 'faulty': faulty})
        prelude = []
    lines.append('F')
    lines.append('X end')
    lines.append('open ' + g.params())
    total = g.size // (1 << g.bs) * (1 << g.bs)
    off = 0
    fsw = []
    while off < total:
        ln = min(max(4 * g.cs, 4096), total - off)
        lines.append('R %d %d' % (off, ln))
        fsw.append((off, ln))
        off += ln
    if images:
        text = 'case %s\n%s\nopt punch=%d\nopen %s\n%s\nend\n' % (cid, '\n'.join('image file ' + p for p in images), g.punch, g.params(), '\n'.join(lines))
    else:
        text = hist.case_text(cid, g, lines)
    return text, batches, fsw


def blocks_of(op, cs, size):
    if op[0] in ('W', 'R'):
        return range(op[1] // BLK, (op[1] + op[2]) // BLK)
    if op[0] == 'D':
        end = min(op[1] + op[2], size)
        st = (op[1] + cs - 1) // cs * cs
        sp = end // cs * cs
        return range(st // BLK, max(st, sp) // BLK)
    return range(0)


def judge(g, batches, fsw, lines, init=None):
    """returns list of (projection, description, batch index, schedule)"""
    finds = []
    cur = dict(init or {})     # block -> value before the batch
    it = iter(lines)
    li = 0
    L = [l for l in lines if l.split()[0] in ('par', 'sched', 'res', 'snap', 'open', 'hang')]
    pos = 0
    opens = [l for l in L if l.startswith('open')]
    if not opens or not opens[0].startswith('open ok'):
        return [('setup', 'open failed: %s' % (opens[0] if opens else 'none'), -1, '')]
    pos = L.index(opens[0]) + 1
    cs = g.cs
    for bi, b in enumerate(batches):
        # sequential prelude of the first batch: its results come before the `par` line
        for op in b.get('prelude', []):
            for blk in blocks_of(op, cs, g.size):
                cur[blk] = 'w%x' % ((op[3] << 40) | (blk & 0xffffffffff))
        while pos < len(L) and L[pos].startswith('res ') and b.get('prelude'):
            if L[pos].split()[2] != 'ok':
                finds.append(('spurious-err', 'prelude operation failed: ' + L[pos], bi, ''))
                return finds
            pos += 1
        if pos >= len(L):
            finds.append(('progress', 'batch %d: no result (hang?)' % bi, bi, ''))
            return finds
        par = L[pos]
        pos += 1
        if par.startswith('hang'):
            finds.append(('progress', 'batch %d: the harness watchdog fired (a poll never returned)' % bi, bi, ''))
            return finds
        ptk = par.split()
        sched = ''
        if pos < len(L) and L[pos].startswith('sched'):
            sched = L[pos][6:]
            pos += 1
        if ptk[1] != 'finished':
            finds.append(('progress', 'batch %d ops %s: %s' % (bi, [hist.op_line(o) for o in b['ops']], ' '.join(ptk[1:3])), bi, sched))
            return finds
        k = len(b['ops'])
        results = []
        for i in range(k):
            tk = L[pos].split()
            pos += 1
            # res <idx> <start> <finish> <class> ...
            results.append({'start': int(tk[2]), 'finish': int(tk[3]) if tk[3] != '-' else 10 ** 9, 'cls': tk[4], 'rest': tk[5:]})
        for i, (op, r) in enumerate(zip(b['ops'], results)):
            if r['cls'] != 'ok':
                finds.append(('spurious-err', 'batch %d: %s returned %s while run concurrently with %s' % (bi, hist.op_line(op), ' '.join([r['cls']] + r['rest'][:2]), [hist.op_line(o) for j, o in enumerate(b['ops']) if j != i]), bi, sched))
        # per block candidate values
        writers = collections.defaultdict(list)   # block -> [(value, start, finish, definite)]
        for op, r in zip(b['ops'], results):
            if r['cls'] != 'ok':
                continue
            if op[0] == 'W':
                for blk in blocks_of(op, cs, g.size):
                    writers[blk].append(('w%x' % ((op[3] << 40) | (blk & 0xffffffffff)), r['start'], r['finish'], True))
            elif op[0] == 'D':
                for blk in blocks_of(op, cs, g.size):
                    writers[blk].append(('w0', r['start'], r['finish'], False))
        # reads inside the batch
        for op, r in zip(b['ops'], results):
            if op[0] != 'R' or r['cls'] != 'ok':
                continue
            n = int(r['rest'][0])
            vals = r['rest'][1:]
            if n != op[2]:
                finds.append(('lin', 'batch %d: %s returned %d bytes' % (bi, hist.op_line(op), n), bi, sched))
                continue
            for j, v in enumerate(vals):
                blk = op[1] // BLK + j
                ws = writers.get(blk, [])
                allowed = {cur.get(blk, 'w0')} | {w[0] for w in ws if w[1] <= r['finish']}
                if v not in allowed:
                    finds.append(('lin', 'batch %d: read %s sees %s in guest block %d; possible values %s' % (bi, hist.op_line(op), v, blk, sorted(allowed)), bi, sched))
                    break
                # staleness: a definite write that finished before the read started hides older values
                done_before = [w for w in ws if w[3] and w[2] < r['start']]
                if done_before:
                    src = [w for w in ws if w[0] == v]
                    if v == cur.get(blk, 'w0') and not src:
                        finds.append(('lin', 'batch %d: read %s returns the old value %s of block %d although write(s) of %s finished before it started' % (bi, hist.op_line(op), v, blk, [w[0] for w in done_before]), bi, sched))
                        break
                    if src and all(any(s[2] < o[1] for o in done_before) for s in src) and all(s[0] != o[0] for s in src for o in done_before):
                        finds.append(('lin', 'batch %d: read %s returns %s for block %d, which was overwritten by a write that finished before the read started' % (bi, hist.op_line(op), v, blk), bi, sched))
                        break
        # after the batch: N, snapshot, sweep
        ntk = L[pos].split()
        pos += 1
        need_flush = ntk[3] if len(ntk) > 3 else '?'
        dirty = None
        for tkx in ntk[4:]:
            if tkx.startswith('dirty='):
                dirty = tuple(int(x) for x in tkx[6:].split(','))
        b['dirty'] = dirty
        snap = L[pos] if pos < len(L) and L[pos].startswith('snap') else None
        if snap:
            pos += 1
        vals = []
        for (off, ln) in b['sweep']:
            tk = L[pos].split()
            pos += 1
            if tk[2] != 'ok':
                finds.append(('final', 'batch %d: sweep read fails: %s' % (bi, ' '.join(tk[2:5])), bi, sched))
                return finds
            vals.extend(tk[4:])
        b['need_flush'] = need_flush
        b['sweepvals'] = vals
        for blk, v in enumerate(vals):
            ws = [w for w in writers.get(blk, [])]
            old = cur.get(blk, 'w0')
            if not ws:
                if v != old:
                    finds.append(('final', 'batch %d: guest block %d changed from %s to %s although no operation of the batch targets it (ops %s)' % (bi, blk, old, v, [hist.op_line(o) for o in b['ops']]), bi, sched))
                    break
                continue
            definite = [w for w in ws if w[3]]

            def maximal(cands):
                return [w for w in cands if not any(w[2] < o[1] for o in definite if o is not w)]
            allowed = {w[0] for w in maximal(ws)} | {w[0] for w in maximal(definite)}
            if not definite:
                allowed.add(old)
            if v not in allowed:
                finds.append(('final', 'batch %d: guest block %d holds %s after all operations finished; acknowledged candidates %s (ops %s)' % (bi, blk, v, sorted(allowed), [hist.op_line(o) for o in b['ops']]), bi, sched))
                break
        for blk, v in enumerate(vals):
            if v == 'w0':
                cur.pop(blk, None)
            else:
                cur[blk] = v
    # final flush + reopen sweep
    while pos < len(L) and not L[pos].startswith('res'):
        pos += 1
    if pos < len(L):
        ftk = L[pos].split()
        pos += 1
        if ftk[2] != 'ok':
            finds.append(('spurious-err', 'final flush_meta: %s' % ' '.join(ftk[2:5]), len(batches), ''))
    while pos < len(L) and not L[pos].startswith('open'):
        pos += 1
    if pos < len(L):
        if not L[pos].startswith('open ok'):
            finds.append(('reopen', 'reopen after the concurrent batches fails: ' + L[pos], len(batches), ''))
            return finds
        pos += 1
        vals = []
        for (off, ln) in fsw:
            if pos >= len(L):
                break
            tk = L[pos].split()
            pos += 1
            if tk[2] != 'ok':
                finds.append(('reopen', 'sweep after reopen fails: ' + ' '.join(tk[2:5]), len(batches), ''))
                return finds
            vals.extend(tk[4:])
        last = batches[-1].get('sweepvals', []) if batches else []
        diff = [i for i, (a, c) in enumerate(zip(last, vals)) if a != c]
        if diff:
            finds.append(('reopen', 'guest block %d reads %s before flush+reopen and %s after (%d blocks differ)' % (diff[0], last[diff[0]], vals[diff[0]], len(diff)), len(batches), ''))
    return finds
