"""Correspondence between the cluster-level device model (coq/Model/Dev.v, extracted to OCaml, run by
`qdrv dev`) and the real library, on sequential histories.
For every history the model starts from the image file itself (mapping, stored refcounts and metadata clusters
read by the extracted specification reader; the verified checker invb must accept that state), then follows
the library operation by operation:
  * a write is replayed with the host clusters the library chose (taken from its mapping dump after the call);
    the model refuses when such a cluster is not free (refcount 0, not metadata, referenced by nobody);
  * after every operation the library's mapping dump must equal the model's mapping;
  * every read must return the model's values;
  * at every flush the file's stored refcounts must equal the model's, except for free clusters that the file's
    own tables now reference once (metadata growth), which the model absorbs through its `grow` step.
The theorems of coq/Proofs/DevProps.v (run_inv, step_read, alloc_was_free, invb_sound) hold for every run of the
model; this check is what ties the model to the code."""
import os, json, shutil, collections
import qv, hist, seqrun

BLK = 512

# what a disagreement means, per property
CLASS_PROPS = {
    'guard': ('C08',),            # a host cluster handed out although it was not free
    'read': ('C01', 'C03'),       # a read differs from the flat-disk view of the model
    'map': ('C03', 'C11', 'C10'), # mapping differs (kind or host cluster)
    'sync': ('C02', 'C08'),       # stored refcounts differ from the references
    'init': ('C16',),             # the initial image does not satisfy the invariant
    'api': ('C01',),              # an argument-valid call failed
}


def gen_case(rng, d, cid, foreign_p=0.35):
    import foreign
    images, desc = None, None
    if rng.random() < foreign_p:
        top = foreign.rand_desc(rng, with_backing=rng.random() < 0.4, allow_v2=True, cbs=[9, 9, 10], nclusters=rng.choice([8, 20, 40]))
        if top.size // (1 << top.cluster_bits) <= 300:
            descs = [top]
            if top.backing_file:
                descs.append(foreign.backing_desc(rng, top))
            try:
                images, _ = foreign.write_images(d, cid, descs)
                desc = top
            except ValueError:
                images, desc = None, None
    if desc is not None:
        cb, ro, size = desc.cluster_bits, desc.refcount_order, desc.size
        v2, backing = desc.version == 2, bool(desc.backing_file)
    else:
        cb = rng.choice([9, 9, 10, 11])
        ro = rng.choice([0, 1, 2, 3, 4, 4, 5, 6])
        size = (rng.choice([6, 17, 40, 130, 260]) << cb) + rng.choice([0, 0, 512])
        v2, backing = False, False
    bs = 9
    l2 = (9, rng.choice([2, 3, 8]) << 9)
    rb = (9, rng.choice([2, 3, 8]) << 9)
    g = hist.Geom(cb, ro, size, bs, l2, rb, punch=rng.choice([1, 1, 0]))
    ops = [o for o in hist.gen_ops(rng, g, rng.randrange(6, 40), mix={'W': 50, 'D': 20, 'F': 12, 'R': 12, 'K': 6}, flush_end=True) if o[0] != 'O']
    return g, ops, images, v2, backing


def build(cid, g, ops, images, d):
    """harness case text + list describing what each `res` line is"""
    lines, plan = [], []
    total = g.size // BLK * BLK
    chunk = max(4 * g.cs, 4096)
    off = 0
    while off < total:
        ln = min(chunk, total - off)
        lines.append('R %d %d' % (off, ln))
        plan.append(('init', off, ln))
        off += ln
    lines.append('M')
    plan.append(('M0',))
    ns = 0
    for op in ops:
        lines.append(hist.op_line(op))
        plan.append(('op', op))
        if op[0] in ('W', 'D'):
            lines.append('M')
            plan.append(('M',))
        if op[0] == 'F':
            lines.append('X s%d' % ns)
            plan.append(('snap', os.path.join(d, '%s.s%d.img' % (cid, ns))))
            ns += 1
    if images:
        text = 'case %s\n%s\nopt punch=%d\nopen %s\n%s\nend\n' % (cid, '\n'.join('image file ' + p for p in images), g.punch, g.params(), '\n'.join(lines))
        init_img = images[0]
    else:
        text = 'case %s\nimage format %d %d %d 512\nopt punch=%d\nX init\nopen %s\n%s\nend\n' % (cid, g.size, g.cb, g.ro, g.punch, g.params(), '\n'.join(lines))
        init_img = os.path.join(d, '%s.init.img' % cid)
    return text, plan, init_img


def map_tokens(mstr, cs):
    m = hist.parse_map(mstr)
    out = {}
    for gc, (k, off, ln, cp) in m.items():
        if k == 'D':
            out[gc] = 'D:%d' % (off // cs)
        elif k == 'Z':
            out[gc] = 'Z:%d' % (off // cs) if (off is not None and off >= 0 and cp) else 'Z'
        elif k == 'C':
            out[gc] = 'C'
        elif k == 'ERR':
            out[gc] = 'ERR'
    return out


def script_for(cid, g, plan, init_img, v2, backing, lines):
    """qdrv script from the library's observations; returns (text, expectations) or (None, finding)"""
    res = [l for l in lines if l.startswith('res ') or l.startswith('snap ')]
    cs = g.cs
    bpc = cs // BLK
    nclu = (g.size + cs - 1) // cs
    out = ['case ' + cid, 'cfg %d %d %d %d %d' % (bpc, nclu, g.size // BLK, 1 if backing else 0, 1 if v2 else 0), 'image ' + init_img]
    expect = []   # parallel to qdrv output lines after 'init'
    ri = 0
    cur_map = {}
    script_ops = []
    for item in plan:
        if item[0] == 'snap':
            # 'snap' lines are not res lines
            while ri < len(res) and not res[ri].startswith('snap '):
                ri += 1
            ri += 1
            script_ops.append(('sync', item[1]))
            continue
        while ri < len(res) and res[ri].startswith('snap '):
            ri += 1
        if ri >= len(res):
            return None, ('api', 'the library stopped answering (%d results for %d planned)' % (len(res), len(plan)))
        tk = res[ri].split()
        ri += 1
        body = tk[2:]
        if item[0] == 'init':
            if body[0] != 'ok':
                return None, ('api', 'initial sweep read fails: ' + ' '.join(body[:3]))
            for i, v in enumerate(body[2:]):
                if v != 'w0':
                    out.append('val %d %s' % (item[1] // BLK + i, v))
        elif item[0] in ('M0', 'M'):
            if body[0] != 'ok':
                return None, ('api', 'get_mapping fails: ' + ' '.join(body[:3]))
            cur_map = map_tokens(' '.join(body[1:]), cs)
            if any(v == 'ERR' for v in cur_map.values()):
                return None, ('api', 'get_mapping returns an error for a cluster')
            if item[0] == 'M0':
                out.append('begin')
            # a write needs the choices from the dump that follows it: patch the pending W line
            if script_ops and script_ops[-1][0] == 'Wpending':
                _, op = script_ops.pop()
                lo, hi = op[1] // cs, (op[1] + op[2] - 1) // cs
                ch = ['%d=%s' % (gc, cur_map[gc][2:]) for gc in range(lo, hi + 1) if cur_map.get(gc, '').startswith('D:')]
                script_ops.append(('line', 'W %d %d %d %s' % (op[1] // BLK, op[2] // BLK, op[3], ' '.join(ch)), 'write ok'))
            script_ops.append(('line', 'M ' + ' '.join('%d=%s' % kv for kv in sorted(cur_map.items())), 'map ok'))
        else:
            op = item[1]
            if op[0] in ('W', 'D', 'F', 'K') and body[0] != 'ok':
                return None, ('api', '%s returns %s' % (hist.op_line(op), ' '.join(body[:3])))
            if op[0] == 'W':
                script_ops.append(('Wpending', op))
            elif op[0] == 'D':
                # whole clusters inside the byte range = whole clusters inside the range shrunk to block boundaries
                end = min(op[1] + op[2], (1 << 64) - 1, 1 << 62)
                ob, eb = (op[1] + BLK - 1) // BLK, end // BLK
                script_ops.append(('line', 'D %d %d' % (min(ob, 1 << 53), max(0, eb - ob)), 'discard ok'))
            elif op[0] == 'R':
                if body[0] != 'ok':
                    return None, ('api', '%s returns %s' % (hist.op_line(op), ' '.join(body[:3])))
                n = int(body[1])
                script_ops.append(('line', 'R %d %d' % (op[1] // BLK, n // BLK), 'read ' + ' '.join(body[2:])))
    for so in script_ops:
        if so[0] == 'line':
            out.append(so[1])
            expect.append((so[1], so[2]))
        elif so[0] == 'sync':
            out.append('sync ' + so[1])
            expect.append(('sync ' + so[1], 'sync ok'))
    out.append('end')
    return '\n'.join(out) + '\n', expect


def judge(expect, dlines):
    """dlines: qdrv output of this case after the 'case' line"""
    if not dlines or not dlines[0].startswith('init '):
        return ('init', 'model could not load the initial image: %s' % (dlines[:1],))
    if 'inv=1' not in dlines[0]:
        return ('init', 'the initial image does not satisfy the model invariant (invb = false): ' + dlines[0])
    body = dlines[1:]
    for (cmd, want), got in zip(expect, body):
        if got == 'skipped':
            break
        if want == 'sync ok':
            if not got.startswith('sync ok'):
                return ('sync', '%s -> %s' % (cmd.split('/')[-1], got))
        elif got != want:
            if got.startswith('write guard-fail'):
                return ('guard', 'the library handed out a host cluster that is not free in the model: %s (at %s)' % (got[17:], cmd[:60]))
            if got.startswith('map diff'):
                return ('map', '%s after %s' % (got, cmd[:50]))
            if got.startswith('read '):
                g1, w1 = got.split()[1:], want.split()[1:]
                i = next((k for k in range(min(len(g1), len(w1))) if g1[k] != w1[k]), -1)
                return ('read', '%s: block +%d model=%s library=%s' % (cmd, i, g1[i] if i >= 0 else len(g1), w1[i] if i >= 0 else len(w1)))
            return ('map', 'model says %s where the library run expects %s (%s)' % (got, want, cmd[:60]))
    return None


def run_sim(rng, n, tag='devsim', foreign_p=0.35, gen=None):
    """returns (findings, stats): findings = [(class, cid, description, case_text)]"""
    d = qv.workdir(tag)
    cases = []
    for k in range(n):
        cid = '%s_%d' % (tag, k)
        g, ops, images, v2, backing = gen(rng, d, cid) if gen else gen_case(rng, d, cid, foreign_p)
        text, plan, init_img = build(cid, g, ops, images, d)
        cases.append({'cid': cid, 'g': g, 'ops': ops, 'text': text, 'plan': plan, 'init': init_img, 'v2': v2, 'backing': backing})
    obs = seqrun.run_cases_text(d, [(c['cid'], c['text']) for c in cases], timeout=1200)
    finds = []
    stats = collections.Counter()
    scripts = []
    for c in cases:
        ls = obs.get(c['cid'], [])
        if any(l.startswith('hang') for l in ls):
            continue   # C07's business
        sc, ex = script_for(c['cid'], c['g'], c['plan'], c['init'], c['v2'], c['backing'], ls)
        if sc is None:
            finds.append((ex[0], c['cid'], ex[1] + ' [' + c['g'].desc() + ']', c['text']))
            continue
        c['expect'] = ex
        scripts.append((c, sc))
        for o in c['ops']:
            stats['op_' + o[0]] += 1
        stats['foreign' if 'image file' in c['text'] else 'fresh'] += 1
    # run the model: shard over processes
    shards = [scripts[i::16] for i in range(16)]
    procs = []
    import subprocess
    for i, sh in enumerate(shards):
        if not sh:
            continue
        p = os.path.join(d, 'dev%d.txt' % i)
        open(p, 'w').write(''.join(s for _, s in sh))
        procs.append((sh, subprocess.Popen('ulimit -s unlimited; exec %s dev %s' % (os.path.join(qv.VERIF, 'driver', 'qdrv'), p), shell=True,
                                           stdout=subprocess.PIPE, stderr=subprocess.PIPE, text=True)))
    for sh, pr in procs:
        out, err = pr.communicate(timeout=1500)
        per = {}
        cur = None
        for ln in out.split('\n'):
            if ln.startswith('case '):
                cur = ln.split()[1]
                per[cur] = []
            elif cur is not None and ln.strip():
                per[cur].append(ln)
        for c, _ in sh:
            dl = per.get(c['cid'])
            if dl is None:
                finds.append(('init', c['cid'], 'the model driver produced no output (%s)' % err[-200:], c['text']))
                continue
            stats['model_steps'] += len(dl)
            r = judge(c['expect'], dl)
            if r:
                finds.append((r[0], c['cid'], r[1] + ' [' + c['g'].desc() + ']', c['text']))
    stats['cases'] = len(cases)
    stats['distinct_cases'] = qv.distinct_nontrivial([c['text'] for c in cases])
    return finds, stats, d
