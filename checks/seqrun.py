"""Sequential histories on the real library with the FlatDisk / specification oracles.
Shared by C01, C02, C03, C08, C11 (each judges its own projection)."""
import os, json, shutil
import qv, hist


def build_case(cid, g, ops, rng, sweep_chunk=None, flat=None, images=None):
    """returns (case_text, plan) where plan lists what each `res` line must show"""
    flat = flat or hist.Flat(g.size)
    lines = []
    plan = []   # per op index: dict(kind=..., expect=...)
    cs = g.cs
    snaps = []
    cur_bs = 1 << g.bs
    for op in ops:
        k = op[0]
        if k == 'W':
            flat.write(op[1], op[2], op[3], cs)
            plan.append({'k': 'W', 'op': op})
            lines.append(hist.op_line(op))
        elif k == 'R':
            plan.append({'k': 'R', 'op': op, 'expect': flat.read(op[1], op[2])})
            lines.append(hist.op_line(op))
        elif k == 'D':
            flat.discard(op[1], op[2], cs)
            plan.append({'k': 'D', 'op': op})
            lines.append(hist.op_line(op))
        elif k == 'F':
            plan.append({'k': 'F', 'op': op})
            lines.append('F')
            name = 'f%d' % len(snaps)
            snaps.append(name)
            lines.append('X ' + name)
            lines.append('N')
            plan.append({'k': 'N', 'op': ('N',), 'after_flush': True})
        elif k == 'O':
            plan.append({'k': 'O', 'op': op})
            lines.append('open ' + op[1])
            cur_bs = 1 << int(op[1].split()[0])
        else:
            plan.append({'k': k, 'op': op})
            lines.append(k)
    # closing sequence: sweep, mapping, flush, snapshot, reopen with other parameters, sweep again
    total = g.size // cur_bs * cur_bs
    chunk = sweep_chunk or max(cs * 4, 4096, (g.size >> 7) // 4096 * 4096)

    def sweep(tagname):
        nonlocal_bs = cur_bs
        off = 0
        # chunks are deliberately not aligned to clusters / slices: a short first chunk shifts them
        first = rng.randrange(1, max(2, chunk // nonlocal_bs)) * nonlocal_bs
        while off < total:
            ln = min(chunk if off else first, total - off)
            plan.append({'k': 'R', 'op': ('R', off, ln), 'expect': flat.read(off, ln), 'sweep': tagname})
            lines.append('R %d %d' % (off, ln))
            off += ln
    sweep('before')
    plan.append({'k': 'M', 'op': ('M',)})
    lines.append('M')
    plan.append({'k': 'F', 'op': ('F',), 'final': True})
    lines.append('F')
    lines.append('X end')
    snaps.append('end')
    lines.append('reqcount')
    bs2, l2, rb = hist.rand_params(rng, g.cb)
    bs2 = min(bs2, g.bs)
    g2 = hist.Geom(g.cb, g.ro, g.size, bs2, l2, rb)
    plan.append({'k': 'O', 'op': ('O', g2.params()), 'reopen_params': g2.params()})
    lines.append('open ' + g2.params())
    total = g.size // (1 << bs2) * (1 << bs2)
    cur_bs = 1 << bs2
    sweep('after')
    plan.append({'k': 'M', 'op': ('M',), 'after': True})
    lines.append('M')
    lines.append('reqcount')
    if images:
        text = 'case %s\n%s\nopt punch=%d\nopen %s\n%s\nend\n' % (cid, '\n'.join('image file ' + p for p in images), g.punch, g.params(), '\n'.join(lines))
    else:
        text = hist.case_text(cid, g, lines)
    return text, plan, snaps, flat


def run_cases_text(d, items, release=False, timeout=900):
    """items: [(cid, text)].  Runs them in one harness process; a case that hangs (watchdog, exit 3)
    is recorded as such and the rest of the batch is re-run."""
    obs = {}
    todo = list(items)
    rounds = 0
    while todo and rounds < 50:
        rounds += 1
        bf = os.path.join(d, 'batch%d.txt' % rounds)
        open(bf, 'w').write(''.join(t for _, t in todo))
        rc, out, err = qv.run_harness([bf, d], timeout=timeout, release=release)
        got = hist.parse_output(out)
        obs.update(got)
        if rc == 0:
            break
        if rc == 3:
            hung = [l for l in out.split('\n') if l.startswith('hang ')]
            cid = hung[-1].split()[1] if hung else None
            ids = [c for c, _ in todo]
            if cid in ids:
                obs[cid] = obs.get(cid, []) + ['hang %s' % hung[-1].split()[2]]
                todo = todo[ids.index(cid) + 1:]
                continue
        if rc < 0 and len(todo) > 1:
            # the process was killed by a signal (a non-unwinding panic aborts it; stdout of the cases before it is
            # lost in the buffer): run the cases of this batch one per process and record the one(s) that abort
            for cid, text in todo:
                bf1 = os.path.join(d, 'single_%s.txt' % cid)
                open(bf1, 'w').write(text)
                rc1, out1, err1 = qv.run_harness([bf1, d], timeout=timeout, release=release)
                got1 = hist.parse_output(out1)
                obs.update(got1)
                if rc1 < 0:
                    obs[cid] = obs.get(cid, []) + ['abort %d' % -rc1]
                elif rc1 == 3:
                    hung = [l for l in out1.split('\n') if l.startswith('hang ')]
                    if hung:
                        obs[cid] = obs.get(cid, []) + ['hang %s' % hung[-1].split()[2]]
                os.remove(bf1)
            break
        raise RuntimeError('harness failed rc=%d\n%s\n%s' % (rc, out[-1500:], err[-1500:]))
    return obs


def run_batch(tag, cases, release=False):
    """cases: list of (cid, g, ops, text, plan, snaps).  Returns dict cid -> observation dict"""
    d = qv.workdir(tag)
    obs = run_cases_text(d, [(c['cid'], c['text']) for c in cases], release=release)
    # specification checker on every snapshot
    lst = os.path.join(d, 'imgs.txt')
    paths = []
    for c in cases:
        for s in c['snaps']:
            p = os.path.join(d, '%s.%s.img' % (c['cid'], s))
            if os.path.exists(p):
                paths.append(p)
    open(lst, 'w').write('\n'.join(paths) + '\n')
    rc, dout = qv.sh('ulimit -s unlimited; exec %s check %s' % (os.path.join(qv.VERIF, 'driver', 'qdrv'), lst), timeout=1800)
    verdicts = {}
    for ln in dout.split('\n'):
        if not ln.strip():
            continue
        p = ln.split()[0]
        kv = dict(x.split('=', 1) for x in ln.split()[1:] if '=' in x)
        verdicts[os.path.basename(p)] = kv
    # specification mapping of the final flushed image
    maps = {}
    for c in cases:
        p = os.path.join(d, '%s.end.img' % c['cid'])
        if os.path.exists(p):
            rc, mout = qv.sh('ulimit -s unlimited; exec %s map %s' % (os.path.join(qv.VERIF, 'driver', 'qdrv'), p), timeout=600)
            maps[c['cid']] = mout.strip()
    return d, obs, verdicts, maps


def judge(case, lines, verdicts, spec_map):
    """walk one case's observation lines against its plan; returns list of findings
    (projection, op index, description)"""
    finds = []
    plan = case['plan']
    res = [l for l in lines if l.startswith('res ')]
    opens = [l for l in lines if l.startswith('open ')]
    aborts = [l for l in lines if l.startswith('abort ')]
    if aborts:
        finds.append(('panic', 0, 'the process aborted (signal %s): a panic that cannot unwind (e.g. a failed unsafe precondition check) inside an operation of this history' % aborts[0].split()[1]))
    hangs = [l for l in lines if l.startswith('hang ')]
    if hangs:
        finds.append(('hang', int(hangs[0].split()[-1]), 'operation %s never returns (watchdog)' % hangs[0].split()[-1]))
    image = [l for l in lines if l.startswith('image ')]
    if image and not image[0].startswith('image ok'):
        finds.append(('setup', -1, image[0]))
        return finds
    if opens and not opens[0].startswith('open ok'):
        finds.append(('open', -1, opens[0]))
        return finds
    # align: plan entries of kind O consume an `open` line, the rest consume a `res` line
    ri = 0
    oi = 1
    sweep_before, sweep_after = [], []
    map_before = map_after = None
    after_o = False     # reads that follow a flush + reopen with no write in between belong to C02 as well
    for pi, p in enumerate(plan):
        if p['k'] in ('W', 'D'):
            after_o = False
        if p['k'] == 'O':
            after_o = 'reopen_params' not in p
            if oi >= len(opens):
                finds.append(('api', pi, 'missing open result'))
                break
            if not opens[oi].startswith('open ok'):
                finds.append(('reopen', pi, opens[oi]))
                return finds
            oi += 1
            continue
        if ri >= len(res):
            if not hangs:
                finds.append(('api', pi, 'missing result'))
            break
        r = res[ri].split()
        ri += 1
        body = r[2:]
        if not body or body[0] in ('panic', 'skipped', 'deadlock', 'budget'):
            if hangs and body and body[0] == 'skipped':
                return finds
            finds.append(('api', pi, '%s -> %s' % (hist.op_line(p['op']), ' '.join(body))))
            if body and body[0] in ('panic', 'deadlock', 'budget'):
                return finds
            continue
        if p['k'] == 'R':
            if body[0] != 'ok':
                finds.append(('read', pi, '%s -> %s' % (hist.op_line(p['op']), ' '.join(body[:3]))))
                continue
            n = int(body[1])
            vals = body[2:]
            exp = p['expect']
            if n != p['op'][2]:
                finds.append(('read', pi, '%s returned %d bytes' % (hist.op_line(p['op']), n)))
            bad = [i for i, (a, b) in enumerate(zip(vals, exp)) if a != b]
            if bad:
                i = bad[0]
                finds.append(('read', pi, '%s block %d (guest block %d): got %s want %s (%d blocks differ)%s' % (
                    hist.op_line(p['op']), i, p['op'][1] // 512 + i, vals[i], exp[i], len(bad),
                    ' [sweep %s]' % p['sweep'] if 'sweep' in p else '')))
                if after_o and 'sweep' not in p:
                    finds.append(('reopen', pi, 'right after flush_meta + reopen: %s block %d reads %s, the device before the reopen held %s' % (
                        hist.op_line(p['op']), p['op'][1] // 512 + i, vals[i], exp[i])))
            if p.get('sweep') == 'before':
                sweep_before.extend(vals)
            elif p.get('sweep') == 'after':
                sweep_after.extend(vals)
        elif p['k'] == 'M':
            if p.get('after'):
                map_after = ' '.join(body[1:])
            else:
                map_before = ' '.join(body[1:])
        elif p['k'] == 'N':
            if body[0] == 'ok' and body[1] != '0' and p.get('after_flush'):
                finds.append(('flag', pi, 'need_flush_meta() is true right after a successful flush_meta'))
            dirty = [int(x) for tkx in body[2:] if tkx.startswith('dirty=') for x in tkx[6:].split(',')]
            prev_ok = ri >= 2 and res[ri - 2].split()[2:3] == ['ok']
            if body[0] == 'ok' and p.get('after_flush') and prev_ok and any(dirty):
                finds.append(('flag', pi, 'right after a successful flush_meta metadata is still dirty in ram (dirty L2 slices, refblock slices, L1 blocks, reftable blocks = %s)' % dirty))
            elif body[0] == 'ok' and body[1] == '0' and any(dirty):
                finds.append(('flag', pi, 'need_flush_meta() is false while metadata is dirty in ram (%s)' % dirty))
        else:
            if body[0] != 'ok':
                finds.append(('api', pi, '%s -> %s' % (hist.op_line(p['op']), ' '.join(body[:3]))))
    if sweep_before and sweep_after and sweep_before[:len(sweep_after)] != sweep_after[:len(sweep_before)]:
        bad = [i for i, (a, b) in enumerate(zip(sweep_before, sweep_after)) if a != b]
        finds.append(('reopen', -1, 'guest block %d reads %s before flush+reopen and %s after (%d blocks differ)' % (
            bad[0], sweep_before[bad[0]], sweep_after[bad[0]], len(bad))))
    for s in case['snaps']:
        v = verdicts.get('%s.%s.img' % (case['cid'], s))
        if v is None:
            continue
        if v.get('supported') != '1' or v.get(case.get('valid_key', 'valid')) != '1':
            finds.append(('valid', -1, 'snapshot %s: %s' % (s, ' '.join('%s=%s' % kv for kv in sorted(v.items()) if kv[0] in ('supported', 'valid', 'safe', 'tables_strict', 'tables', 'leaked', 'under', 'over', 'error')))))
    if map_before is not None and spec_map is not None:
        a, b = hist.parse_map(map_before), hist.parse_map(spec_map)
        if a != b:
            ks = sorted(set(a) | set(b))
            d = [k for k in ks if a.get(k) != b.get(k)]
            finds.append(('map', -1, 'get_mapping vs specification reader on the flushed file differ at guest cluster %d: %s vs %s' % (d[0], a.get(d[0]), b.get(d[0]))))
        # single owner: distinct data clusters
        offs = [v[1] for v in a.values() if v[0] == 'D']
        if len(offs) != len(set(offs)):
            finds.append(('owner', -1, 'two guest clusters map to one host cluster'))
    if map_before is not None and map_after is not None and map_before != map_after:
        finds.append(('reopen', -1, 'get_mapping differs after flush+reopen'))
    return finds


def gen_cases(rng, n, nops, prefix, cbs=None, mix=None):
    cases = []
    for i in range(n):
        g = hist.rand_geom(rng, cbs=cbs)
        ops = hist.gen_ops(rng, g, rng.randrange(3, nops + 1), mix=mix)
        if i % 8 == 5:
            # two regions whose L1 entries live in different 512-byte blocks of the L1 table: a flushed L2 table gets
            # another mapping (dirty slice, clean L1 block) while a new L2 table is created far away (dirty L1 block);
            # then exactly one flush_meta before the reopen
            cb = rng.choice([9, 9, 10])
            cs = 1 << cb
            per_l1 = (cs // 8) * cs                # guest bytes per L1 entry
            far = per_l1 * 64 * rng.choice([1, 2, 3]) + rng.randrange(0, 8) * cs
            g = hist.Geom(cb, rng.choice([2, 4, 6]), far + 64 * cs, 9, (9, rng.choice([2, 8]) << 9), (9, rng.choice([2, 8]) << 9), punch=1)
            near = rng.randrange(0, 8) * cs
            near2 = near + (1 + rng.randrange(0, 8)) * cs
            ops = [('W', near, cs, 1), ('F',), ('W', near2, rng.choice([512, cs]), 2), ('W', far, rng.choice([512, cs]), 3)]
            if rng.random() < 0.5:
                ops.insert(2, ('W', far + 9 * cs, 512, 4))
            # one flush, reopen at once (no sweep in between that would evict and write back), read the regions
            ops += [('F',), ('O', g.params()), ('R', near2, cs), ('R', far, cs), ('R', near, cs)]
        cid = '%s%d' % (prefix, i)
        text, plan, snaps, flat = build_case(cid, g, ops, rng)
        cases.append({'cid': cid, 'g': g, 'ops': ops, 'text': text, 'plan': plan, 'snaps': snaps})
    return cases
