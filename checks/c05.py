"""C05 synced data survives any later crash: see c04.py."""
import c04


def run(tier, seed, replay):
    return c04.run_prop('C05', tier, seed, replay)
