"""C06 concurrent operations are linearizable per block (necessary-condition checker on the real
library under the deterministic scheduler): see conc.py."""
import os, json, shutil, collections
import qv, hist, seqrun, common, conc

def clusters_of(op, g):
    cs = g.cs
    if op[0] in ('W', 'R'):
        return set(range(op[1] // cs, (op[1] + max(op[2], 1) - 1) // cs + 1))
    if op[0] == 'D':
        return set(range(op[1] // cs, (op[1] + max(op[2], 1) - 1) // cs + 1))
    return set()


def discard_race(c, upto, desc=''):
    """known class F30: some batch up to `upto` runs a discard concurrently with a write or discard of a cluster the
    discard covers (then any cluster can receive the late data), or concurrently with a read of such a cluster and
    the finding is about that cluster (only the read can see foreign data)"""
    import re
    m = re.search(r'guest block (\d+)', desc)
    fblk = int(m.group(1)) if m else None
    cs = c['g'].cs
    for b in c['batches'][:upto + 1]:
        ds = [o for o in b['ops'] if o[0] == 'D']
        for dop in ds:
            dc = clusters_of(dop, c['g'])
            for o in b['ops']:
                if o is dop or o[0] not in ('W', 'R', 'D'):
                    continue
                common_ = clusters_of(o, c['g']) & dc
                if not common_:
                    continue
                if o[0] in ('W', 'D'):
                    return True
                if fblk is None or (fblk * 512) // cs in common_:
                    return True
    return False


def cache_pressure(c, upto):
    """known class F21: a batch up to `upto` needs more distinct L2 slices (or the image more
    refcount-block slices) than the cache holds, so a slice in use gets evicted"""
    g = c['g']
    l2_slots = g.l2[1] >> g.l2[0]
    rb_slots = g.rb[1] >> g.rb[0]
    l2_per_slice = (1 << g.l2[0]) // 8
    rb_per_slice = ((1 << g.rb[0]) * 8) >> g.ro
    host_upper = g.size // g.cs + 24
    if not c.get('images'):
        # library-formatted image: the host clusters in use are at most the initial metadata, one L2 table per L1 entry
        # and one cluster per guest cluster written so far
        written = set()
        for b in c['batches'][:upto + 1]:
            for o in list(b.get('prelude', [])) + list(b['ops']):
                if o[0] == 'W':
                    written |= clusters_of(o, g)
        host_upper = min(host_upper, 10 + (g.size // g.cs) // (g.cs // 8) + 1 + len(written))
    if (host_upper + rb_per_slice - 1) // rb_per_slice > rb_slots:
        return True
    for b in c['batches'][:upto + 1]:
        keys = set()
        for o in b['ops']:
            for cl in clusters_of(o, g):
                keys.add(cl // l2_per_slice)
        if len(keys) > l2_slots or (len(keys) == l2_slots and any(o[0] in ('F', 'K') for o in b['ops'])):
            return True
    return False


PROJ = {'C06': ('lin', 'final', 'reopen'), 'C07': ('progress', 'spurious-err'), 'C18': ('flag',), 'C03': ('valid',)}


def run_conc(prop, tier, seed, replay, extra=None, gate0=None):
    t = qv.Timer()
    rng = qv.Rng(seed)
    gate = {'ok': True, 'obligations': 0, 'discharged': 0, 'failed': None, 'axioms': [], 'checker_cmd': '', 'gen': {}}
    if gate0 is not None:
        gate = gate0
    if prop == 'C18':
        gate = common.proof_gate('C18', ['Model/Flush.v', 'Proofs/FlushProps.v', 'Props/C18.v'])
    if prop == 'C06':
        gate = common.proof_gate('C06', ['Model/Cache.v', 'Proofs/CacheProps.v', 'Props/C06.v'])
    rc, out = qv.harness_build()
    if rc != 0:
        print(out[-3000:])
        return 2
    cache_finds, cache_steps = [], 0
    if prop == 'C06':
        import cachesim
        cache_finds, cache_steps = cachesim.run(rng, 200 if tier == 'quick' else 3000)
    n = 600 if tier == 'quick' else 6000
    d = qv.workdir(prop.lower())
    cases = []
    for k in range(n):
        cb = rng.choice([9, 9, 9, 10, 10, 11])
        ro = rng.choice([0, 2, 4, 4, 6])
        nclus = rng.choice([8, 16, 40, 130])
        bs, l2, rb = 9, (9, rng.choice([2, 2, 3, 8]) << 9), (9, rng.choice([2, 2, 3, 8]) << 9)
        if rng.random() < 0.06:
            # few clusters per refblock slice and the smallest refblock cache: allocation evicts refblock slices
            cb, ro, nclus, rb = 9, 6, rng.choice([160, 200]), (9, 2 << 9)
        g = hist.Geom(cb, ro, nclus << cb, bs, l2, rb, punch=rng.choice([1, 1, 0]))
        if rng.random() < 0.08:
            # L2 slices smaller than a cluster, and a host file whose tail (where new clusters land) holds stale bytes
            cbx = rng.choice([10, 11])
            g = hist.Geom(cbx, rng.choice([4, 6]), rng.choice([140, 200]) << cbx, 9, (9, rng.choice([2, 3, 8]) << 9), rb, punch=rng.choice([1, 1, 0]))
            g.tail = (rng.choice([24, 64]) << cbx, rng.choice([0xEE, 0x80, 0x01]))
        if rng.random() < 0.07:
            # many L2 slices (one per 64 clusters) and the smallest L2 cache: concurrent writes spread over more slices
            # than the cache holds
            g = hist.Geom(9, rng.choice([4, 6]), (64 * rng.choice([6, 8, 12])) << 9, 9, (9, rng.choice([2, 2, 3]) << 9), rb, punch=rng.choice([1, 1, 0]))
        cid = '%s_%d' % (prop.lower(), k)
        init = None
        images = None
        alloc0 = None
        if rng.random() < 0.3:
            # independently built image: COW over backing-provided / compressed clusters under the scheduler
            import foreign
            top = foreign.rand_desc(rng, with_backing=rng.random() < 0.7, allow_v2=False, cbs=[9, 9, 10], nclusters=rng.choice([8, 20, 40]))
            descs = [top]
            if top.backing_file:
                descs.append(foreign.backing_desc(rng, top))
            try:
                images, _ = foreign.write_images(d, cid, descs)
                fl0 = foreign.Truth(descs).flat()
                init = fl0.blk
                alloc0 = sorted(x for x in fl0.alloc if (x + 1) * (1 << top.cluster_bits) <= top.size)
                g = hist.Geom(top.cluster_bits, top.refcount_order, top.size, 9, l2, rb, punch=g.punch)
            except ValueError:
                images = None
        text, batches, fsw = conc.build_case(cid, g, rng, rng.choice([1, 2, 3]), images=images, faults_p=(0.25 if prop == 'C18' else 0.0),
                                             alloc=(alloc0 if images else None))
        cases.append({'cid': cid, 'g': g, 'text': text, 'batches': batches, 'fsw': fsw, 'init': init, 'images': images})
    if prop == 'C18':
        # many tiny cases of one shape: right after open, a discard (its refcount update has to load the refblock slice)
        # next to exactly one flush_meta, over a spread of start delays and completion orders
        import foreign
        pool = []
        for i in range(8):
            top = foreign.rand_desc(rng, with_backing=False, allow_v2=False, cbs=[9, 9, 10], nclusters=rng.choice([8, 20, 40]))
            try:
                imgs, _ = foreign.write_images(d, '%s_o%d' % (prop.lower(), i), [top])
            except ValueError:
                continue
            fl0 = foreign.Truth([top]).flat()
            al = sorted(x for x in fl0.alloc if (x + 1) * (1 << top.cluster_bits) <= top.size)
            if al:
                pool.append((top, imgs, fl0, al))
        for j in range(400 if tier == 'quick' else 3000):
            if not pool:
                break
            top, imgs, fl0, al = pool[j % len(pool)]
            g = hist.Geom(top.cluster_bits, top.refcount_order, top.size, 9, (9, 2 << 9), (9, 2 << 9), punch=rng.choice([1, 0]))
            cid = '%s_o%d_%d' % (prop.lower(), j % len(pool), j)
            text, batches, fsw = conc.build_case(cid, g, rng, 1, images=imgs, alloc=al, open_only=True)
            cases.append({'cid': cid, 'g': g, 'text': text, 'batches': batches, 'fsw': fsw, 'init': fl0.blk, 'images': imgs})
    seqflag = []
    if prop == 'C18':
        # sequential: an operation that fails half way (a discard across two L2 slices whose second slice load fails,
        # a multi-cluster write whose later part fails) must leave the flag set if it dirtied anything
        for j in range(40 if tier == 'quick' else 400):
            cbx = rng.choice([9, 10])
            gq = hist.Geom(cbx, rng.choice([4, 6]), 200 << cbx, 9, (9, 2 << 9), (9, 2 << 9), punch=rng.choice([1, 0]))
            csq = gq.cs
            sl = rng.choice([1, 2])
            a1, a2 = sl * 64 - rng.randrange(1, 4), sl * 64 + rng.randrange(0, 4)
            cid = '%s_q%d' % (prop.lower(), j)
            kind = rng.choice(['R', 'R', 'W', 'Z'])
            lines = ['W %d %d 1' % (a1 * csq, csq), 'W %d %d 2' % (a2 * csq, csq), 'F', 'K',
                     'fault %s 0 %d %d' % (kind, 1 << 40, rng.randrange(0, 4)),
                     rng.choice(['D %d %d' % (a1 * csq, (a2 - a1 + 1) * csq), 'D %d %d' % (a1 * csq, (a2 - a1 + 1) * csq),
                                 'W %d %d 3' % ((a1 - 1) * csq, (a2 - a1 + 3) * csq)]),
                     'faults clear', 'N']
            seqflag.append((cid, hist.case_text(cid, gq, lines), gq))
    obs = seqrun.run_cases_text(d, [(c['cid'], c['text']) for c in cases] + [(cid, t_) for cid, t_, _ in seqflag], timeout=1200)
    finds = []
    stats = collections.Counter()
    nsched = 0
    for cid, t_, gq in seqflag:
        ln = [l for l in obs.get(cid, []) if 'dirty=' in l]
        stats['sequential_failed_op_cases'] += 1
        if ln:
            tk = ln[-1].split()
            dirty = tuple(int(x) for x in tk[-1].split('=')[1].split(','))
            if tk[3] == '0' and any(dirty):
                finds.append(('flag', {'cid': cid, 'g': gq, 'text': t_, 'batches': [{'ops': [], 'seed': 0, 'mode': 0}], 'fsw': [], 'init': None, 'images': None},
                              'need_flush_meta() returned false after an operation that failed half way although dirty metadata is cached (dirty L2 slices, refblock slices, L1 blocks, reftable blocks = %s)' % (dirty,), 0, ''))
    # C18: the flag sampled at quiescent points
    snaps = []
    for c in cases:
        ls = obs.get(c['cid'], [])
        fs = conc.judge(c['g'], c['batches'], c['fsw'], ls, init=c.get('init'))
        for b in c['batches']:
            nsched += 1
            stats['batch_ops_%d' % len(b['ops'])] += 1
            stats['mode_%d' % b['mode']] += 1
            for o in b['ops']:
                stats['op_' + o[0]] += 1
        for f in fs:
            finds.append((f[0], c, f[1], f[2], f[3]))
        if prop == 'C18':
            for bi, b in enumerate(c['batches']):
                if b.get('need_flush') == '0' and b.get('dirty') and any(b['dirty']):
                    # seen through the hook Qcow2Dev::verif_dirty_counts: the flag is false while metadata is dirty in ram
                    finds.append(('flag', c, 'need_flush_meta() returned false after batch %d although dirty metadata is cached (dirty L2 slices, refblock slices, L1 blocks, reftable blocks = %s)' % (bi, b['dirty']), bi, ''))
                if b.get('need_flush') == '0':
                    p = os.path.join(d, '%s.q%d.img' % (c['cid'], bi))
                    if os.path.exists(p):
                        snaps.append((c, bi, p))
    if prop == 'C03':
        # the file after the closing flush_meta of every concurrent case must be valid under the extracted checker
        ends = [(c, os.path.join(d, '%s.end.img' % c['cid'])) for c in cases]
        ends = [(c, p) for c, p in ends if os.path.exists(p)]
        vd = qv.qdrv_check([p for _, p in ends], d)
        for c, p in ends:
            stats['flushed_files_checked'] += 1
            v = vd.get(p, {})
            if v.get('valid') != '1':
                finds.append(('valid', c, 'after the concurrent batches and a successful flush_meta the file is not valid: leaked=%s under=%s over=%s tables=%s' % (
                    v.get('leaked'), v.get('under'), v.get('over'), v.get('tables_strict')), len(c['batches']), ''))
    if prop == 'C18' and snaps:
        # need_flush_meta() == false: the file alone must give the same content and be valid
        texts = []
        for (c, bi, p) in snaps:
            ccid = '%s_r%d' % (c['cid'], bi)
            lines = ['case ' + ccid, 'image file ' + p] + ['image file ' + b for b in (c.get('images') or [])[1:]] + ['open ' + c['g'].params(ro=1)]
            for (off, ln) in c['batches'][bi]['sweep']:
                lines.append('R %d %d' % (off, ln))
            lines.append('end')
            texts.append((ccid, '\n'.join(lines) + '\n'))
        obs2 = seqrun.run_cases_text(d, texts, timeout=900)
        lst = os.path.join(d, 'l.txt')
        open(lst, 'w').write('\n'.join(p for _, _, p in snaps) + '\n')
        rc, dout = qv.sh('ulimit -s unlimited; exec %s check %s' % (os.path.join(qv.VERIF, 'driver', 'qdrv'), lst), timeout=1500)
        vd = {ln.split()[0]: ln for ln in dout.split('\n') if ln.strip()}
        for (c, bi, p), (ccid, _) in zip(snaps, texts):
            stats['flag_false_points'] += 1
            vals = []
            for l in obs2.get(ccid, []):
                tk = l.split()
                if tk[0] == 'res' and tk[2] == 'ok':
                    vals.extend(tk[4:])
            want = c['batches'][bi].get('sweepvals', [])
            diff = [i for i, (a, b_) in enumerate(zip(want, vals)) if a != b_]
            if diff or len(vals) != len(want):
                finds.append(('flag', c, 'need_flush_meta() returned false after batch %d, but a device opened on the file at that moment reads %s for guest block %d where the live device reads %s' % (
                    bi, vals[diff[0]] if diff else '(open/read failed)', diff[0] if diff else -1, want[diff[0]] if diff else '-'), bi, ''))
            elif any(b.get('faulty') for b in c['batches'][:bi + 1]) and ' safe=1 ' in vd.get(p, ''):
                pass    # after an injected backend failure leaked clusters are the permitted residue (C17)
            elif ' valid=1 ' not in vd.get(p, ''):
                finds.append(('flag', c, 'need_flush_meta() returned false after batch %d, but the file is not a valid image: %s' % (bi, vd.get(p, '')[len(p):][:160]), bi, ''))
    cache_violations = []
    for (si, st, desc, script) in cache_finds[:3]:
        pth = qv.write_replay(prop, 'cache_%d.json' % si, json.dumps({'class': 'cache-model', 'what': desc, 'script(limit op:key ...)': script}))
        cache_violations.append({'replay': pth})
        print('  finding [cache model vs src/cache.rs]: %s' % desc[:400])
    mine = [f for f in finds if f[0] in PROJ[prop]]
    other = collections.Counter(f[0] for f in finds if f[0] not in PROJ[prop])
    violations, known = list(cache_violations), []
    kfs = [f for f in qv.known_findings().get('findings', []) if f.get('property') == prop]
    seen = collections.Counter()
    for (cls, c, desc, bi, sched) in mine:
        kf = []
        for f in kfs:
            pred = f.get('match', {}).get('predicate')
            if pred == 'discard_race' and discard_race(c, bi if bi >= 0 else len(c['batches']), desc):
                kf.append(f)
            elif pred == 'cache_pressure' and cache_pressure(c, bi if bi >= 0 else len(c['batches'])):
                kf.append(f)
        if kf:
            if not any(x.startswith(kf[0]['id'] + ' ') for x in known):
                known.append('%s %s (e.g. %s)' % (kf[0]['id'], kf[0]['what'], desc[:260]))
            continue
        seen[cls] += 1
        if len(violations) >= 5:
            continue
        # replay: the same case with the recorded schedule in place of the PRNG
        path = qv.write_replay(prop, c['cid'] + '.json', json.dumps({'class': cls, 'what': desc, 'geometry': c['g'].desc(), 'batch': bi,
                                                                   'schedule': sched, 'case_text': c['text']}))
        violations.append({'replay': path})
        print('  finding [%s] %s [%s]: %s' % (cls, c['cid'], c['g'].desc(), desc[:460]))
    shutil.rmtree(d, ignore_errors=True)
    cov = {'evaluations': nsched, 'distinct_nontrivial': len(set((tuple(map(tuple, b['ops'])), b['seed'], b['mode']) for c in cases for b in c['batches'] if len(b['ops']) >= 2)), 'nontrivial_rule': 'distinct (batch of >= 2 operations, scheduler seed, bias mode)',
           'rule': 'batches of 2-6 operations (write/read/discard/flush_meta/shrink_caches) started together on disjoint clusters, on sub-ranges of one cluster, on overlapping ranges; caches of 2-8 slices; the scheduler picks every poll and every request completion from a PRNG with four bias modes (uniform, run-first, complete-first, LIFO completion); one schedule per batch; non-trivial = batch with at least two operations',
           'samples': [{'geometry': c['g'].desc(), 'batch': [hist.op_line(o) for o in c['batches'][0]['ops']], 'mode': c['batches'][0]['mode']} for c in cases[:3]],
           'states': nsched, 'transitions': nsched, 'distribution': dict(stats), 'findings_left_to_other_properties': dict(other), 'findings_by_class': dict(seen)}
    cov.update(extra or {})
    if prop == 'C06':
        cov['cache_model_steps_compared'] = cache_steps
    return common.finish(prop, tier, seed, 'exploration', gate, cov, t, violations, known,
                         ['schedules are sampled, not enumerated; the linearizability checker applies necessary conditions only (every alarm is a real violation, silence is not a proof)',
                          'the backend completes every request the scheduler chooses; lock fairness as implemented by futures_locks'],
                         'Deterministic-scheduler exploration of the real library; per-block register conditions, final state, flush+reopen.')


def run(tier, seed, replay):
    return run_conc('C06', tier, seed, replay)
