"""C12 metadata growth (refcount blocks, refcount table, L1) is correct and crash-safe.
Histories that force the host file past the capacity of the existing refcount structures, on geometries where
that is cheap (512-byte / 1 KiB clusters, 64-bit or 16-bit refcounts: one refcount block covers 64..512 host
clusters, the one-cluster refcount table 64*64 .. clusters), on images whose header lists fewer L1 entries than
the virtual size needs (independent builder, l1_minimal), and on host files that already extend beyond the
image (preallocated file / block device: zero or stale tail).
  part A  every call returns Ok; FlatDisk oracle on reads and on the closing sweep; the flushed file is valid
          under the extracted specification checker; reopen with other parameters reads the same.
  part B  crash-state exploration (crash.py) restricted to the requests around the growth: every crash image
          must be safe (C04's judgement) - see run_crash."""
import os, json, shutil, collections
import qv, hist, seqrun, common, foreign, qimg, crash


def growth_case(rng, d, cid, tier):
    kind = rng.choice(['refblock', 'refblock', 'reftable', 'l1', 'tail'])
    images = None
    flat = None
    tail = None
    if kind == 'l1':
        cb = rng.choice([9, 10])
        cs = 1 << cb
        l2e = cs // 8
        nl1 = rng.choice([3, 8, 70 if cb == 9 else 20])
        n = l2e * nl1
        clusters = {}
        for gc in rng.sample(range(0, l2e), 5):
            clusters[gc] = ('data', foreign.cluster_bytes(rng, cs, 'blocks'))
        desc = qimg.ImageDesc(version=3, cluster_bits=cb, refcount_order=rng.choice([4, 4, 6]), size=n * cs, clusters=clusters, l1_minimal=True)
        try:
            paths, _ = foreign.write_images(d, cid, [desc])
        except ValueError:
            return None
        images = paths
        flat = foreign.Truth([desc]).flat()
        g = hist.Geom(cb, desc.refcount_order, desc.size, 9, (9, 4 << 9), (9, 4 << 9), punch=1)
        ops = []
        tag = 1
        for _ in range(rng.randrange(3, 12)):
            gc = rng.randrange(0, n)
            k = min(rng.choice([1, 1, 2, 5]), n - gc)
            ops.append(('W', gc * cs, k * cs, tag))
            tag += 1
            if rng.random() < 0.2:
                ops.append(('F',))
            if rng.random() < 0.3:
                ops.append(('R', gc * cs, k * cs))
        ops.append(('F',))
        if nl1 * 8 > cs:
            # the grown L1 table needs more clusters than the table of the image occupies (known finding F31)
            kind = 'l1x'
        return {'kind': kind, 'g': g, 'ops': ops, 'images': images, 'flat': flat, 'tail': None}
    if kind == 'reftable':
        # an image made by someone else: its refcount table is only as large as its current host file needs
        cb, ro = 9, 6
        cs = 512
        rbe, rte = (cs * 8) >> ro, cs // 8
        n = rbe * rte + rng.choice([40, 300])
        clusters = {gc: ('data', foreign.cluster_bytes(rng, cs, 'blocks')) for gc in rng.sample(range(0, 64), 5)}
        desc = qimg.ImageDesc(version=3, cluster_bits=cb, refcount_order=ro, size=n * cs, clusters=clusters,
                              shuffle_seed=rng.randrange(1, 1 << 20) if rng.random() < 0.5 else None)
        try:
            paths, _ = foreign.write_images(d, cid, [desc])
        except ValueError:
            return None
        g = hist.Geom(cb, ro, desc.size, 9, (9, 4 << 9), (9, rng.choice([2, 8]) << 9), punch=1)
        ops = []
        tag = 1
        c = 64
        while c < n:
            k = min(rng.choice([16, 64, 64, 200]), n - c)
            ops.append(('W', c * cs, k * cs, tag))
            tag += 1
            c += k
            if rng.random() < 0.05:
                ops.append(('F',))
        ops.append(('F',))
        return {'kind': kind, 'g': g, 'ops': ops, 'images': paths, 'flat': foreign.Truth([desc]).flat(), 'tail': None}
    cb = rng.choice([9, 9, 10])
    ro = rng.choice([6, 6, 5, 4])
    cs = 1 << cb
    rbe = (cs * 8) >> ro                    # host clusters covered by one refcount block
    rte = cs // 8                           # entries of a one-cluster refcount table
    if kind == 'reftable':
        if cb != 9 and tier == 'quick':
            cb, cs = 9, 512
            rbe, rte = (cs * 8) >> ro, cs // 8
        n = rbe * rte + rng.choice([40, 300])
    else:
        n = rbe * rng.choice([2, 3, 5]) + rng.randrange(0, rbe)
    if kind == 'tail':
        tail = (rng.choice([1, 3, 40, 200]) * cs * rng.choice([1, 7]), rng.choice([0, 0xA5]))
    g = hist.Geom(cb, ro, n * cs, 9, (9, rng.choice([2, 4, 8]) << 9), (9, rng.choice([2, 4, 8]) << 9), punch=rng.choice([1, 1, 0]))
    ops = []
    tag = 1
    c = 0
    while c < n:
        k = min(rng.choice([16, 64, 64, 200]) if kind == 'reftable' else rng.choice([1, 3, 8, 30]), n - c)
        if rng.random() < 0.93:
            ops.append(('W', c * cs, k * cs, tag))
            tag += 1
        c += k
        if rng.random() < 0.05:
            ops.append(('F',))
        if rng.random() < 0.05:
            a = rng.randrange(0, c)
            ops.append(('D', a * cs, rng.choice([1, 2, 9]) * cs))
        if rng.random() < 0.05:
            a = rng.randrange(0, c)
            ops.append(('R', a * cs, min(4, n - a) * cs))
    ops.append(('F',))
    return {'kind': kind, 'g': g, 'ops': ops, 'images': None, 'flat': None, 'tail': tail}


def gen_growth_sim(rng, d, cid):
    """growth histories small enough for the device model (<= 300 clusters): the model follows the library through
    refcount-block and L1 growth (absorbed as `grow` steps of Model/Dev.v, theorems in Props/C12.v)"""
    for _ in range(20):
        gc = growth_case(rng, d, cid, 'quick')
        if gc is None or gc['kind'] not in ('refblock', 'l1') or gc['tail']:
            continue
        if gc['g'].size >> gc['g'].cb > 280:
            continue
        return gc['g'], gc['ops'], gc['images'], False, False
    g = hist.Geom(9, 6, 150 << 9, 9, (9, 4 << 9), (9, 4 << 9), punch=1)
    ops = [('W', c * 512, 512 * 3, c + 1) for c in range(0, 147, 3)] + [('F',)]
    return g, ops, None, False, False


def run(tier, seed, replay):
    t = qv.Timer()
    rng = qv.Rng(seed)
    gate = common.proof_gate('C12', ['Model/Dev.v', 'Proofs/DevProps.v', 'Props/C12.v'])
    rc, out = qv.harness_build()
    if rc != 0:
        print(out[-3000:])
        return 2
    d0 = qv.workdir('c12img')
    n = 24 if tier == 'quick' else 300
    cases = []
    kinds = collections.Counter()
    for k in range(n):
        cid = 'c12_%d' % k
        gc = growth_case(rng, d0, cid, tier)
        if gc is None:
            continue
        kinds[gc['kind']] += 1
        text, plan, snaps, _ = seqrun.build_case(cid, gc['g'], gc['ops'], rng, flat=gc['flat'], images=gc['images'])
        if gc['tail']:
            text = text.replace('opt punch=', 'opt tail=%d:%d punch=' % gc['tail'], 1)
        cases.append({'cid': cid, 'g': gc['g'], 'ops': gc['ops'], 'text': text, 'plan': plan, 'snaps': snaps, 'descs': None, 'paths': gc['images'] or [],
                      'kind': gc['kind'], 'tail': gc['tail'],
                      # until the library has extended it, the header of an 'l1' image lists too few L1 entries (what QEMU and
                      # validb refuse): those snapshots are judged without that conjunct
                      'valid_key': 'valid_sl1' if gc['kind'].startswith('l1') else 'valid'})
    d, obs, ver, maps = seqrun.run_batch('c12', cases)
    finds = []
    for c in cases:
        fs = seqrun.judge(c, obs.get(c['cid'], []), ver, None)
        if fs:
            f = fs[0]
            finds.append((f[0], c, f[2]))
    # part B: crash states inside the growth sequences (C04's judgement: discipline theorem + sampled crash images)
    cstats = collections.Counter()
    dcr = qv.workdir('c12cr')
    ccases = []
    for k in range(10 if tier == 'quick' else 40):
        cid = 'c12c_%d' % k
        gc = None
        if k % 10 == 0:
            # the new refcount block gets the LAST entry of a refcount-table block (index 63 with 512-byte blocks): an
            # image whose first 63 refcount blocks are full (leaked clusters, no data) makes the next allocation need it
            try:
                cs9 = 512
                cl = {g0: ('data', foreign.cluster_bytes(rng, cs9, 'blocks')) for g0 in rng.sample(range(0, 40), 4)}
                desc = qimg.ImageDesc(version=3, cluster_bits=9, refcount_order=6, size=200 * cs9, clusters=cl)
                desc.leak_to = 63 * 64 - rng.choice([0, 1, 3])
                pths, _ = foreign.write_images(dcr, cid, [desc])
                g = hist.Geom(9, 6, desc.size, 9, (9, 2 << 9), (9, rng.choice([2, 8]) << 9), punch=1)
                ops, tag = [], 1
                for _ in range(rng.randrange(3, 7)):
                    ops.append(('W', rng.randrange(50, 190) * cs9, rng.choice([1, 2, 5]) * cs9, tag))
                    tag += 1
                    if rng.random() < 0.6:
                        ops.append(('F',))
                ops.append(('F',))
                lines = [hist.op_line(o) for o in ops] + ['L lg']
                text = 'case %s\nimage file %s\nopt punch=1\nX init\nopen %s\n%s\nend\n' % (cid, pths[0], g.params(), '\n'.join(lines))
                ccases.append({'cid': cid, 'g': g, 'ops': ops, 'text': text, 'kind': 'rtend-crash', 'tail': None})
                continue
            except ValueError:
                pass
        for _ in range(20):
            gc = growth_case(rng, dcr, cid, tier)
            if gc is not None and gc['kind'] in ('refblock', 'l1', 'tail') and gc['g'].size >> gc['g'].cb <= 400 and (not gc['tail'] or gc['tail'][0] <= 64 * gc['g'].cs):
                break
            gc = None
        if gc is None:
            continue
        g = gc['g']
        lines = [hist.op_line(o) for o in gc['ops'] if o[0] != 'R'] + ['L lg']
        opt = 'opt %spunch=%d' % (('tail=%d:%d ' % gc['tail']) if gc['tail'] else '', g.punch)
        img = '\n'.join('image file ' + p for p in gc['images']) if gc['images'] else 'image format %d %d %d 512' % (g.size, g.cb, g.ro)
        text = 'case %s\n%s\n%s\nX init\nopen %s\n%s\nend\n' % (cid, img, opt, g.params(), '\n'.join(lines))
        ccases.append({'cid': cid, 'g': g, 'ops': gc['ops'], 'text': text, 'kind': gc['kind'] + '-crash', 'tail': gc['tail']})
    cobs = seqrun.run_cases_text(dcr, [(c['cid'], c['text']) for c in ccases], timeout=900)
    for c in ccases:
        for (cls, cc, desc, data) in crash.safety_finds(c, dcr, rng, 60 if tier == 'quick' else 300, cstats, max_points=(24 if tier == 'quick' else 80),
                                                          verdict=('safe_sl1' if c['kind'].startswith('l1') else 'safe')):
            finds.append((cls, c, desc))
    # correspondence of the device model (whose growth theorems are Props/C12.v) with the library on growth histories
    import devsim
    sfinds, sstats, sd = devsim.run_sim(rng, 12 if tier == 'quick' else 120, tag='c12sim', gen=gen_growth_sim)
    for (cls, scid, sdesc, stext) in sfinds:
        finds.append(('model-' + cls, {'cid': scid, 'kind': 'model', 'tail': None, 'g': hist.Geom(9, 4, 512, 9, (9, 1024), (9, 1024)), 'text': stext}, sdesc))
    shutil.rmtree(sd, ignore_errors=True)
    violations, known = [], []
    kfs = [f for f in qv.known_findings().get('findings', []) if f.get('property') == 'C12']
    seen = collections.Counter()
    for (cls, c, desc) in finds:
        full = '%s growth%s: %s' % (c['kind'], (' (file tail %d bytes of 0x%02x)' % c['tail']) if c['tail'] else '', desc)
        kf = [f for f in kfs if f.get('match', {}).get('kind') in (None, c['kind']) and f['match'].get('desc_contains', '') in full]
        if kf:
            if not any(x.startswith(kf[0]['id'] + ' ') for x in known):
                known.append('%s %s (e.g. %s [%s])' % (kf[0]['id'], kf[0]['what'], full[:200], c['g'].desc()))
            continue
        seen[cls] += 1
        if len(violations) >= 5:
            continue
        p = qv.write_replay('C12', c['cid'] + '.json', json.dumps({'class': cls, 'what': full, 'geometry': c['g'].desc(), 'case_text': c['text']}))
        violations.append({'replay': p})
        print('  finding [%s] %s [%s]: %s' % (cls, c['cid'], c['g'].desc(), full[:360]))
    shutil.rmtree(d, ignore_errors=True)
    shutil.rmtree(d0, ignore_errors=True)
    shutil.rmtree(dcr, ignore_errors=True)
    cov = {'evaluations': len(cases), 'distinct_nontrivial': qv.distinct_nontrivial([c['text'] for c in cases]), 'nontrivial_rule': 'distinct operation scripts with at least one write',
           'rule': 'histories crossing refcount-block capacity (2-5 blocks), refcount-table capacity (one cluster of table entries), L1 capacity (header lists fewer entries than needed), and host files with a zero / stale tail; FlatDisk oracle, specification checker on every flushed snapshot, reopen sweep',
           'samples': [{'kind': c['kind'], 'geometry': c['g'].desc(), 'ops': [hist.op_line(o) for o in c['ops'][:6]]} for c in cases[:3]],
           'distribution': dict(kinds), 'model_correspondence': {k: v for k, v in sstats.items()}, 'crash_part': dict(cstats), 'findings_by_class': dict(seen)}
    return common.finish('C12', tier, seed, 'exploration', gate, cov, t, violations, known,
                         ['crash points inside the growth sequence are explored by C04/C05 machinery only for refblock growth (their histories use 512-byte clusters); table relocation is covered functionally here'],
                         'Growth histories on cheap geometries judged by the FlatDisk oracle, the extracted specification checker and reopen.')
