"""C02 flush_meta + reopen preserves every byte."""
import seqprop


def run(tier, seed, replay):
    n = 150 if tier == 'quick' else 3000
    return seqprop.run_histories('C02', tier, seed, ('reopen',), n, 30, replay=replay,
                                 explanation='After each history: sweep, flush_meta, snapshot of the file bytes, a second real device opened on the snapshot with other (block size, slice size, cache size) parameters, sweep again: both sweeps and both get_mapping dumps must agree.')
