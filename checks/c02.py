"""C02: see DESIGN.md section 3."""
import c10


def run(tier, seed, replay):
    n = 60 if tier == 'quick' else 1500
    return c10.run_foreign('C02', tier, seed, ('reopen',), n, 'Sweep, flush_meta, snapshot, reopen with other parameters, sweep: reads and get_mapping must agree.', plain_n=(90 if tier == 'quick' else 1500))
