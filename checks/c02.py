"""C02 flush_meta + reopen preserves every byte.
(1) proof gate: coq/Props/C02.v - over the functions regenerated from src/dev/cache.rs: the slice-key window that
    flush_meta_generic flushes for a dirty top-table block contains every slice under that block;
(2) exploration: sweep, flush_meta, snapshot, reopen with other parameters, sweep on sampled histories
    (library-formatted and independently built images, short histories too)."""
import c10, common

CONE = ['Base/RExpr.v', 'Base/Bits.v', 'Model/Codec.v', 'Proofs/Geometry.v', 'Proofs/GenEq.v', 'Proofs/ArgProps.v', 'Proofs/GeqMore.v', 'Model/Flush.v', 'Proofs/FlushProps.v', 'Props/C02.v']


def run(tier, seed, replay):
    n = 60 if tier == 'quick' else 600
    gate = common.proof_gate('C02', CONE)
    return c10.run_foreign('C02', tier, seed, ('reopen', 'flag'), n, 'Flush-window theorems over the regenerated key helpers (Props/C02.v) + sweep, flush_meta, snapshot, reopen with other parameters, sweep: reads and get_mapping must agree.', plain_n=(90 if tier == 'quick' else 600), gate=gate)
