"""C07 progress.  Sequential part: every call of every history returns (watchdog on each call,
self-deadlock detection by the single-task executor).  Concurrent part: see c07conc (added later)."""
import seqprop


def run(tier, seed, replay):
    n = 150 if tier == 'quick' else 3000
    return seqprop.run_histories('C07', tier, seed, ('hang',), n, 30, replay=replay,
                                 explanation='Every API call of every sequential history returns: per-call watchdog and self-deadlock detection.',
                                 assumptions=['the backend completes every request (SimFile always does)'])
