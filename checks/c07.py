"""C07 progress.  Sequential part: every call of every history returns (watchdog on each call,
self-deadlock detection by the single-task executor).  Concurrent part (c06.run_conc): batches of
operations under the deterministic scheduler must all finish (no deadlock with every backend request
completed, no step-budget overrun) and none may fail because of the others."""
import seqprop, c06


def run(tier, seed, replay):
    n = 60 if tier == 'quick' else 3000
    rc = seqprop.run_histories('C07', tier, seed, ('hang',), n, 30, replay=replay,
                               explanation='Every API call of every sequential history returns: per-call watchdog and self-deadlock detection.',
                               assumptions=['the backend completes every request (SimFile always does)'])
    if rc != 0:
        return rc
    return c06.run_conc('C07', tier, seed, replay, extra={'sequential_histories_all_returned': n})
