"""C20 CLI: convert round-trips, format is valid, check's verdict is right.  Runs the real rqcow2
binary built from /repo's working tree on scratch files; the independent checker is the extracted
Coq specification (driver/qdrv)."""
import hashlib, os, json, shutil, struct, subprocess, collections
import qv, common


def build_cli():
    with qv.Lock('cargo_repo'):
        rc, out = qv.sh('cargo build --offline --bin rqcow2', cwd=qv.REPO, timeout=1500)
    return rc, out, os.path.join(qv.REPO, 'target', 'debug', 'rqcow2')


def run_cli(binp, args, timeout=120):
    try:
        p = subprocess.run([binp] + args, stdout=subprocess.PIPE, stderr=subprocess.PIPE, timeout=timeout)
        return p.returncode, p.stdout.decode(errors='replace'), p.stderr.decode(errors='replace')
    except subprocess.TimeoutExpired:
        return 'timeout', '', ''


def qdrv_check(paths, d):
    """extracted specification checker, 16 processes; images whose refcount blocks have more than 2^18 entries are
    not judged (the extracted code walks every entry of every block: minutes per image)"""
    import struct
    small = []
    for p in paths:
        try:
            hdr = open(p, 'rb').read(104)
            cb = struct.unpack('>I', hdr[20:24])[0]
            ro = struct.unpack('>I', hdr[96:100])[0] if struct.unpack('>I', hdr[4:8])[0] >= 3 else 4
            if ((1 << cb) * 8 >> ro) <= (1 << 18):
                small.append(p)
        except Exception:
            small.append(p)
    return qv.qdrv_check(small, d)


def run(tier, seed, replay):
    t = qv.Timer()
    rng = qv.Rng(seed)
    gate = {'ok': True, 'obligations': 0, 'discharged': 0, 'failed': None, 'axioms': [], 'checker_cmd': '', 'gen': {}}
    rc, out, binp = build_cli()
    if rc != 0:
        print(out[-3000:])
        return 2
    d = qv.workdir('c20')
    finds = []
    stats = collections.Counter()
    distinct_inputs = set()
    kfs = [f for f in qv.known_findings().get('findings', []) if f.get('property') == 'C20']
    # ---------- convert round trip
    CS = 65536
    sizes = [0, 1, 511, 512, 513, 4096, CS - 1, CS, CS + 1, 3 * CS + 512, (8 << 20) - 1, 8 << 20, (8 << 20) + 513]
    if tier == 'quick':
        sizes = [0, 1, 512, 513, CS - 1, CS, CS + 1, (8 << 20) + 513]
    else:
        sizes += [rng.randrange(1, 20 << 20) for _ in range(10)] + [(16 << 20) + 1]
    for k, sz in enumerate(sizes):
        for content in (['random', 'sparse'] if tier == 'quick' else ['random', 'sparse', 'zeros']):
            if content == 'random':
                data = bytes(rng.getrandbits(8) for _ in range(min(sz, 70000))) * (sz // max(1, min(sz, 70000)) + 1)
                data = data[:sz]
            elif content == 'zeros':
                data = bytes(sz)
            else:
                b = bytearray(sz)
                for _ in range(4):
                    if sz:
                        o = rng.randrange(0, sz)
                        b[o:o + 1000] = bytes(rng.getrandbits(8) for _ in range(min(1000, sz - o)))
                data = bytes(b)
            raw = os.path.join(d, 'in%d_%s.raw' % (k, content))
            q = os.path.join(d, 'c%d_%s.qcow2' % (k, content))
            back = os.path.join(d, 'out%d_%s.raw' % (k, content))
            open(raw, 'wb').write(data)
            stats['convert'] += 1
            distinct_inputs.add(('convert', sz, hashlib.sha1(data).hexdigest()))
            r1 = run_cli(binp, ['convert', '-f', 'raw', '-O', 'qcow2', '-o', q, raw])
            if r1[0] != 0:
                finds.append(('convert-to', sz, 'raw -> qcow2 of a %d-byte %s file: exit %s %s' % (sz, content, r1[0], r1[2].strip().split('\n')[0][:160] if r1[0] != 'timeout' else 'did not terminate')))
                continue
            r2 = run_cli(binp, ['convert', '-f', 'qcow2', '-O', 'raw', '-o', back, q])
            if r2[0] != 0:
                finds.append(('convert-from', sz, 'qcow2 -> raw of a converted %d-byte %s file: exit %s %s' % (sz, content, r2[0], r2[2].strip().split('\n')[0][:160] if r2[0] != 'timeout' else 'did not terminate')))
                continue
            got = open(back, 'rb').read()
            want = data + bytes((-sz) % CS)
            if sz == 0 and got == bytes(CS):
                got = want   # an empty input may come back as one cluster of zeros
            if got != want:
                first = next((i for i in range(min(len(got), len(want))) if got[i] != want[i]), min(len(got), len(want)))
                finds.append(('convert-data', sz, 'round trip of a %d-byte %s file: output has %d bytes (want %d), first difference at byte %d' % (sz, content, len(got), len(want), first)))
            v = qdrv_check([q], d).get(q, {})
            if v.get('valid') != '1':
                finds.append(('convert-valid', sz, 'image converted from a %d-byte file is not valid: %s' % (sz, v)))
            for f in (raw, q, back):
                if os.path.exists(f):
                    os.remove(f)
    # ---------- format
    fmts = []
    for cb in ([9, 12, 14, 16] if tier == 'quick' else range(9, 22)):
        for ro in ([0, 4, 6] if tier == 'quick' else range(7)):
            for mb in ([1, 64] if tier == 'quick' else [1, 7, 64, 1024, 65536]):
                fmts.append((mb, cb, ro))
    if tier == 'quick':
        fmts.append((1, 21, 6))
    paths = []
    for (mb, cb, ro) in fmts:
        p = os.path.join(d, 'f_%d_%d_%d.qcow2' % (mb, cb, ro))
        stats['format'] += 1
        distinct_inputs.add(('format', mb, cb, ro))
        r = run_cli(binp, ['format', '-s', str(mb), '-c', str(cb), '-r', str(ro), p])
        if r[0] != 0:
            if 'too many meta clusters for single refcount block' in r[2]:
                stats['format_refused'] += 1   # documented limit of the formatter: refused, no image produced
                continue
            finds.append(('format', (mb, cb, ro), 'format -s %d -c %d -r %d: exit %s %s' % (mb, cb, ro, r[0], (r[2].strip().split('\n') or [''])[0][:200])))
            continue
        paths.append(p)
    ver = qdrv_check(paths, d)
    for p in paths:
        if p not in ver:
            stats['format_not_judged_large_refblock'] += 1
            continue
        v = ver.get(p, {})
        if v.get('valid') != '1':
            finds.append(('format-valid', os.path.basename(p), 'formatted image %s is not valid under the specification checker: %s' % (os.path.basename(p), {k: v.get(k) for k in ('supported', 'valid', 'tables', 'leaked', 'under', 'over', 'error')})))
    # ---------- check verdict: consistent images are accepted, leaks are reported
    goods_all = [p for p in paths if ver.get(p, {}).get('valid') == '1' and int(ver[p].get('cb', '99')) <= 14]
    # clusters larger than a refcount-block slice (4 KiB by default) first: check() walks the blocks slice by slice
    goods_all.sort(key=lambda p: (-min(int(ver[p].get('cb', '0')), 14), p))
    goods = goods_all[:6] + goods_all[6:][-6:]
    for p in goods:
        stats['check'] += 1
        distinct_inputs.add(('check', hashlib.sha1(open(p, 'rb').read()).hexdigest()))
        r = run_cli(binp, ['check', p])
        if r[0] != 0:
            finds.append(('check-rejects-good', os.path.basename(p), 'check fails on a consistent image %s: %s' % (os.path.basename(p), (r[2].strip().split('\n') or [''])[-1][:160])))
        # inject a leak: a non-zero refcount for an unreferenced cluster inside the first refblock
        img = bytearray(open(p, 'rb').read())
        cb = struct.unpack('>I', img[20:24])[0]
        ro = struct.unpack('>I', img[96:100])[0]
        rtoff = struct.unpack('>Q', img[48:56])[0]
        rboff = struct.unpack('>Q', img[rtoff:rtoff + 8])[0]
        entries = (1 << cb) * 8 >> ro
        for where in ('near', 'far'):
            idx = 40 if where == 'near' else entries - 3
            im2 = bytearray(img)
            need = rboff + (1 << cb)
            if len(im2) < need:
                im2.extend(bytes(need - len(im2)))
            bits = 1 << ro
            if bits >= 8:
                o = rboff + idx * bits // 8
                im2[o:o + bits // 8] = (1).to_bytes(bits // 8, 'big')
            else:
                per = 8 // bits
                o = rboff + idx // per
                im2[o] |= 1 << ((idx % per) * bits)
            lp = p + '.leak_' + where
            open(lp, 'wb').write(im2)
            v = qdrv_check([lp], d).get(lp, {})
            stats['check_leak'] += 1
            if not v.get('leaked', '0[').startswith('0['):
                r = run_cli(binp, ['check', lp])
                if r[0] == 0:
                    finds.append(('check-misses-leak', where, 'check accepts %s although cluster %d has refcount 1 and no reference (specification checker: leaked=%s)' % (os.path.basename(lp), idx, v.get('leaked'))))
            os.remove(lp)
    # ---------- consistent images made by the independent builder (all cluster kinds) must be accepted
    import foreign
    fpaths = []
    for k in range(64 if tier == 'quick' else 240):
        top = foreign.rand_desc(rng, with_backing=False, allow_v2=True, cbs=[9, 10, 12], nclusters=rng.choice([8, 20, 40]))
        if k % 4 != 0:
            # many compressed clusters packed into shared host clusters in an order that is not the guest order, in the
            # middle of a long run of used host clusters
            import qimg
            cbx = rng.choice([12, 16])
            csx = 1 << cbx
            n = rng.choice([16, 30])
            cl = {}
            for gc in range(n):
                r = rng.random()
                if r < 0.6:
                    cl[gc] = ('compressed', foreign.cluster_bytes(rng, csx, 'pattern'))
                elif r < 0.9:
                    cl[gc] = ('data', foreign.cluster_bytes(rng, csx, 'blocks'))
            top = qimg.ImageDesc(version=3, cluster_bits=cbx, refcount_order=4, size=n * csx, clusters=cl, shuffle_seed=rng.randrange(1, 1 << 30))
        try:
            ps, _ = foreign.write_images(d, 'c20f_%d' % k, [top])
        except ValueError:
            continue
        fpaths.append(ps[0])
    fver = qdrv_check(fpaths, d)
    for p in fpaths:
        if fver.get(p, {}).get('valid') != '1':
            continue
        stats['check_foreign'] += 1
        r = run_cli(binp, ['check', p])
        if r[0] != 0:
            msg = [l for l in (r[1] + r[2]).split('\n') if 'leak' in l or 'check' in l.lower()]
            finds.append(('check-rejects-good', os.path.basename(p), 'check fails on a consistent image made by the independent builder (%s): %s' % (
                os.path.basename(p), '; '.join(msg[:2])[:200])))
    shutil.rmtree(d, ignore_errors=True)
    violations, known = [], []
    seen = set()
    for (cls, key, desc) in finds:
        kf = [f for f in kfs if f.get('match', {}).get('class') == cls]
        if kf:
            if not any(x.startswith(kf[0]['id'] + ' ') for x in known):
                known.append('%s %s (e.g. %s)' % (kf[0]['id'], kf[0]['what'], desc[:200]))
            continue
        if cls in seen or len(violations) >= 6:
            continue
        seen.add(cls)
        pth = qv.write_replay('C20', cls + '.json', json.dumps({'class': cls, 'key': str(key), 'what': desc}))
        violations.append({'replay': pth})
        print('  finding [%s]: %s' % (cls, desc[:300]))
    n = sum(stats.values())
    cov = {'evaluations': n, 'distinct_nontrivial': len(distinct_inputs), 'nontrivial_rule': 'distinct inputs: (size, content) of a convert round trip, format parameters, content of a checked consistent image',
           'rule': 'convert round trips over raw sizes incl. 0, sub-block, non-multiples of block and cluster size, multi-chunk x contents; format over (size MiB, cluster_bits, refcount_order); check on consistent images and on copies with an injected leak near / far in the first refcount block',
           'samples': [{'sizes': sizes[:6]}, {'formats': fmts[:4]}], 'counts': dict(stats), 'findings': len(finds)}
    return common.finish('C20', tier, seed, 'exploration', gate, cov, t, violations, known,
                         ['the scratch filesystem under /verif/work accepts the I/O mode the CLI uses (io_uring + O_DIRECT on Linux)'],
                         'Real rqcow2 binary; independent checker = extracted Spec/Image.validb.')
