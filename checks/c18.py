"""C18 need_flush_meta() == false implies file and memory agree: the flag is sampled at every quiescent
point of the concurrent batches (c06.run_conc); where it is false, the file snapshot taken at that moment is
opened read-only by a second device and must read exactly as the live device, and must pass validb."""
import c06


def run(tier, seed, replay):
    return c06.run_conc('C18', tier, seed, replay)
