"""C14 malformed or unsupported images are rejected, never mis-handled.
(1) Qcow2Header::from_buf on arbitrary / mutated buffers: Ok or Err, never a panic; when the
    specification's own reading of the bytes (extracted Spec/Image.parse_hdr + hdr_supported) says
    the image is outside the supported feature set, from_buf must refuse; when it accepts, the
    parsed fields must be the specification's.
(2) valid images with tables redirected anywhere: open + operations return Ok or Err: no panic, no
    hang (watchdog), no deadlock."""
import os, json, struct, shutil, collections
import qv, common, hist, seqrun

CONE = ['Base/RExpr.v', 'Base/Bits.v', 'Spec/Entries.v', 'Spec/Image.v', 'Model/Codec.v', 'Proofs/Geometry.v', 'Proofs/HdrProps.v', 'Proofs/GenEq.v', 'Proofs/ArgProps.v', 'Proofs/GeqMore.v', 'Props/C14.v']


def base_header(cb=16, ro=4, size=1 << 20, version=3, l1_size=1, rtc=1, hl=112):
    b = bytearray(512)
    b[0:4] = bytes.fromhex('514649fb')
    b[4:8] = struct.pack('>I', version)
    b[20:24] = struct.pack('>I', cb)
    b[24:32] = struct.pack('>Q', size)
    b[36:40] = struct.pack('>I', l1_size)
    b[40:48] = struct.pack('>Q', 3 << cb)
    b[48:56] = struct.pack('>Q', 1 << cb)
    b[56:60] = struct.pack('>I', rtc)
    if version >= 3:
        b[96:100] = struct.pack('>I', ro)
        b[100:104] = struct.pack('>I', hl)
    return b


FIELDS = [('magic', 0, 4), ('version', 4, 4), ('backing_off', 8, 8), ('backing_len', 16, 4), ('cluster_bits', 20, 4),
          ('size', 24, 8), ('crypt', 32, 4), ('l1_size', 36, 4), ('l1_off', 40, 8), ('rt_off', 48, 8), ('rt_clusters', 56, 4),
          ('nb_snap', 60, 4), ('snap_off', 64, 8), ('incompat', 72, 8), ('compat', 80, 8), ('autoclear', 88, 8),
          ('refcount_order', 96, 4), ('header_length', 100, 4), ('compression_type', 104, 1)]


def boundary(nbytes):
    m = (1 << (8 * nbytes)) - 1
    xs = {0, 1, 2, 3, 4, 6, 7, 8, 9, 20, 21, 22, 30, 31, 32, 63, 64, 71, 72, 100, 104, 105, 111, 112, 113, 120, 255, 256, 511, 512, 1023, 1024,
          4095, 4096, 65535, 65536, 1 << 20, (1 << 31) - 1, 1 << 31, m - 1, m, m >> 1, (m >> 1) + 1}
    return sorted(x for x in xs if 0 <= x <= m)


def gen_buffers(rng, tier):
    bufs = []
    # random byte strings of many lengths
    for n in [0, 1, 3, 4, 8, 71, 72, 103, 104, 105, 111, 112, 113, 120, 200, 511, 512, 4096]:
        for _ in range(2 if tier == 'quick' else 20):
            bufs.append(('random', bytes(rng.getrandbits(8) for _ in range(n))))
        b = bytearray(rng.getrandbits(8) for _ in range(n))
        b[0:4] = bytes.fromhex('514649fb')[:n]
        if n >= 8:
            b[4:8] = struct.pack('>I', rng.choice([2, 3]))
        bufs.append(('random-magic', bytes(b)))
    # single-field mutations of valid v3 / v2 headers, each buffer at several truncations
    for version in (3, 2):
        for cb in (9, 16, 21):
            base = base_header(cb=cb, version=version)
            bufs.append(('valid', bytes(base)))
            for name, off, n in FIELDS:
                vals = boundary(n)
                if tier == 'quick':
                    vals = rng.sample(vals, min(len(vals), 10))
                for v in vals:
                    b = bytearray(base)
                    b[off:off + n] = v.to_bytes(n, 'big')
                    bufs.append(('field-' + name, bytes(b)))
    # extensions: type/length mutations, feature-name tables of every length class
    for cb in (9, 16):
        for elen in [0, 1, 2, 3, 46, 47, 48, 49, 50, 95, 96, 97, 100, 300, 391, 392, 400, 0xffffffff, 0x7fffffff]:
            for etype in (0x6803f857, 0xe2792aca, 0x12345678):
                b = base_header(cb=cb)
                b[112:116] = struct.pack('>I', etype)
                b[116:120] = struct.pack('>I', elen)
                for i in range(120, 512):
                    b[i] = rng.choice([0, 1, 2, 65, 255])
                bufs.append(('ext', bytes(b)))
                bufs.append(('ext-short', bytes(b[:rng.choice([113, 116, 119, 120, 121, 168, 169, 200])])))
    # backing file name placement
    for boff, blen in [(112, 4), (508, 4), (509, 4), (511, 1), (512, 0), (600, 4), (1 << 40, 4), ((1 << 64) - 2, 4), (120, 1023), (120, 1024), (200, 0)]:
        b = base_header(cb=9)
        b[8:16] = struct.pack('>Q', boff)
        b[16:20] = struct.pack('>I', blen)
        bufs.append(('backing', bytes(b)))
    # the 104-byte form of the version 3 header (no compression type field): the first extension starts at 104
    for cb in (9, 16):
        for etype in (0x6803f857, 0xe2792aca, 0x12345678, 0x00000000):
            for elen in (0, 8, 48, 96):
                b = base_header(cb=cb, hl=104)
                b[104:108] = struct.pack('>I', etype)
                b[108:112] = struct.pack('>I', elen)
                for i in range(112, 112 + elen):
                    b[i] = 0x41
                bufs.append(('hdr104', bytes(b)))
    # backing file name at, across and just beyond the end of the buffer that is handed in
    for cb in (9, 16):
        for trunc in (None, 512, 1024, 4096):
            b0 = base_header(cb=cb)
            L = len(b0) if trunc is None else trunc
            for boff in (L - 9, L - 4, L - 1, L, L + 1):
                for blen in (1, 4, 8, 200, 1023):
                    if boff < 120:
                        continue
                    b = bytearray(b0)
                    if len(b) < L:
                        b += bytes(L - len(b))
                    b[8:16] = struct.pack('>Q', boff)
                    b[16:20] = struct.pack('>I', blen)
                    for i in range(max(120, boff - 2), min(len(b), boff + blen)):
                        b[i] = 0x61
                    bufs.append(('backing-edge', bytes(b[:L])))
    # virtual sizes around what the largest permitted L1 table (32 MiB = 4M entries) can map
    for version in (3, 2):
        for cb in (9, 12, 16, 21):
            spl1 = ((1 << cb) // 8) << cb
            for k in ((1 << 22) - 1, 1 << 22, (1 << 22) + 1):
                for dl in (-512, -1, 0, 1, 512, spl1 - 512, spl1 - 1):
                    size = k * spl1 + dl
                    if 0 < size < (1 << 64):
                        for l1s in (1, 1 << 22):
                            bufs.append(('size-limit', bytes(base_header(cb=cb, version=version, size=size, l1_size=l1s))))
    # two-field mutations
    for _ in range(60 if tier == 'quick' else 3000):
        b = base_header(cb=rng.choice([9, 12, 16, 21]), version=rng.choice([2, 3]))
        for _ in range(rng.choice([2, 3])):
            name, off, n = rng.choice(FIELDS)
            b[off:off + n] = rng.choice(boundary(n)).to_bytes(n, 'big')
        bufs.append(('multi', bytes(b[:rng.choice([512, 512, 200, 112, 105, 104])])))
    return bufs



def parse_exts(buf):
    """header extensions of a header buffer as [(type, payload bytes)], None when malformed / version unknown"""
    if len(buf) < 72:
        return None
    v = struct.unpack('>I', buf[4:8])[0]
    pos = 72 if v == 2 else (struct.unpack('>I', buf[100:104])[0] if len(buf) >= 104 else None)
    if pos is None:
        return None
    out = []
    while pos + 8 <= len(buf):
        t, ln = struct.unpack('>II', buf[pos:pos + 8])
        if t == 0:
            return out
        if pos + 8 + ln > len(buf):
            return None
        out.append((t, bytes(buf[pos + 8:pos + 8 + ln])))
        pos += 8 + ((ln + 7) & ~7)
    return None


def roundtrip_buffers(rng, tier):
    """valid headers with extensions whose payload lengths are not multiples of 8 (backing format strings, unknown types)"""
    bufs = []
    for cb in (9, 12, 16):
        for hl in (104, 112):
            for _ in range(6 if tier == 'quick' else 60):
                b = base_header(cb=cb, hl=hl)
                pos = hl
                used = set()
                for _k in range(rng.randrange(1, 4)):
                    t = rng.choice([x for x in (0xe2792aca, 0x0badcafe, 0x12345678, 0x6803f857) if x not in used])
                    used.add(t)
                    ln = 48 * rng.randrange(1, 3) if t == 0x6803f857 else rng.choice([1, 3, 5, 5, 7, 8, 11, 16, 21])
                    data = bytes(rng.randrange(65, 91) for _ in range(ln)) if t != 0xe2792aca else rng.choice([b'qcow2', b'raw', b'qcow'])
                    if t == 0x6803f857:
                        # well-formed feature name table: 48-byte entries (type 0..2, bit number, zero padded name)
                        data = b''.join(bytes([rng.randrange(0, 3), rng.randrange(0, 64)]) + bytes(rng.randrange(97, 123) for _ in range(rng.randrange(1, 20))).ljust(46, b'\0') for _ in range(ln // 48))
                    if pos + 8 + len(data) + 16 > 512:
                        break
                    b[pos:pos + 8] = struct.pack('>II', t, len(data))
                    b[pos + 8:pos + 8 + len(data)] = data
                    pos += 8 + ((len(data) + 7) & ~7)
                bufs.append(bytes(b))
    return bufs


def roundtrip_findings(rng, tier):
    """parse -> serialise -> parse must give the same extensions (C15: codec fidelity of the header)"""
    bufs = roundtrip_buffers(rng, tier)
    d = qv.workdir('hdrrt')
    qf = os.path.join(d, 'q.txt')
    open(qf, 'w').write(''.join('hdr %s\n' % b.hex() for b in bufs))
    rc, out, err = qv.run_harness(['codec', qf], timeout=300)
    shutil.rmtree(d, ignore_errors=True)
    finds = []
    lines = out.strip('\n').split('\n')
    for b, il in zip(bufs, lines):
        kv = parse_kv(il)
        if il.split()[1:2] != ['ok'] or 'ser' not in kv:
            continue
        ser = bytes.fromhex(kv['ser']) if isinstance(kv['ser'], str) else kv['ser']
        e0, e1 = parse_exts(b), parse_exts(ser + bytes(16))

        def canon(es):
            # the feature name table is a set of 48-byte entries: their order carries no meaning
            return None if es is None else [(t, tuple(sorted(p[i:i + 48] for i in range(0, len(p), 48))) if t == 0x6803f857 else p) for t, p in es]
        if e0 is not None and canon(e0) != canon(e1):
            finds.append((b, 'header extensions change when a parsed header is serialised again: %s -> %s' % (
                [(hex(t), p) for t, p in e0][:4], [(hex(t), p) for t, p in (e1 or [])][:4] if e1 is not None else 'unparsable')))
    return finds, len(bufs)


def parse_kv(line):
    d = dict(x.split('=', 1) for x in line.split() if '=' in x)
    def dec(x):
        return str(int(x, 16)) if x.startswith('0x') else x
    for k, v in list(d.items()):
        d[k] = '/'.join(dec(x) for x in v.split('/'))
    return d


def corrupt_images(rng, tier):
    """valid library-formatted images with data, then table entries redirected"""
    cases = []
    n = 70 if tier == 'quick' else 600
    for k in range(n):
        cb = rng.choice([9, 9, 10, 12])
        g = hist.Geom(cb, rng.choice([0, 3, 4, 6]), 64 << cb, 9, (9, 1024), (9, 1024))
        cs = g.cs
        cid = 'c14i_%d' % k
        prep = ['W 0 %d 1' % cs, 'W %d %d 2' % (3 * cs, 2 * cs), 'F', 'X base']
        cases.append((cid, g, prep))
    return cases


def run(tier, seed, replay):
    t = qv.Timer()
    rng = qv.Rng(seed)
    have_props = os.path.exists(os.path.join(qv.COQ, 'Props', 'C14.v'))
    gate = common.proof_gate('C14', CONE) if have_props else \
        {'ok': True, 'obligations': 0, 'discharged': 0, 'failed': None, 'axioms': [], 'checker_cmd': '', 'gen': {}}
    rc, out = qv.harness_build()
    if rc != 0:
        print(out[-3000:])
        return 2
    bufs = gen_buffers(rng, tier)
    if replay:
        rp = json.load(open(replay))
        if 'buffer' in rp:
            bufs = [('replay', bytes.fromhex(rp['buffer']))]
    d = qv.workdir('c14')
    qf = os.path.join(d, 'q.txt')
    open(qf, 'w').write(''.join('hdr %s\n' % b.hex() for _, b in bufs))
    hx = os.path.join(d, 'hex.txt')
    open(hx, 'w').write(''.join('%s\n' % b.hex() for _, b in bufs))
    rc, out, err = qv.run_harness(['codec', qf], timeout=600)
    impl = out.strip('\n').split('\n')
    rc2, sout = qv.sh([os.path.join(qv.VERIF, 'driver', 'qdrv'), 'hdr', hx], timeout=600)
    spec = sout.strip('\n').split('\n')
    if len(impl) != len(bufs) or len(spec) != len(bufs):
        print('c14: harness/driver output mismatch %d %d %d\n%s' % (len(impl), len(spec), len(bufs), err[-1000:]))
        return 2
    finds = []
    dist = collections.Counter()
    for (kind, b), il, sl in zip(bufs, impl, spec):
        s = parse_kv(sl)
        toks = il.split()
        cls = toks[1] if len(toks) > 1 else 'missing'
        dist[kind + ':' + cls] += 1
        if cls == 'panic':
            finds.append(('panic', kind, b, 'from_buf panics on a %d-byte buffer' % len(b)))
            continue
        if cls == 'ok':
            i = parse_kv(il)
            if s['feat'] != '1':
                why = [k for k in ('magic', 'v', 'cb', 'ro', 'crypt', 'incompat', 'ct', 'snap', 'hl') if True]
                finds.append(('accepts-unsupported', kind, b, 'from_buf accepts a header the specification reading puts outside the supported set: ' + sl))
                continue
            # fields must be the specification's
            pairs = [('v', 'v'), ('cb', 'cb'), ('size', 'size'), ('ro', 'ro')]
            for a, c in pairs:
                if i[a] != s[c]:
                    finds.append(('field', kind, b, 'field %s: implementation %s, specification %s' % (a, i[a], s[c])))
                    break
            if i['l1'] != '%s/%s' % (s['l1'].split('/')[0], s['l1'].split('/')[1]) or i['rt'] != s['rt']:
                finds.append(('field', kind, b, 'table location: implementation l1=%s rt=%s, specification l1=%s rt=%s' % (i['l1'], i['rt'], s['l1'], s['rt'])))
    # ---------- (2) corrupted tables
    cases = corrupt_images(rng, tier)
    texts = []
    for cid, g, prep in cases:
        texts.append((cid, hist.case_text(cid, g, prep)))
    obs = seqrun.run_cases_text(d, texts, timeout=600)
    texts2 = []
    meta2 = {}
    for cid, g, prep in cases:
        p = os.path.join(d, '%s.base.img' % cid)
        if not os.path.exists(p):
            continue
        img = bytearray(open(p, 'rb').read())
        cs = g.cs
        l1off = struct.unpack('>Q', img[40:48])[0]
        rtoff = struct.unpack('>Q', img[48:56])[0]
        l2off = struct.unpack('>Q', img[l1off:l1off + 8])[0] & 0x00fffffffffffe00
        rboff = struct.unpack('>Q', img[rtoff:rtoff + 8])[0]
        targets = {'l1': l1off, 'l1b': l1off + 8, 'rt': rtoff, 'rtb': rtoff + 8, 'l2': l2off, 'l2b': l2off + 8 * 3, 'l2c': l2off + 8 * 9}
        which = rng.choice(sorted(targets))
        pos = targets[which]
        if pos + 8 > len(img):
            img.extend(bytes(pos + 8 - len(img)))
        cur = struct.unpack('>Q', img[pos:pos + 8])[0]
        vals = [0, 1, cs, cs + 1, cs // 2, 0x200, l1off, rtoff, l2off, rboff, len(img), len(img) + cs, 1 << 40, (1 << 56) - cs, 1 << 56,
                (1 << 63) | cs, (1 << 63) | l2off, (1 << 62) | cs, (1 << 62) | (1 << 61) | (cs * 3 + 7), cur | 1, cur | (1 << 62), cur ^ (1 << 63),
                (1 << 64) - 1, (1 << 64) - cs, cur + cs, cur | 0x1fe]
        v = rng.choice(vals) & ((1 << 64) - 1)
        if which.startswith('l2') and rng.random() < 0.35:
            # compressed descriptors whose data lies behind the end of the file, at offsets that are not block aligned
            flen = len(img)
            v = (1 << 62) | rng.choice([flen + 355, flen + 3 * cs + 0x1c1, flen // 512 * 512 + 600, flen + 7, (flen + cs) | 0x3ff,
                                        ((2 << (62 - (g.cb - 8))) | (flen - 100)) if flen > 100 else flen + 9])
        img[pos:pos + 8] = struct.pack('>Q', v)
        ip = os.path.join(d, '%s.mut.img' % cid)
        open(ip, 'wb').write(img)
        ops = ['R 0 %d' % (4 * cs), 'W %d %d 5' % (cs, cs), 'W %d %d 6' % (9 * cs, 512), 'M', 'D 0 %d' % (8 * cs), 'W %d %d 7' % (20 * cs, 3 * cs),
               'R %d %d' % (8 * cs, 4 * cs), 'F', 'C', 'K', 'R 0 %d' % (64 * cs)]
        texts2.append((cid + 'm', 'case %sm\nimage file %s\nopt maxlen=%d\nopen %s\n%s\nend\n' % (cid, ip, 64 << 20, g.params(), '\n'.join(ops))))
        meta2[cid + 'm'] = (which, v, g)
    obs2 = seqrun.run_cases_text(d, texts2, timeout=900)
    nops = 0
    for cid, _ in texts2:
        which, v, g = meta2[cid]
        for l in obs2.get(cid, []):
            tk = l.split()
            if tk[0] in ('res', 'open'):
                nops += 1
            bad = None
            if tk[0] == 'hang':
                bad = 'operation never returns'
            elif tk[0] == 'open' and len(tk) > 1 and tk[1] in ('panic', 'deadlock', 'budget'):
                bad = 'open: ' + ' '.join(tk[1:3])
            elif tk[0] == 'res' and len(tk) > 2 and tk[2] in ('panic', 'deadlock', 'budget'):
                bad = 'operation %s: %s' % (tk[1], ' '.join(tk[2:4]))
            if bad:
                finds.append(('table-' + bad.split(':')[0].split()[0], 'corrupt-' + which, (cid, which, v, g.desc()), '%s entry := %#x (%s): %s' % (which, v, g.desc(), bad)))
                dist['corrupt:' + bad.split()[0]] += 1
                break
    shutil.rmtree(d, ignore_errors=True)
    # ---------- verdict
    violations, known = [], []
    kfs = [f for f in qv.known_findings().get('findings', []) if f.get('property') == 'C14']
    seen = collections.Counter()
    for (cls, kind, b, desc) in finds:
        kf = None
        for f in kfs:
            m = f.get('match', {})
            if m.get('class') == cls and (not m.get('desc_contains') or m['desc_contains'] in desc):
                kf = f
        if kf:
            if not any(k.startswith(kf['id'] + ' ') for k in known):
                known.append('%s %s (e.g. %s)' % (kf['id'], kf['what'], desc[:200]))
            continue
        key = cls + ':' + kind
        seen[key] += 1
        if seen[key] > 1 or len(violations) >= 8:
            continue
        if isinstance(b, (bytes, bytearray)):
            path = qv.write_replay('C14', '%s-%s.json' % (cls, kind), json.dumps({'what': desc, 'buffer': bytes(b).hex()}))
        else:
            path = qv.write_replay('C14', '%s-%s.json' % (cls, kind), json.dumps({'what': desc, 'case': list(b)}))
        violations.append({'replay': path})
        print('  finding [%s/%s]: %s' % (cls, kind, desc[:260]))
    cov = {'evaluations': len(bufs) + nops, 'distinct_nontrivial': len(set(b for _, b in bufs)),
           'rule': 'header buffers: random byte strings of lengths 0..4096, single-/multi-field boundary mutations of valid v2 and v3 headers, extension type/length mutations (incl. feature-name tables of length 1 mod 48 and lengths beyond the buffer), backing-name placements, truncations; images: valid library images with one L1/L2/reftable entry redirected (beyond EOF, into the header, self loops, unaligned, reserved bits, compressed descriptors), then open + read/write/discard/flush/check',
           'samples': [{'kind': k, 'hex': b.hex()[:240]} for k, b in bufs[:2]] + [{'kind': 'corrupt', 'entry': str(meta2[c][0]), 'value': meta2[c][1]} for c, _ in texts2[:2]],
           'programs': len(bufs), 'disagreements_checked': len(finds), 'outcome_distribution': dict(dist), 'corrupt_image_ops': nops}
    return common.finish('C14', tier, seed, 'exploration', gate, cov, t, violations, known,
                         ['peak memory is not measured: header-derived table sizes are bounded by the checks the specification reading applies (l1_size, refcount_table_clusters limits)'],
                         'from_buf outcome classes vs the specification reading of the same bytes; corrupted-table images exercised through the API under watchdog.')
