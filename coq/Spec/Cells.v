(* The cell abstraction of an image (Model/Crash.v) defined on the executable specification (Spec/Image.v), and its
   meaning: for an image whose table entries sit at distinct file offsets, the abstract state is safe exactly when
   no cluster's stored refcount is below its number of references in the sense of the specification.
   `cells` is extracted (qdrv cells): the check compares the state its log decoder reaches at every sync point
   with this from-scratch abstraction of the durable image. *)
From Coq Require Import NArith List Bool Lia.
From Q.Spec Require Import Entries Image.
From Q.Model Require Import Crash.
Import ListNotations.
Open Scope N_scope.

Section A.
  Variable rd : N -> N.
  Variable h : hdr.
  Let cs := 2 ^ h_cb h.

  (* pseudo slot 1 (table entries sit at multiples of 8): what the header itself references *)
  Definition hdr_slot : N * list N :=
    (1, [0] ++ map (fun k => h_rt_off h / cs + k) (nrange (h_rt_clusters h))
            ++ map (fun k => h_l1_off h / cs + k) (nrange (l1_clusters h))).
  Definition rt_slots : list (N * list N) :=
    map (fun i => (h_rt_off h + i * 8, [s_rt_offset (rt_entry rd h i) / cs])) (rt_nonzero rd h).
  Definition l1_slots : list (N * list N) :=
    map (fun i => (h_l1_off h + i * 8, [s_l1_offset (l1_entry rd h i) / cs])) (l1_nonzero rd h).
  Definition l2_slots : list (N * list N) :=
    flat_map (fun i => map (fun j => (s_l1_offset (l1_entry rd h i) + j * 8,
                                      l2_refs h (l2_entry rd (s_l1_offset (l1_entry rd h i)) j))) (nrange (l2e h)))
             (l1_nonzero rd h).

  Definition slots : list (N * list N) := hdr_slot :: rt_slots ++ l1_slots ++ l2_slots.

  Definition cells : fs :=
    {| rcl := map (fun c => (c, stored rd h c)) (ref_list rd h); sll := slots |}.

  Definition cells_dom : list N := map fst slots.

  (* distinct slot identities: no two table entries at the same file offset *)
  Fixpoint nodupb (l : list N) : bool :=
    match l with
    | [] => true
    | x :: t => negb (existsb (N.eqb x) t) && nodupb t
    end.
End A.

(* ---- proofs *)
Lemma flat_map_snd_map_single {A} (f : A -> N) (g : A -> N) l :
  flat_map snd (map (fun i => (f i, [g i])) l) = map g l.
Proof. induction l as [|x l IH]; cbn [map flat_map snd app]; [reflexivity|]. rewrite IH. reflexivity. Qed.

Lemma flat_map_app' {A B} (f : A -> list B) l1 l2 : flat_map f (l1 ++ l2) = flat_map f l1 ++ flat_map f l2.
Proof. induction l1 as [|x l IH]; cbn [flat_map app]; [reflexivity|]. rewrite IH, app_assoc. reflexivity. Qed.

Lemma flat_map_snd_map_pair {B} (k : B -> N) (t : B -> list N) (inner : list B) :
  flat_map snd (map (fun j => (k j, t j)) inner) = flat_map t inner.
Proof. induction inner as [|j inner IH]; cbn [map flat_map snd]; [reflexivity|]. rewrite IH. reflexivity. Qed.

Lemma flat_map_snd_flat_map {A B} (k : A -> B -> N) (t : A -> B -> list N) (inner : list B) l :
  flat_map snd (flat_map (fun i => map (fun j => (k i j, t i j)) inner) l) =
  flat_map (fun i => flat_map (fun j => t i j) inner) l.
Proof.
  induction l as [|x l IH]; cbn [flat_map]; [reflexivity|]. rewrite flat_map_app', IH. f_equal.
  apply (flat_map_snd_map_pair (k x) (t x)).
Qed.

Lemma slots_refs rd h : flat_map snd (slots rd h) = ref_list rd h.
Proof.
  unfold slots, ref_list. cbn [flat_map]. unfold hdr_slot at 1. cbn [snd].
  rewrite !flat_map_app'. unfold rt_slots, l1_slots, l2_slots.
  rewrite !flat_map_snd_map_single, flat_map_snd_flat_map.
  rewrite <- !app_assoc. reflexivity.
Qed.

Lemma occ_app c l1 l2 : occ c (l1 ++ l2) = occ c l1 + occ c l2.
Proof. induction l1 as [|x l IH]; cbn [app occ]; [lia|]. rewrite IH. lia. Qed.

Lemma occ_count c l : occ c l = count c l.
Proof. induction l as [|x l IH]; cbn [occ count]; [reflexivity|]. rewrite IH. reflexivity. Qed.

Lemma nodupb_spec l : nodupb l = true -> NoDup l.
Proof.
  induction l as [|x t IH]; cbn [nodupb]; intros H; [constructor|].
  apply andb_prop in H as [H1 H2]. constructor; [|exact (IH H2)].
  intros Hin. apply negb_true_iff in H1. assert (existsb (N.eqb x) t = true); [|congruence].
  apply existsb_exists. exists x. split; [exact Hin|apply N.eqb_refl].
Qed.

Lemma alookup_nodup (l : list (N * list N)) : NoDup (map fst l) ->
  forall p, In p l -> alookup [] l (fst p) = snd p.
Proof.
  induction l as [|q l IH]; intros ND p Hp; [contradiction|].
  cbn [map] in ND. inversion ND as [|? ? Hnin ND']; subst.
  destruct q as [k v]. cbn [alookup]. destruct Hp as [<-|Hp].
  - cbn [fst snd]. rewrite N.eqb_refl. reflexivity.
  - destruct (N.eqb_spec (fst p) k) as [E|_]; [|exact (IH ND' p Hp)].
    exfalso. apply Hnin. cbn [fst]. rewrite <- E. apply in_map. exact Hp.
Qed.

Lemma sumN_slots c (l all : list (N * list N)) :
  (forall p, In p l -> alookup [] all (fst p) = snd p) ->
  sumN (fun i => occ c (alookup [] all i)) (map fst l) = occ c (flat_map snd l).
Proof.
  induction l as [|p l IH]; intros H; cbn [map sumN flat_map occ]; [reflexivity|].
  rewrite occ_app, (H p (or_introl eq_refl)), IH; [reflexivity|]. intros q Hq. apply H. right. exact Hq.
Qed.

Theorem cells_refs rd h : nodupb (cells_dom rd h) = true ->
  forall c, crefs (cells_dom rd h) (cells rd h) c = refs rd h c.
Proof.
  intros ND c. apply nodupb_spec in ND. unfold crefs, cells_dom, get_sl, cells. cbn [sll].
  rewrite (sumN_slots c (slots rd h) (slots rd h)) by (apply alookup_nodup; exact ND).
  rewrite slots_refs, occ_count. reflexivity.
Qed.

Lemma alookup_map_stored (f : N -> N) l c : In c l -> alookup 0 (map (fun x => (x, f x)) l) c = f c.
Proof.
  induction l as [|x l IH]; intros H; [contradiction|]. cbn [map alookup].
  destruct (N.eqb_spec c x) as [->|Hne]; [reflexivity|]. destruct H as [->|H]; [congruence|exact (IH H)].
Qed.

Lemma count_notin c l : ~ In c l -> count c l = 0.
Proof.
  induction l as [|x l IH]; intros H; cbn [count]; [reflexivity|].
  destruct (N.eqb_spec x c) as [->|_]; [exfalso; apply H; left; reflexivity|].
  rewrite IH; [reflexivity|]. intros Hin; apply H; right; exact Hin.
Qed.

(* the meaning of `safe` on the abstraction of an image *)
Theorem cells_safe_iff rd h : nodupb (cells_dom rd h) = true ->
  (safe (cells_dom rd h) (cells rd h) <-> forall c, refs rd h c <= stored rd h c).
Proof.
  intros ND. split.
  - intros S c. specialize (S c). rewrite (cells_refs rd h ND) in S.
    destruct (in_dec N.eq_dec c (ref_list rd h)) as [Hin|Hnin].
    + unfold get_rc, cells in S. cbn [rcl] in S. rewrite (alookup_map_stored (stored rd h)) in S by exact Hin. exact S.
    + unfold refs. rewrite count_notin by exact Hnin. lia.
  - intros H c. rewrite (cells_refs rd h ND).
    destruct (in_dec N.eq_dec c (ref_list rd h)) as [Hin|Hnin].
    + unfold get_rc, cells. cbn [rcl]. rewrite (alookup_map_stored (stored rd h)) by exact Hin. apply H.
    + unfold refs. rewrite count_notin by exact Hnin. lia.
Qed.
