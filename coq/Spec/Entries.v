(* qcow2 table entries as docs/interop/qcow2.txt describes them: bit fields by position.
   Written from the specification text, independent of Model/ and of the Rust code.
   [bits v lo n] is the n-bit field of v starting at bit lo. *)
From Coq Require Import NArith Bool List.
Import ListNotations.
Open Scope N_scope.

Definition bits (v lo n : N) : N := (v / 2 ^ lo) mod 2 ^ n.
Definition bit (v k : N) : bool := negb (bits v k 1 =? 0).

(* ---- L1 table entry ----
   Bit 0-8 reserved; 9-55 bits 9-55 of the L2 table offset; 56-62 reserved; 63 COPIED *)
Definition s_l1_offset (v : N) : N := bits v 9 47 * 512.
Definition s_l1_copied (v : N) : bool := bit v 63.

(* ---- refcount table entry ----
   Bit 0-8 reserved; 9-63 bits 9-63 of the refcount block offset *)
Definition s_rt_offset (v : N) : N := bits v 9 55 * 512.
Definition s_rt_reserved (v : N) : N := bits v 0 9.

(* ---- L2 table entry ----
   Bit 62: compressed; bit 63: COPIED.
   Standard descriptor: bit 0 reads-as-zeros; 1-8 reserved; 9-55 host cluster offset; 56-61 reserved.
   Compressed descriptor, x = 62 - (cluster_bits - 8):
     bits 0..x-1 host offset (bits above 55 must be zero), bits x..61 additional 512-byte sectors *)
Definition s_l2_compressed (v : N) : bool := bit v 62.
Definition s_l2_copied (v : N) : bool := bit v 63.
Definition s_l2_zero (v : N) : bool := bit v 0.
Definition s_l2_offset (v : N) : N := bits v 9 47 * 512.
Definition s_l2_std_reserved (v : N) : bool := (bits v 1 8 =? 0) && (bits v 56 6 =? 0).
Definition s_x (cb : N) : N := 62 - (cb - 8).
Definition s_l2_coffset (cb v : N) : N := bits v 0 (N.min (s_x cb) 56).
Definition s_l2_csectors (cb v : N) : N := bits v (s_x cb) (62 - s_x cb).
(* bytes available to the compressed data: the rest of the first sector plus the
   additional sectors *)
Definition s_l2_clength (cb v : N) : N :=
  (s_l2_csectors cb v + 1) * 512 - s_l2_coffset cb v mod 512.

Inductive kind := KData | KBacking | KZero | KCompressed | KUnalloc.

Record decoded := {
  d_kind : kind;
  d_off : option N;     (* host offset (data, preallocated zero, compressed) or guest offset (backing) *)
  d_len : option N;     (* compressed: bytes available *)
  d_copied : bool
}.

(* what a reader must do with an L2 entry of the active L1 table; [backing] = the image has a
   backing file, [gco] = the guest offset of the cluster *)
Definition s_l2_decode (cb : N) (backing : bool) (gco v : N) : decoded :=
  if s_l2_compressed v then
    {| d_kind := KCompressed; d_off := Some (s_l2_coffset cb v);
       d_len := Some (s_l2_clength cb v); d_copied := false |}
  else if s_l2_zero v then
    {| d_kind := KZero;
       d_off := if s_l2_offset v =? 0 then None else Some (s_l2_offset v);
       d_len := None;
       d_copied := negb (s_l2_offset v =? 0) && s_l2_copied v |}
  else if s_l2_offset v =? 0 then
    if backing
    then {| d_kind := KBacking; d_off := Some gco; d_len := None; d_copied := false |}
    else {| d_kind := KUnalloc; d_off := Some 0; d_len := None; d_copied := false |}
  else
    {| d_kind := KData; d_off := Some (s_l2_offset v); d_len := None; d_copied := s_l2_copied v |}.

(* entries the specification permits (64-bit words) *)
Definition s_l2_valid (cb v : N) : bool :=
  (v <? 2 ^ 64) &&
  if s_l2_compressed v
  then negb (s_l2_copied v) && (bits v 56 (s_x cb - 56) =? 0)
  else s_l2_std_reserved v && (s_l2_offset v mod 2 ^ cb =? 0)
       && (negb (s_l2_copied v) || negb (s_l2_offset v =? 0)).

(* ---- refcount blocks ----
   refcount_bits = 2^order; entries are big-endian words; sub-byte entries are packed
   LSB first within a byte *)
Definition s_refcount_read (ro : N) (bytes : N -> N) (idx : N) : N :=
  if ro <? 3 then
    let per := 8 / 2 ^ ro in
    bits (bytes (idx / per)) (idx mod per * 2 ^ ro) (2 ^ ro)
  else
    let n := 2 ^ ro / 8 in
    N.recursion 0 (fun k acc => acc * 256 + bytes (idx * n + k)) n.

(* ---- address arithmetic ----
   l2_entries = cluster_size / 8; l2_index = (offset / cluster_size) % l2_entries;
   l1_index = (offset / cluster_size) / l2_entries;
   refcount_block_entries = cluster_size * 8 / refcount_bits;
   refcount_block_index = (offset / cluster_size) % refcount_block_entries;
   refcount_table_index = (offset / cluster_size) / refcount_block_entries *)
Definition s_l2_entries (cb : N) : N := 2 ^ cb / 8.
Definition s_l2_index (cb off : N) : N := (off / 2 ^ cb) mod s_l2_entries cb.
Definition s_l1_index (cb off : N) : N := (off / 2 ^ cb) / s_l2_entries cb.
Definition s_rb_entries (cb ro : N) : N := 2 ^ cb * 8 / 2 ^ ro.
Definition s_rb_index (cb ro off : N) : N := (off / 2 ^ cb) mod s_rb_entries cb ro.
Definition s_rt_index (cb ro off : N) : N := (off / 2 ^ cb) / s_rb_entries cb ro.
