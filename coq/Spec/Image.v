(* An independent reading of the qcow2 specification at the level of whole images.
   The host file enters as a byte function [rd] (0 beyond the end of file) and its length.
   [parse] decodes header and tables with big-endian words exactly as docs/interop/qcow2.txt
   lays them out; [valid] / [safe] are the structural predicates of properties C03 / C04;
   [validb] / [safeb] are their executable twins (extracted to OCaml: the independent checker).
   Nothing here is shared with Model/ or with the Rust code. *)
From Coq Require Import NArith List Bool.
From Q.Spec Require Import Entries.
Import ListNotations.
Open Scope N_scope.

Section Bytes.
  Variable rd : N -> N.        (* byte at offset; 0 beyond the end of file *)
  Variable flen : N.

  Definition rd16 (o : N) : N := rd o * 256 + rd (o + 1).
  Definition rd32 (o : N) : N := rd16 o * 65536 + rd16 (o + 2).
  Definition rd64 (o : N) : N := rd32 o * 4294967296 + rd32 (o + 4).

  Record hdr := {
    h_magic : N; h_version : N; h_backing_off : N; h_backing_len : N;
    h_cb : N; h_size : N; h_crypt : N; h_l1_size : N; h_l1_off : N;
    h_rt_off : N; h_rt_clusters : N; h_nb_snap : N; h_snap_off : N;
    h_incompat : N; h_compat : N; h_autoclear : N; h_ro : N; h_len : N; h_comp_type : N
  }.

  (* version 2 headers are 72 bytes long: refcount_order is 4, feature fields are absent *)
  Definition parse_hdr : hdr :=
    let v := rd32 4 in
    let v3 := 3 <=? v in
    let hl := if v3 then rd32 100 else 72 in
    {| h_magic := rd32 0; h_version := v; h_backing_off := rd64 8; h_backing_len := rd32 16;
       h_cb := rd32 20; h_size := rd64 24; h_crypt := rd32 32; h_l1_size := rd32 36;
       h_l1_off := rd64 40; h_rt_off := rd64 48; h_rt_clusters := rd32 56;
       h_nb_snap := rd32 60; h_snap_off := rd64 64;
       h_incompat := if v3 then rd64 72 else 0;
       h_compat := if v3 then rd64 80 else 0;
       h_autoclear := if v3 then rd64 88 else 0;
       h_ro := if v3 then rd32 96 else 4;
       h_len := hl;
       h_comp_type := if v3 && (104 <? hl) then rd 104 else 0 |}.

  (* the feature set the library supports: no encryption, no incompatible features, deflate,
     no snapshots (the library never looks at snapshot tables, so images with snapshots are
     outside what it may write to) *)
  Definition hdr_features_ok (h : hdr) : bool :=
    (h_magic h =? 0x514649fb) && ((h_version h =? 2) || (h_version h =? 3)) &&
    (9 <=? h_cb h) && (h_cb h <=? 21) && (h_ro h <=? 6) &&
    (h_crypt h =? 0) && (h_incompat h =? 0) && (h_comp_type h =? 0) &&
    (h_l1_off h mod 2 ^ h_cb h =? 0) && (h_rt_off h mod 2 ^ h_cb h =? 0) &&
    (h_l1_size h <=? 4194304) && (h_rt_clusters h <=? 8388608 / 2 ^ h_cb h) &&
    (* one L1 table within the 32 MiB limit must be able to map the whole virtual disk *)
    ((h_size h + 2 ^ (2 * h_cb h - 3) - 1) / 2 ^ (2 * h_cb h - 3) <=? 4194304) &&
    (if h_version h =? 3 then (104 <=? h_len h) && (h_len h mod 8 =? 0) && (h_len h <=? 2 ^ h_cb h) else true) &&
    (if h_backing_off h =? 0 then true else (h_backing_len h <=? 1023) && (h_backing_off h + h_backing_len h <=? 2 ^ h_cb h)).

  (* the library never looks at snapshot tables: an image with snapshots is outside what the
     structural checks below describe *)
  Definition hdr_supported (h : hdr) : bool := hdr_features_ok h && (h_nb_snap h =? 0).

  Variable h : hdr.
  Let cb := h_cb h.
  Let cs := 2 ^ cb.
  Let ro := h_ro h.
  Definition l2e : N := cs / 8.
  Definition rbe : N := cs * 8 / 2 ^ ro.
  Definition rt_entries : N := h_rt_clusters h * cs / 8.
  Definition l1_clusters : N := (h_l1_size h * 8 + cs - 1) / cs.
  Definition has_backing : bool := negb (h_backing_off h =? 0).

  Definition l1_entry (i : N) : N := rd64 (h_l1_off h + i * 8).
  Definition rt_entry (i : N) : N := rd64 (h_rt_off h + i * 8).
  Definition l2_entry (tbl j : N) : N := rd64 (tbl + j * 8).

  (* stored refcount of host cluster number c *)
  Definition stored (c : N) : N :=
    let i := c / rbe in
    if i <? rt_entries then
      let e := rt_entry i in
      if s_rt_offset e =? 0 then 0
      else s_refcount_read ro (fun k => rd (s_rt_offset e + k)) (c mod rbe)
    else 0.

  (* [0; 1; ...; n-1], built by binary iteration (no unary numbers) *)
  Definition nrange (n : N) : list N :=
    snd (N.iter n (fun p => (N.pred (fst p), N.pred (fst p) :: snd p)) (n, [])).

  (* clusters referenced by one L2 entry *)
  Definition l2_refs (v : N) : list N :=
    if v =? 0 then [] else
    if s_l2_compressed v then
      let o := s_l2_coffset cb v in
      let first := o / cs in
      let last := (o + s_l2_clength cb v - 1) / cs in
      map (fun k => first + k) (nrange (last - first + 1))
    else if s_l2_offset v =? 0 then [] else [s_l2_offset v / cs].

  Definition l1_nonzero : list N := filter (fun i => negb (s_l1_offset (l1_entry i) =? 0)) (nrange (h_l1_size h)).
  Definition rt_nonzero : list N := filter (fun i => negb (s_rt_offset (rt_entry i) =? 0)) (nrange rt_entries).

  (* every reference to a host cluster, with multiplicity: header, refcount table, L1 table,
     refcount blocks, L2 tables, data (standard incl. preallocated-zero; compressed over the
     clusters its bytes touch) *)
  Definition ref_list : list N :=
    [0] ++ map (fun k => h_rt_off h / cs + k) (nrange (h_rt_clusters h))
        ++ map (fun k => h_l1_off h / cs + k) (nrange l1_clusters)
        ++ map (fun i => s_rt_offset (rt_entry i) / cs) rt_nonzero
        ++ map (fun i => s_l1_offset (l1_entry i) / cs) l1_nonzero
        ++ flat_map (fun i => flat_map (fun j => l2_refs (l2_entry (s_l1_offset (l1_entry i)) j)) (nrange l2e)) l1_nonzero.

  Fixpoint count (c : N) (l : list N) : N :=
    match l with [] => 0 | x :: t => (if x =? c then 1 else 0) + count c t end.
  Definition refs (c : N) : N := count c ref_list.

  (* clusters covered by an existing refcount block whose stored refcount is not zero, with
     that refcount (one pass per refcount block) *)
  Definition covered_nonzero : list (N * N) :=
    flat_map (fun i =>
      let off := s_rt_offset (rt_entry i) in
      let base := i * rbe in
      filter (fun p => negb (snd p =? 0))
        (map (fun k => (base + k, s_refcount_read ro (fun b => rd (off + b)) k)) (nrange rbe)))
      rt_nonzero.

  (* ----- structural checks ----- *)
  Definition rt_entry_ok (e : N) : bool := (s_rt_reserved e =? 0) && (s_rt_offset e mod cs =? 0).
  Definition l1_entry_ok (e : N) : bool :=
    (bits e 0 9 =? 0) && (bits e 56 7 =? 0) && (s_l1_offset e mod cs =? 0).
  (* bytes beyond the end of the file read as zeros (a growable host file), so a table that
     reaches beyond the end is a table of unallocated entries; library-formatted images rely on
     this for their L1 table *)

  Definition guest_clusters : N := (h_size h + cs - 1) / cs.

  Definition l2_table_ok (strict : bool) (i : N) : bool :=
    let tbl := s_l1_offset (l1_entry i) in
    forallb (fun j =>
      let v := l2_entry tbl j in
      (v =? 0) ||      (* an all-zero entry is an unallocated cluster *)
      s_l2_valid cb v &&
      (* nothing maps beyond the virtual size *)
      ((i * l2e + j <? guest_clusters) || (v =? 0)) &&
      (* allocated standard clusters carry COPIED (strict = the C03 reading) *)
      (negb strict || s_l2_compressed v || (s_l2_offset v =? 0) || s_l2_copied v)) (nrange l2e).

  (* [cover]: the L1 table must be able to map the whole virtual disk (QEMU refuses an image whose L1 table is too
     small; the library extends the table on demand, so the crash states of such an image are judged without it) *)
  Definition tables_ok_gen (cover strict : bool) : bool :=
    (1 <=? h_rt_clusters h) &&
    (negb cover || (guest_clusters <=? h_l1_size h * l2e)) &&
    forallb (fun i => rt_entry_ok (rt_entry i)) (nrange rt_entries) &&
    forallb (fun i => l1_entry_ok (l1_entry i)) (nrange (h_l1_size h)) &&
    forallb (fun i => (negb strict || s_l1_copied (l1_entry i)) && l2_table_ok strict i) l1_nonzero.

  Definition tables_ok (strict : bool) : bool := tables_ok_gen true strict.

  (* C03: stored = refs for every cluster; at most one reference except through compressed data *)
  Definition refcounts_exact : bool :=
    let rl := ref_list in
    forallb (fun c => stored c =? count c rl) rl &&
    forallb (fun p => negb (count (fst p) rl =? 0)) covered_nonzero.

  (* C04: no reachable cluster is under-counted; leaks allowed *)
  Definition refcounts_safe : bool :=
    let rl := ref_list in forallb (fun c => count c rl <=? stored c) rl.

  (* clusters referenced by an entry that carries COPIED ("refcount is exactly one"): L2 tables through L1
     entries, standard data clusters through L2 entries *)
  Definition copied_refs : list N :=
    map (fun i => s_l1_offset (l1_entry i) / cs) (filter (fun i => s_l1_copied (l1_entry i)) l1_nonzero)
    ++ flat_map (fun i => flat_map (fun j =>
         let v := l2_entry (s_l1_offset (l1_entry i)) j in
         if negb (s_l2_compressed v) && s_l2_copied v && negb (s_l2_offset v =? 0) then [s_l2_offset v / cs] else [])
         (nrange l2e)) l1_nonzero.
  Definition copied_single : bool := forallb (fun c => stored c =? 1) copied_refs.

  Definition validb : bool := hdr_supported h && tables_ok true && refcounts_exact && copied_single.
  Definition safeb : bool := hdr_supported h && tables_ok false && refcounts_safe.
  (* validb for an image whose header lists fewer L1 entries than its virtual size needs (before the library extends it) *)
  Definition validb_short_l1 : bool := hdr_supported h && tables_ok_gen false true && refcounts_exact && copied_single.
  (* the same judgement for an image whose header lists fewer L1 entries than its virtual size needs *)
  Definition safeb_short_l1 : bool := hdr_supported h && tables_ok_gen false false && refcounts_safe.

  (* leak list, for diagnostics and for C20's check() verdict *)
  Definition leaked : list N :=
    let rl := ref_list in map fst (filter (fun p => count (fst p) rl =? 0) covered_nonzero).
  Definition undercounted : list N :=
    let rl := ref_list in filter (fun c => stored c <? count c rl) rl.
  Definition overcounted : list N :=
    let rl := ref_list in filter (fun c => count c rl <? stored c) rl.

  (* what a reader must do for guest cluster number gc *)
  Definition guest_entry (gc : N) : N :=
    let i := gc / l2e in
    if i <? h_l1_size h then
      let e := l1_entry i in
      if s_l1_offset e =? 0 then 0 else l2_entry (s_l1_offset e) (gc mod l2e)
    else 0.
  Definition guest_mapping (gc : N) : decoded :=
    s_l2_decode cb has_backing (gc * cs) (guest_entry gc).
End Bytes.
