(* Model of the allocator's scans over one refcount-block slice (src/meta/refcount.rs):
   RefBlock::get_free_range, get_tail_free_range, alloc_range.  A slice is the list of its refcounts. *)
From Coq Require Import NArith List Bool Arith.
Import ListNotations.

Definition rc_at (l : list N) (i : nat) : N := nth i l 0%N.
Definition zero_at (l : list N) (i : nat) : bool := N.eqb (rc_at l i) 0.

(* first j in [i, i+n) whose refcount is not zero *)
Fixpoint find_nz (l : list N) (i n : nat) : option nat :=
  match n with
  | O => None
  | S n' => if zero_at l i then find_nz l (S i) n' else Some i
  end.

(* the while loop of get_free_range, with fuel (the slice length bounds the number of iterations) *)
Fixpoint gfr_loop (fuel : nat) (l : list N) (i count max_start : nat) : option (nat * nat) :=
  match fuel with
  | O => None
  | S f =>
      if i <=? max_start then
        match find_nz l i count with
        | None => Some (i, i + count)
        | Some j => gfr_loop f l (S j) count max_start
        end
      else None
  end.

(* None when the Rust code panics (assert!(start + count <= entries)) is modelled by the caller's guard *)
Definition get_free_range (l : list N) (start count : nat) : option (nat * nat) :=
  gfr_loop (S (length l)) l start count (length l - count).

(* scanning from the end: index of the last non-zero entry *)
Fixpoint last_nz (l : list N) (n : nat) : option nat :=
  match n with
  | O => None
  | S n' => if zero_at l n' then last_nz l n' else Some n'
  end.

Definition get_tail_free_range (l : list N) : option (nat * nat) :=
  match last_nz l (length l) with
  | None => None
  | Some i => if i =? length l - 1 then None else Some (S i, length l)
  end.

Fixpoint upd_nth (l : list N) (i : nat) (v : N) : list N :=
  match l, i with
  | [], _ => []
  | _ :: t, O => v :: t
  | x :: t, S i' => x :: upd_nth t i' v
  end.

(* alloc_range: increment every entry of [s, e); the refcount width's overflow check is outside this model *)
Fixpoint alloc_range (l : list N) (s n : nat) : list N :=
  match n with
  | O => l
  | S n' => alloc_range (upd_nth l s (rc_at l s + 1)%N) (S s) n'
  end.
