(* Cluster-level model of the device: guest-cluster mapping, host refcounts, host data.
   Granularity: one guest "block" = 512 bytes, values are opaque tokens (N), 0 = the zero block.
   Allocation is not computed by the model: every operation takes the host cluster the
   implementation chose (an oracle ch : guest cluster -> host cluster) and refuses (None) when
   that cluster is not free in the model.  The correspondence check runs the extracted functions
   on the choices observed from the real library; the theorems (Proofs/DevProps.v) hold for every
   choice that passes the guard. *)
From Coq Require Import NArith List Bool.
Import ListNotations.
Open Scope N_scope.

Inductive cl :=
| CUn                      (* unallocated: backing content if there is a backing image, else zeros *)
| CZero                    (* zero flag, no host cluster *)
| CZeroPre (h : N)         (* zero flag with a preallocated host cluster h *)
| CData (h : N)            (* uncompressed data in host cluster h *)
| CComp (h k : N).         (* compressed; its bytes touch host clusters h .. h+k-1 *)

Record cfg := {
  c_bpc : N;               (* blocks per cluster *)
  c_nclu : N;              (* number of guest clusters *)
  c_vblocks : N;           (* virtual size in blocks *)
  c_backing : bool;
  c_v2 : bool;             (* version 2 image: no zero flag *)
  c_back : N -> N;         (* content of the backing chain per absolute block (0 beyond its end) *)
  c_comp : N -> N -> N     (* decompressed content of a compressed guest cluster: cluster -> block index -> value *)
}.

Record st := {
  s_map : N -> cl;
  s_rc : N -> N;
  s_meta : N -> bool;      (* host clusters owned by header / L1 / refcount table / refcount blocks / L2 tables *)
  s_host : N -> N -> N     (* host cluster -> block index -> value *)
}.

Definition upd {A} (f : N -> A) (k : N) (v : A) : N -> A := fun x => if x =? k then v else f x.

Definition touches (c : cl) (h : N) : bool :=
  match c with
  | CData h' | CZeroPre h' => h =? h'
  | CComp h0 k => (h0 <=? h) && (h <? h0 + k)
  | _ => false
  end.

Definition read_block (c : cfg) (s : st) (b : N) : N :=
  let gc := b / c_bpc c in
  let i := b mod c_bpc c in
  match s_map s gc with
  | CUn => if c_backing c then c_back c b else 0
  | CZero | CZeroPre _ => 0
  | CData h => s_host s h i
  | CComp _ _ => c_comp c gc i
  end.

Fixpoint seqN (s : N) (n : nat) : list N :=
  match n with O => [] | S n' => s :: seqN (N.succ s) n' end.

Definition read (c : cfg) (s : st) (off len : N) : list N :=
  map (read_block c s) (seqN off (N.to_nat len)).

Definition free (s : st) (h : N) : bool := (s_rc s h =? 0) && negb (s_meta s h).

Definition inr (off len b : N) : bool := (off <=? b) && (b <? off + len).

(* release one reference on each of the k host clusters starting at h0 *)
Fixpoint dec_run (rc : N -> N) (h0 : N) (k : nat) : N -> N :=
  match k with
  | O => rc
  | S k' => dec_run (upd rc h0 (rc h0 - 1)) (N.succ h0) k'
  end.

(* content of a cluster that becomes an uncompressed data cluster: the written blocks, the rest from `old` *)
Definition fill (c : cfg) (gc off len : N) (v old : N -> N) : N -> N :=
  fun i => let b := gc * c_bpc c + i in if inr off len b then v b else old i.

Definition write_cluster (c : cfg) (s : st) (gc off len : N) (v : N -> N) (hn : N) : option st :=
  match s_map s gc with
  | CData h =>
      Some {| s_map := s_map s; s_rc := s_rc s; s_meta := s_meta s;
              s_host := upd (s_host s) h (fill c gc off len v (s_host s h)) |}
  | CZeroPre h =>
      Some {| s_map := upd (s_map s) gc (CData h); s_rc := s_rc s; s_meta := s_meta s;
              s_host := upd (s_host s) h (fill c gc off len v (fun _ => 0)) |}
  | CZero =>
      if free s hn then
        Some {| s_map := upd (s_map s) gc (CData hn); s_rc := upd (s_rc s) hn 1; s_meta := s_meta s;
                s_host := upd (s_host s) hn (fill c gc off len v (fun _ => 0)) |}
      else None
  | CUn =>
      if free s hn then
        Some {| s_map := upd (s_map s) gc (CData hn); s_rc := upd (s_rc s) hn 1; s_meta := s_meta s;
                s_host := upd (s_host s) hn
                            (fill c gc off len v (fun i => if c_backing c then c_back c (gc * c_bpc c + i) else 0)) |}
      else None
  | CComp h0 k =>
      if free s hn then
        Some {| s_map := upd (s_map s) gc (CData hn);
                s_rc := dec_run (upd (s_rc s) hn 1) h0 (N.to_nat k);
                s_meta := s_meta s;
                s_host := upd (s_host s) hn (fill c gc off len v (c_comp c gc)) |}
      else None
  end.

Fixpoint write_clusters (c : cfg) (s : st) (gcs : list N) (off len : N) (v ch : N -> N) : option st :=
  match gcs with
  | [] => Some s
  | gc :: r =>
      match write_cluster c s gc off len v (ch gc) with
      | Some s' => write_clusters c s' r off len v ch
      | None => None
      end
  end.

(* write of len > 0 blocks at block off (off + len <= c_vblocks is the caller's argument check, C13) *)
Definition clusters_of (c : cfg) (off len : N) : list N :=
  if len =? 0 then []
  else seqN (off / c_bpc c) (N.to_nat ((off + len - 1) / c_bpc c - off / c_bpc c + 1)).

Definition write (c : cfg) (s : st) (off len : N) (v ch : N -> N) : option st :=
  write_clusters c s (clusters_of c off len) off len v ch.

(* metadata growth observed on the file: a free cluster becomes a metadata cluster *)
Definition grow (s : st) (h : N) : option st :=
  if free s h then
    Some {| s_map := s_map s; s_rc := upd (s_rc s) h 1; s_meta := upd (s_meta s) h true; s_host := s_host s |}
  else None.

Definition discard_cluster (c : cfg) (s : st) (gc : N) : st :=
  match s_map s gc with
  | CData h =>
      if c_backing c then
        if c_v2 c then
          {| s_map := s_map s; s_rc := s_rc s; s_meta := s_meta s; s_host := upd (s_host s) h (fun _ => 0) |}
        else
          {| s_map := upd (s_map s) gc CZero; s_rc := upd (s_rc s) h (s_rc s h - 1); s_meta := s_meta s; s_host := s_host s |}
      else
        {| s_map := upd (s_map s) gc CUn; s_rc := upd (s_rc s) h (s_rc s h - 1); s_meta := s_meta s; s_host := s_host s |}
  | CZeroPre h =>
      {| s_map := upd (s_map s) gc (if c_backing c then CZero else CUn);
         s_rc := upd (s_rc s) h (s_rc s h - 1); s_meta := s_meta s; s_host := s_host s |}
  | _ => s
  end.

(* whole clusters inside [off, off+len) clipped to the virtual size; everything in blocks *)
Definition discard_range (c : cfg) (off len : N) : N * N :=
  let e := N.min (off + len) (c_vblocks c) in
  let start := (off + c_bpc c - 1) / c_bpc c in
  let stop := e / c_bpc c in
  (start, stop).

Definition discard (c : cfg) (s : st) (off len : N) : st :=
  let '(start, stop) := discard_range c off len in
  if (len =? 0) || (stop <=? start) then s
  else fold_left (discard_cluster c) (seqN start (N.to_nat (stop - start))) s.

(* ---- operations and runs ---- *)
Inductive op :=
| OWrite (off len : N) (v ch : N -> N)
| ODiscard (off len : N)
| OGrow (h : N).

Definition step (c : cfg) (s : st) (o : op) : option st :=
  match o with
  | OWrite off len v ch => write c s off len v ch
  | ODiscard off len => Some (discard c s off len)
  | OGrow h => grow s h
  end.

Fixpoint run (c : cfg) (s : st) (ops : list op) : option st :=
  match ops with
  | [] => Some s
  | o :: r => match step c s o with Some s' => run c s' r | None => None end
  end.

(* ---- executable invariant check over a finite window (used on the initial state) ---- *)
Fixpoint cntb (f : N -> bool) (s : N) (n : nat) : N :=
  match n with O => 0 | S n' => (if f s then 1 else 0) + cntb f (N.succ s) n' end.

Definition drefs (c : cfg) (s : st) (h : N) : N :=
  cntb (fun gc => touches (s_map s gc) h) 0 (N.to_nat (c_nclu c)) + (if s_meta s h then 1 else 0).

(* ---- states built from finite tables (what the correspondence check loads from an image file) ---- *)
Definition nthN {A} (l : list A) (d : A) (i : N) : A := nth (N.to_nat i) l d.

Definition mk_state (maps : list cl) (rcs : list N) (metas : list bool) (host : N -> N -> N) : st :=
  {| s_map := nthN maps CUn; s_rc := nthN rcs 0; s_meta := nthN metas false; s_host := host |}.

Definition bound_ok (H : N) (x : cl) : bool :=
  match x with
  | CData h | CZeroPre h => h <? H
  | CComp h0 k => h0 + k <=? H
  | _ => true
  end.

Definition one_ok (s : st) (gc : N) : bool :=
  match s_map s gc with
  | CData h | CZeroPre h => s_rc s h =? 1
  | _ => true
  end.

Definition invb (c : cfg) (maps : list cl) (rcs : list N) (metas : list bool) : bool :=
  let s := mk_state maps rcs metas (fun _ _ => 0) in
  let H := N.of_nat (length rcs) in
  (N.of_nat (length maps) <=? c_nclu c) && (N.of_nat (length metas) <=? H) && forallb (bound_ok H) maps &&
  forallb (fun h => s_rc s h =? drefs c s h) (seqN 0 (length rcs)) &&
  forallb (one_ok s) (seqN 0 (N.to_nat (c_nclu c))).
