(* Hand model of the pure layer of qcow2-rs (src/meta/*.rs, src/dev/info.rs, HostCluster in
   src/dev/alloc.rs, src/helpers.rs).  Definitions only; written the way the Rust is written
   (masks and shifts on u64 values represented as N).  Gen/GenEq.v re-proves, on every run,
   that the functions regenerated from /repo's sources evaluate to these. *)
From Coq Require Import NArith List Bool.
Import ListNotations.
Open Scope N_scope.

Definition shl64 (a b : N) : N := N.shiftl a b mod 2 ^ 64.
Definition shl32 (a b : N) : N := N.shiftl a b mod 2 ^ 32.

(* ---------- L1 / reftable entries (src/meta/l1.rs, src/meta/refcount.rs) ---------- *)
Definition OFF_MASK : N := 0x00fffffffffffe00.
Definition l1_l2_offset (v : N) : N := N.land v OFF_MASK.
Definition l1_is_copied (v : N) : bool := negb (N.land v (N.shiftl 1 63) =? 0).
Definition l1_is_zero (v : N) : bool := l1_l2_offset v =? 0.
Definition l1_reserved_bits (v : N) : N := N.land v 0x7f000000000001fe.

Definition rt_refblock_offset (v : N) : N := N.land v 0xfffffffffffffe00.
Definition rt_is_zero (v : N) : bool := rt_refblock_offset v =? 0.
Definition rt_reserved_bits (v : N) : N := N.land v 0x1ff.

(* ---------- L2 entries (src/meta/l2.rs) ---------- *)
Definition l2_cluster_offset (v : N) : N := N.land v OFF_MASK.
Definition l2_is_compressed (v : N) : bool := negb (N.land v (N.shiftl 1 62) =? 0).
Definition l2_is_copied (v : N) : bool := negb (N.land v (N.shiftl 1 63) =? 0).
Definition l2_is_zero (v : N) : bool := negb (N.land v (N.shiftl 1 0) =? 0).
Definition l2_reserved_bits (v : N) : N :=
  if l2_is_compressed v then N.land v 0x8000000000000000 else N.land v 0x3f000000000001fe.
Definition l2_compressed_descriptor (v : N) : N := N.land v 0x3fffffffffffffff.

Definition l2_compressed_range (cb v : N) : option (N * N) :=
  if l2_is_compressed v then
    let desc := l2_compressed_descriptor v in
    let cob := 62 - (cb - 8) in
    let offset := N.land (N.land desc (N.shiftl 1 cob mod 2 ^ 64 - 1)) 0x00ffffffffffffff in
    let sectors := N.shiftr desc cob in
    let length := (sectors + 1) * 512 - N.land offset 511 in
    Some (offset, length)
  else None.

Definition l2_allocation (cb v : N) : option (N * N) :=
  match l2_compressed_range cb v with
  | Some (offset, length) =>
      let cs := N.shiftl 1 cb mod 2 ^ 64 in
      let base := N.land offset (2 ^ 64 - 1 - (cs - 1)) in
      let clusters := N.shiftr (offset + length + cs - 1 - base) cb in
      Some (base, clusters)
  | None => if l2_cluster_offset v =? 0 then None else Some (l2_cluster_offset v, 1)
  end.

(* MappingSource, in declaration order *)
Definition SRC_DATA : N := 0.
Definition SRC_BACKING : N := 1.
Definition SRC_ZERO : N := 2.
Definition SRC_COMPRESSED : N := 3.
Definition SRC_UNALLOC : N := 4.

Record mapping := {
  m_source : N;
  m_offset : option N;
  m_clen : option N;
  m_copied : bool
}.

(* ---------- geometry (src/dev/info.rs) ---------- *)
Record info := {
  block_size_shift : N;
  cluster_shift : N;
  l2_index_shift : N;
  l2_slice_index_shift : N;
  l2_slice_bits : N;
  refcount_order : N;
  rb_slice_bits : N;
  rb_index_shift : N;
  rb_slice_index_shift : N;
  flags : N;
  l2_slice_entries : N;
  in_cluster_offset_mask : N;
  l2_index_mask : N;
  rb_index_mask : N;
  l2_cache_cnt : N;
  rb_cache_cnt : N;
  virtual_size : N
}.

Definition FLAG_RO : N := 1.
Definition FLAG_HAS_BACK : N := 2.
Definition FLAG_BACK : N := 4.
Definition is_read_only (i : info) : bool := negb (N.land (flags i) FLAG_RO =? 0).
Definition has_back_file (i : info) : bool := negb (N.land (flags i) FLAG_HAS_BACK =? 0).
Definition is_back_file (i : info) : bool := negb (N.land (flags i) FLAG_BACK =? 0).

Definition cluster_size (i : info) : N := shl64 1 (cluster_shift i).
Definition rb_entries (i : info) : N := N.shiftr (shl64 (cluster_size i) 3) (refcount_order i).
Definition l2_entries (i : info) : N := cluster_size i / 8.
Definition rb_slice_entries (i : info) : N :=
  N.shiftr (shl32 1 (rb_slice_bits i + 3)) (refcount_order i).
Definition in_cluster_offset (i : info) (off : N) : N := N.land off (in_cluster_offset_mask i).
Definition cluster_round_down (i : info) (off : N) : N :=
  N.land off (2 ^ 64 - 1 - in_cluster_offset_mask i).
Definition cluster_round_up (i : info) (off : N) : N :=
  cluster_round_down i (off + in_cluster_offset_mask i).

(* SplitGuestOffset (src/meta/addr.rs) *)
Definition sg_l1_index (i : info) (g : N) : N := N.shiftr g (cluster_shift i + l2_index_shift i).
Definition sg_l2_index (i : info) (g : N) : N := N.land (N.shiftr g (cluster_shift i)) (l2_index_mask i).
Definition sg_l2_slice_index (i : info) (g : N) : N :=
  N.land (N.shiftr g (cluster_shift i)) (l2_slice_entries i - 1).
Definition sg_l2_slice_key (i : info) (g : N) : N :=
  N.shiftr g (cluster_shift i + l2_slice_index_shift i).
Definition sg_l2_slice_off_in_table (i : info) (g : N) : N :=
  shl64 (N.shiftr (sg_l2_index i g) (l2_slice_index_shift i)) (l2_slice_bits i).
Definition sg_in_cluster_offset (i : info) (g : N) : N := N.land g (in_cluster_offset_mask i).
Definition sg_cluster_offset (i : info) (g : N) : N :=
  shl64 (shl64 (sg_l1_index i g) (cluster_shift i - 3) + sg_l2_index i g) (cluster_shift i).

(* HostCluster (src/dev/alloc.rs) *)
Definition hc_rt_index (i : info) (h : N) : N := N.shiftr h (rb_index_shift i + cluster_shift i).
Definition hc_rb_index (i : info) (h : N) : N := N.land (N.shiftr h (cluster_shift i)) (rb_index_mask i).
Definition hc_rb_slice_index (i : info) (h : N) : N :=
  N.land (N.shiftr h (cluster_shift i)) (rb_slice_entries i - 1).
Definition hc_rb_slice_key (i : info) (h : N) : N :=
  N.shiftr h (cluster_shift i + rb_slice_index_shift i).
Definition hc_rb_slice_host_start (i : info) (h : N) : N :=
  N.land h (2 ^ 64 - 1 - (shl64 1 (cluster_shift i + rb_slice_index_shift i) - 1)).
Definition hc_rb_slice_host_end (i : info) (h : N) : N :=
  hc_rb_slice_host_start i h + shl64 (rb_slice_entries i) (cluster_shift i).
Definition hc_rb_host_start (i : info) (h : N) : N :=
  N.land h (2 ^ 64 - 1 - (shl64 1 (cluster_shift i + rb_index_shift i) - 1)).
Definition hc_rb_host_end (i : info) (h : N) : N :=
  hc_rb_host_start i h + shl64 (rb_entries i) (cluster_shift i).
Definition hc_rb_slice_off_in_table (i : info) (h : N) : N :=
  shl64 (N.shiftr (hc_rb_index i h) (rb_slice_index_shift i)) (rb_slice_bits i).
Definition hc_cluster_off_from_slice (i : info) (h idx : N) : N :=
  hc_rb_slice_host_start i h + shl64 idx (cluster_shift i).

(* into_mapping / from_mapping *)
Definition l2_into_mapping (i : info) (v guest : N) : mapping :=
  match l2_compressed_range (cluster_shift i) v with
  | Some (offset, length) =>
      {| m_source := SRC_COMPRESSED; m_offset := Some offset; m_clen := Some length; m_copied := false |}
  | None =>
      if l2_is_zero v then
        let off := if l2_cluster_offset v =? 0 then None else Some (l2_cluster_offset v) in
        {| m_source := SRC_ZERO; m_offset := off; m_clen := None;
           m_copied := (match off with Some _ => true | None => false end) && l2_is_copied v |}
      else if l2_cluster_offset v =? 0 then
        if l2_is_copied v || has_back_file i then
          {| m_source := SRC_BACKING; m_offset := Some (sg_cluster_offset i guest); m_clen := None; m_copied := false |}
        else
          {| m_source := SRC_UNALLOC; m_offset := Some 0; m_clen := None; m_copied := false |}
      else
        {| m_source := SRC_DATA; m_offset := Some (l2_cluster_offset v); m_clen := None; m_copied := l2_is_copied v |}
  end.

(* from_mapping; meaningful under [from_mapping_pre] (outside it the Rust code panics:
   unwrap of None, assert!, debug_assert!) *)
Definition l2_from_mapping (cb : N) (m : mapping) : N :=
  let off0 := match m_offset m with Some o => o | None => 0 end in
  if m_source m =? SRC_DATA then
    (if m_copied m then N.lor (N.shiftl 1 63) off0 else off0)
  else if m_source m =? SRC_BACKING then 0
  else if m_source m =? SRC_ZERO then
    (if m_copied m then N.lor (N.lor (N.shiftl 1 63) off0) 1 else N.lor off0 1)
  else if m_source m =? SRC_COMPRESSED then
    let len := match m_clen m with Some l => l | None => 0 end in
    let cob := 62 - (cb - 8) in
    let sectors := (len - 1 + N.land off0 511) / 512 in
    N.lor (N.lor (N.shiftl 1 62) (N.shiftl sectors cob mod 2 ^ 64)) off0
  else 0.

Definition m_plain_offset (m : mapping) (in_cluster : N) : option N :=
  if (m_source m =? SRC_DATA) && m_copied m
  then match m_offset m with Some o => Some (o + in_cluster) | None => None end
  else None.

(* IntAlignment (src/helpers.rs), on u64/usize *)
Definition align_down (v a : N) : N := N.land v (2 ^ 64 - 1 - (a - 1)).
Definition align_up (v a : N) : option N :=
  if N.land v (a - 1) =? 0 then Some v
  else if N.lor v (a - 1) + 1 <? 2 ^ 64 then Some (N.lor v (a - 1) + 1) else None.

(* geometry helpers used by the formatter and Qcow2Dev::new *)
Definition max_l1_entries (size cb l2e : N) : N :=
  N.min ((size + N.shiftl l2e cb - 1) / N.shiftl l2e cb) (33554432 / 8).
Definition get_max_l1_entries (size cb : N) : N := max_l1_entries size cb (2 ^ cb / 8).
Definition max_l1_size (entries bs : N) : option N := align_up (entries * 8) bs.
Definition max_refcount_table_size (size cs ro bs : N) : option N :=
  let rbe := cs * 8 / 2 ^ ro in
  let per := rbe * cs in
  let ents := (size + per - 1) / per in
  match align_up (ents * 8) bs with
  | Some s => Some (N.min s 8388608)
  | None => None
  end.

(* Qcow2Info::new: the derived fields, for slice geometry (l2sb, l2cnt) / (rbsb, rbcnt) as
   cache_geometry returns them.  Meaningful under the geometry hypotheses of GenEq. *)
Definition cache_geometry (param : option (N * N)) (default_bytes : N) : N * N :=
  match param with
  | Some (b, s) => (b, N.shiftr s b)
  | None => (12, N.max (N.shiftr default_bytes 12) 2)
  end.

Definition info_flags (read_only has_backing backing : bool) : N :=
  N.lor (N.lor (if read_only then 1 else 0) (if has_backing then 2 else 0)) (if backing then 4 else 0).

Definition info_of (cb ro size bs l2sb l2cnt rbsb rbcnt fl : N) : info :=
  let cs := 2 ^ cb in
  let l2e := cs / 8 in
  let l2se := N.shiftr l2e (cb - l2sb) in
  let rbe := cs * 8 / 2 ^ ro in
  let rbse := N.shiftr (N.shiftl 1 (rbsb + 3)) ro in
  {| block_size_shift := bs;
     cluster_shift := cb;
     l2_index_shift := cb - 3;
     l2_slice_index_shift := l2sb - 3;
     l2_slice_bits := l2sb;
     refcount_order := ro;
     rb_slice_bits := rbsb;
     rb_index_shift := cb + 3 - ro;
     rb_slice_index_shift := rbsb + 3 - ro;
     flags := fl;
     l2_slice_entries := l2se;
     in_cluster_offset_mask := cs - 1;
     l2_index_mask := l2e - 1;
     rb_index_mask := rbe - 1;
     l2_cache_cnt := l2cnt;
     rb_cache_cnt := rbcnt;
     virtual_size := size |}.

Definition info_new (cb ro size : N) (has_backing : bool) (bs : N) (rbc l2c : option (N * N))
    (read_only backing : bool) : info :=
  let l2_mapping_bytes := N.min (N.shiftr size (cb - 3)) 33554432 in
  let '(l2sb, l2cnt) := cache_geometry l2c l2_mapping_bytes in
  let '(rbsb, rbcnt) := cache_geometry rbc 262144 in
  info_of cb ro size bs l2sb l2cnt rbsb rbcnt (info_flags read_only has_backing backing).

(* ---------- refcount blocks (src/meta/refcount.rs), a slice as a list of bytes ---------- *)
Definition byte_at (l : list N) (i : N) : N := nth (N.to_nat i) l 0.

Fixpoint upd_nat (l : list N) (i : nat) (v : N) : list N :=
  match l, i with
  | [], _ => []
  | _ :: t, O => v :: t
  | h :: t, S k => h :: upd_nat t k v
  end.
Definition upd (l : list N) (i v : N) : list N := upd_nat l (N.to_nat i) v.

Definition rb_get (ro : N) (l : list N) (idx : N) : N :=
  match ro with
  | 0 => N.land (N.shiftr (byte_at l (idx / 8)) (idx mod 8)) 1
  | 1 => N.land (N.shiftr (byte_at l (idx / 4)) (idx mod 4 * 2)) 3
  | 2 => N.land (N.shiftr (byte_at l (idx / 2)) (idx mod 2 * 4)) 15
  | 3 => byte_at l idx
  | 4 => byte_at l (idx * 2) * 256 + byte_at l (idx * 2 + 1)
  | 5 => byte_at l (idx * 4) * 16777216 + byte_at l (idx * 4 + 1) * 65536
         + byte_at l (idx * 4 + 2) * 256 + byte_at l (idx * 4 + 3)
  | _ => byte_at l (idx * 8) * 72057594037927936 + byte_at l (idx * 8 + 1) * 281474976710656
         + byte_at l (idx * 8 + 2) * 1099511627776 + byte_at l (idx * 8 + 3) * 4294967296
         + byte_at l (idx * 8 + 4) * 16777216 + byte_at l (idx * 8 + 5) * 65536
         + byte_at l (idx * 8 + 6) * 256 + byte_at l (idx * 8 + 7)
  end.

Definition rb_fits (ro v : N) : bool := (6 <=? ro) || (v <? 2 ^ (2 ^ ro)).

(* sub-byte update exactly as the Rust computes it, in u8 arithmetic *)
Definition sub_set (old v width shift : N) : N :=
  N.lor (N.land old (255 - (N.shiftl (2 ^ width - 1) shift mod 256))) (N.shiftl (v mod 256) shift mod 256).

Definition rb_set (ro : N) (l : list N) (idx v : N) : option (list N) :=
  if negb (rb_fits ro v) then None else
  Some (match ro with
  | 0 => upd l (idx / 8) (sub_set (byte_at l (idx / 8)) v 1 (idx mod 8))
  | 1 => upd l (idx / 4) (sub_set (byte_at l (idx / 4)) v 2 (idx mod 4 * 2))
  | 2 => upd l (idx / 2) (sub_set (byte_at l (idx / 2)) v 4 (idx mod 2 * 4))
  | 3 => upd l idx (v mod 256)
  | 4 => upd (upd l (idx * 2) (v / 256 mod 256)) (idx * 2 + 1) (v mod 256)
  | 5 => upd (upd (upd (upd l (idx * 4) (v / 16777216 mod 256)) (idx * 4 + 1) (v / 65536 mod 256))
                (idx * 4 + 2) (v / 256 mod 256)) (idx * 4 + 3) (v mod 256)
  | _ => upd (upd (upd (upd (upd (upd (upd (upd l
           (idx * 8) (v / 72057594037927936 mod 256)) (idx * 8 + 1) (v / 281474976710656 mod 256))
           (idx * 8 + 2) (v / 1099511627776 mod 256)) (idx * 8 + 3) (v / 4294967296 mod 256))
           (idx * 8 + 4) (v / 16777216 mod 256)) (idx * 8 + 5) (v / 65536 mod 256))
           (idx * 8 + 6) (v / 256 mod 256)) (idx * 8 + 7) (v mod 256)
  end).
