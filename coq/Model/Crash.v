(* Crash model at the level of metadata cells.
   A file is abstracted to refcount cells (one per host cluster) and reference slots (one per 8-byte table entry:
   L1 entries, L2 entries, refcount-table entries, plus pseudo slots for what the header references).  A request log
   is a list of cell writes and syncs.  A crash leaves the durable state plus ANY subset of the writes issued since
   the last completed sync (cell granularity is finer than the 512-byte atomicity unit of the property's crash
   model, so every block-level tearing is one of these subsets).
   `disc` is an executable discipline check on a log; Proofs/CrashProps.v shows that a log it accepts has only safe
   crash states (every cluster's refcount >= number of references to it) - for every prefix and every subset. *)
From Coq Require Import NArith List Bool.
Import ListNotations.
Open Scope N_scope.

Inductive ev :=
| SetRc (h v : N)               (* refcount cell of host cluster h := v *)
| SetSlot (i : N) (t : list N)  (* slot i now references the clusters t ([] = empty entry) *)
| Sync.

Record fs := { rcl : list (N * N); sll : list (N * list N) }.

Fixpoint alookup {A} (d : A) (l : list (N * A)) (k : N) : A :=
  match l with
  | [] => d
  | (k', v) :: t => if N.eqb k k' then v else alookup d t k
  end.

Definition get_rc (s : fs) (h : N) : N := alookup 0 (rcl s) h.
Definition get_sl (s : fs) (i : N) : list N := alookup [] (sll s) i.

Definition apply1 (s : fs) (e : ev) : fs :=
  match e with
  | SetRc h v => {| rcl := (h, v) :: rcl s; sll := sll s |}
  | SetSlot i t => {| rcl := rcl s; sll := (i, t) :: sll s |}
  | Sync => s
  end.

(* the writes of P selected by the mask reach the file (in issue order), the others are lost *)
Fixpoint apply_masked (s : fs) (P : list ev) (m : list bool) : fs :=
  match P, m with
  | e :: P', b :: m' => apply_masked (if b then apply1 s e else s) P' m'
  | _, _ => s
  end.

Definition apply_all (s : fs) (P : list ev) : fs := fold_left apply1 P s.

Fixpoint occ (h : N) (t : list N) : N :=
  match t with
  | [] => 0
  | x :: t' => (if N.eqb x h then 1 else 0) + occ h t'
  end.

Fixpoint sumN {A} (f : A -> N) (l : list A) : N :=
  match l with
  | [] => 0
  | x :: t => f x + sumN f t
  end.

Section Dom.
  Variable dom : list N.   (* the slots of the image *)

  Definition crefs (s : fs) (h : N) : N := sumN (fun i => occ h (get_sl s i)) dom.

  Definition safe (s : fs) : Prop := forall h, crefs s h <= get_rc s h.

  (* bounds over all crash states of (durable s, pending P) *)
  Definition rc_min (s : fs) (P : list ev) (h : N) : N :=
    fold_left (fun m e => match e with SetRc h' v => if N.eqb h' h then N.min m v else m | _ => m end) P (get_rc s h).

  Definition maxocc (s : fs) (P : list ev) (i h : N) : N :=
    fold_left (fun m e => match e with SetSlot i' t => if N.eqb i' i then N.max m (occ h t) else m | _ => m end) P
              (occ h (get_sl s i)).

  Definition refs_max (s : fs) (P : list ev) (h : N) : N := sumN (fun i => maxocc s P i h) dom.

  Definition chk (s : fs) (P : list ev) (h : N) : bool := refs_max s P h <=? rc_min s P h.

  Definition step_ok (s : fs) (P : list ev) (e : ev) : bool :=
    match e with
    | SetRc h _ => chk s (P ++ [e]) h
    | SetSlot i t => forallb (chk s (P ++ [e])) t
    | Sync => true
    end.

  Fixpoint disc (s : fs) (P : list ev) (evs : list ev) : bool :=
    match evs with
    | [] => true
    | Sync :: r => disc (apply_all s P) [] r
    | e :: r => step_ok s P e && disc s (P ++ [e]) r
    end.

  (* (durable, pending) after a prefix of the log *)
  Fixpoint crun (s : fs) (P : list ev) (evs : list ev) : fs * list ev :=
    match evs with
    | [] => (s, P)
    | Sync :: r => crun (apply_all s P) [] r
    | e :: r => crun s (P ++ [e]) r
    end.

  Definition targets (s : fs) : list N := flat_map (get_sl s) dom.

  Definition init_ok (s : fs) : bool := forallb (fun h => crefs s h <=? get_rc s h) (targets s).

  Definition disciplined (s : fs) (evs : list ev) : bool := init_ok s && disc s [] evs.
End Dom.
