(* Abstract model of metadata write-back: cached slices with a dirty mark, the need-flush flag, write-back by
   flush_meta or by eviction, each write possibly failing.  `unsynced k` = the cached content of slice k differs from
   the file.  The invariants are what C02 / C17 / C18 need:
     I1  a slice that differs from the file is marked dirty (no update is forgotten, a failed write keeps its mark);
     I2  if anything is dirty the flag is set.
   Tie to the code: the hook Qcow2Dev::verif_dirty_counts (cfg qcow2_rs_verif) lets the checks observe "flag false =>
   nothing dirty" and "after a successful flush_meta nothing dirty" at every quiescent point; "differs from the file"
   is observed by reopening the file. *)
From Coq Require Import NArith List Bool.
Import ListNotations.
Open Scope N_scope.

Record fst_ := { unsynced : N -> bool; dirty : N -> bool; flag : bool }.

Definition setb (f : N -> bool) (k : N) (v : bool) : N -> bool := fun x => if x =? k then v else f x.
Definition clear_all (f : N -> bool) (ks : list N) : N -> bool := fun x => if existsb (N.eqb x) ks then false else f x.

Inductive fop :=
| FUpdate (k : N)                       (* an operation changes slice k in the cache *)
| FFlushOk                              (* flush_meta: every dirty slice written *)
| FFlushFail (written : list N)         (* flush_meta: the slices in `written` reached the file, then a write failed *)
| FEvictOk (k : N)                      (* eviction write-back of slice k succeeded *)
| FEvictFail (k : N).                   (* eviction write-back failed: the slice is put back dirty *)

Definition fstep (s : fst_) (o : fop) : fst_ :=
  match o with
  | FUpdate k => {| unsynced := setb (unsynced s) k true; dirty := setb (dirty s) k true; flag := true |}
  | FFlushOk => {| unsynced := fun k => if dirty s k then false else unsynced s k; dirty := fun _ => false; flag := false |}
  | FFlushFail w =>
      {| unsynced := fun k => if dirty s k && existsb (N.eqb k) w then false else unsynced s k;
         dirty := fun k => if existsb (N.eqb k) w then false else dirty s k;
         flag := true |}
  | FEvictOk k =>
      {| unsynced := if dirty s k then setb (unsynced s) k false else unsynced s; dirty := setb (dirty s) k false; flag := flag s |}
  | FEvictFail k => {| unsynced := unsynced s; dirty := dirty s; flag := if dirty s k then true else flag s |}
  end.

Definition frun (s : fst_) (ops : list fop) : fst_ := fold_left fstep ops s.
Definition finit : fst_ := {| unsynced := fun _ => false; dirty := fun _ => false; flag := false |}.
