(* Abstract model of metadata write-back: cached slices with a dirty mark, the need-flush flag, write-back by
   flush_meta or by eviction, each write possibly failing.  `unsynced k` = the cached content of slice k differs from
   the file.  The invariants are what C02 / C17 / C18 need:
     I1  a slice that differs from the file is marked dirty (no update is forgotten, a failed write keeps its mark);
     I2  if anything is dirty the flag is set.
   Tie to the code: the hook Qcow2Dev::verif_dirty_counts (cfg qcow2_rs_verif) lets the checks observe "flag false =>
   nothing dirty" and "after a successful flush_meta nothing dirty" at every quiescent point; "differs from the file"
   is observed by reopening the file. *)
From Coq Require Import NArith List Bool.
Import ListNotations.
Open Scope N_scope.

Record fst_ := { unsynced : N -> bool; dirty : N -> bool; flag : bool }.

Definition setb (f : N -> bool) (k : N) (v : bool) : N -> bool := fun x => if x =? k then v else f x.
Definition clear_all (f : N -> bool) (ks : list N) : N -> bool := fun x => if existsb (N.eqb x) ks then false else f x.

Inductive fop :=
| FUpdate (k : N)                       (* an operation changes slice k in the cache *)
| FFlushOk                              (* flush_meta: every dirty slice written *)
| FFlushFail (written : list N)         (* flush_meta: the slices in `written` reached the file, then a write failed *)
| FEvictOk (k : N)                      (* eviction write-back of slice k succeeded *)
| FEvictFail (k : N).                   (* eviction write-back failed: the slice is put back dirty *)

Definition fstep (s : fst_) (o : fop) : fst_ :=
  match o with
  | FUpdate k => {| unsynced := setb (unsynced s) k true; dirty := setb (dirty s) k true; flag := true |}
  | FFlushOk => {| unsynced := fun k => if dirty s k then false else unsynced s k; dirty := fun _ => false; flag := false |}
  | FFlushFail w =>
      {| unsynced := fun k => if dirty s k && existsb (N.eqb k) w then false else unsynced s k;
         dirty := fun k => if existsb (N.eqb k) w then false else dirty s k;
         flag := true |}
  | FEvictOk k =>
      {| unsynced := if dirty s k then setb (unsynced s) k false else unsynced s; dirty := setb (dirty s) k false; flag := flag s |}
  | FEvictFail k => {| unsynced := unsynced s; dirty := dirty s; flag := if dirty s k then true else flag s |}
  end.

Definition frun (s : fst_) (ops : list fop) : fst_ := fold_left fstep ops s.
Definition finit : fst_ := {| unsynced := fun _ => false; dirty := fun _ => false; flag := false |}.

(* Content-carrying refinement of the same model (C02): `mem k` is what the running device reads for slice k (its
   cache where cached, else the file), `file k` is what a freshly opened device reads.  Eviction drops the cached
   copy, so after a successful eviction write-back `mem` is unchanged because the file now holds the value; a failed
   write-back keeps the slice cached and dirty. *)
Record cst := { mem : N -> N; file : N -> N; cdirty : N -> bool; cflag : bool }.

Definition setn (f : N -> N) (k v : N) : N -> N := fun x => if x =? k then v else f x.

Inductive cop :=
| CUpdate (k v : N)
| CFlushOk
| CFlushFail (written : list N)
| CEvictOk (k : N)
| CEvictFail (k : N).

Definition cstep (s : cst) (o : cop) : cst :=
  match o with
  | CUpdate k v => {| mem := setn (mem s) k v; file := file s; cdirty := setb (cdirty s) k true; cflag := true |}
  | CFlushOk => {| mem := mem s; file := fun k => if cdirty s k then mem s k else file s k;
                   cdirty := fun _ => false; cflag := false |}
  | CFlushFail w =>
      {| mem := mem s; file := fun k => if cdirty s k && existsb (N.eqb k) w then mem s k else file s k;
         cdirty := fun k => if existsb (N.eqb k) w then false else cdirty s k; cflag := true |}
  | CEvictOk k =>
      {| mem := mem s; file := if cdirty s k then setn (file s) k (mem s k) else file s;
         cdirty := setb (cdirty s) k false; cflag := cflag s |}
  | CEvictFail k => {| mem := mem s; file := file s; cdirty := cdirty s; cflag := if cdirty s k then true else cflag s |}
  end.

Definition crun_ (s : cst) (ops : list cop) : cst := fold_left cstep ops s.
Definition cinit (f : N -> N) : cst := {| mem := f; file := f; cdirty := fun _ => false; cflag := false |}.

(* the flat reference for `mem`: the initial content overlaid with the updates in order *)
Fixpoint cref (f : N -> N) (ops : list cop) : N -> N :=
  match ops with
  | [] => f
  | CUpdate k v :: r => cref (setn f k v) r
  | _ :: r => cref f r
  end.
