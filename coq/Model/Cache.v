(* Model of the slice cache (src/cache.rs AsyncLruCache) as the device uses it: load (two-phase insert
   + commit with eviction), references held by users, dirty flag, lookup (LRU stamp), shrink.
   Ties in the LRU stamp are broken by hash-map order in the code, so the evicted keys are an input
   (what the implementation did) that the model validates: each victim must be unused and have the
   smallest stamp among the unused entries, and eviction must go on exactly as long as the cache is
   over its limit and an unused entry exists. *)
From Coq Require Import NArith List Bool.
Import ListNotations.
Open Scope N_scope.

Record ent := { e_key : N; e_lru : N; e_hold : N; e_dirty : bool }.
Record cst := { c_ents : list ent; c_timer : N; c_limit : N }.

Definition has (s : cst) (k : N) : bool := existsb (fun e => e_key e =? k) (c_ents s).
Definition find (s : cst) (k : N) : option ent := List.find (fun e => e_key e =? k) (c_ents s).
Definition remove_key (l : list ent) (k : N) : list ent := filter (fun e => negb (e_key e =? k)) l.
Definition unused (e : ent) : bool := e_hold e =? 0.
Definition len (s : cst) : N := N.of_nat (length (c_ents s)).

(* k may be evicted now: cached, unused, and no unused entry has a smaller stamp *)
Definition evictable (l : list ent) (k : N) : bool :=
  match List.find (fun e => e_key e =? k) l with
  | Some e => unused e && forallb (fun o => negb (unused o) || (e_lru e <=? e_lru o)) l
  | None => false
  end.

(* commit: `w` entries are about to be inserted; evs = the victims (as a set, any order): at every
   step some remaining victim must be evictable *)
Fixpoint evict_n (n : nat) (l : list ent) (limit w : N) (evs : list N) : option (list ent) :=
  match evs with
  | [] =>
      (* the code stops only when within the limit or nothing is unused *)
      if (N.of_nat (length l) + w <=? limit) || forallb (fun e => negb (unused e)) l then Some l else None
  | _ :: _ =>
      match n with
      | O => None
      | S n' =>
          match List.find (evictable l) evs with
          | Some k =>
              if limit <? N.of_nat (length l) + w
              then evict_n n' (remove_key l k) limit w (filter (fun x => negb (x =? k)) evs)
              else None
          | None => None
          end
      end
  end.
Definition evict (l : list ent) (limit w : N) (evs : list N) : option (list ent) :=
  evict_n (length evs) l limit w evs.

Definition touch (s : cst) (k : N) (f : ent -> ent) : cst :=
  if has s k then
    {| c_ents := map (fun e => if e_key e =? k then f {| e_key := e_key e; e_lru := c_timer s + 1; e_hold := e_hold e; e_dirty := e_dirty e |} else e) (c_ents s);
       c_timer := c_timer s + 1; c_limit := c_limit s |}
  else s.

Inductive cop :=
| CLoad (k : N) (evs : list N)
| CHold (k : N)
| CRelease (k : N)
| CDirty (k : N)
| CGet (k : N)
| CShrink.

Definition cstep (s : cst) (o : cop) : option cst :=
  match o with
  | CLoad k evs =>
      if has s k then
        (* the loader holds a reference to the cached entry while it commits *)
        let bump d := map (fun e => if e_key e =? k then {| e_key := e_key e; e_lru := e_lru e; e_hold := d (e_hold e); e_dirty := e_dirty e |} else e) in
        match evict (bump (fun h => h + 1) (c_ents s)) (c_limit s) 0 evs with
        | Some l => Some {| c_ents := bump (fun h => h - 1) l; c_timer := c_timer s; c_limit := c_limit s |}
        | None => None
        end
      else
        match evict (c_ents s) (c_limit s) 1 evs with
        | Some l => Some {| c_ents := l ++ [{| e_key := k; e_lru := 0; e_hold := 0; e_dirty := false |}];
                            c_timer := c_timer s; c_limit := c_limit s |}
        | None => None
        end
  | CHold k => Some (touch s k (fun e => {| e_key := e_key e; e_lru := e_lru e; e_hold := e_hold e + 1; e_dirty := e_dirty e |}))
  | CRelease k =>
      Some {| c_ents := map (fun e => if e_key e =? k then {| e_key := e_key e; e_lru := e_lru e; e_hold := 0; e_dirty := e_dirty e |} else e) (c_ents s);
              c_timer := c_timer s; c_limit := c_limit s |}
  | CDirty k => Some (touch s k (fun e => {| e_key := e_key e; e_lru := e_lru e; e_hold := e_hold e; e_dirty := true |}))
  | CGet k => Some (touch s k (fun e => e))
  | CShrink => Some {| c_ents := filter (fun e => negb (unused e && negb (e_dirty e))) (c_ents s);
                       c_timer := c_timer s; c_limit := c_limit s |}
  end.

(* what commit hands back for write-back: the dirty victims *)
Definition returned (s : cst) (o : cop) : list N :=
  match o with
  | CLoad _ evs => filter (fun k => match find s k with Some e => e_dirty e | None => false end) evs
  | _ => []
  end.

Definition keys (s : cst) : list N := map e_key (c_ents s).

(* ---- running a script against observations: (op, keys afterwards as a set, returned keys as a set) ---- *)
Fixpoint insert_sorted (x : N) (l : list N) : list N :=
  match l with [] => [x] | y :: r => if x <=? y then x :: l else y :: insert_sorted x r end.
Definition sortN (l : list N) : list N := fold_right insert_sorted [] l.
Fixpoint eqlist (a b : list N) : bool :=
  match a, b with [], [] => true | x :: a', y :: b' => (x =? y) && eqlist a' b' | _, _ => false end.

(* first step at which the model refuses or its keys / returned set differ; None = all agree *)
Fixpoint check_script (s : cst) (steps : list (cop * list N * list N)) (i : N) : option N :=
  match steps with
  | [] => None
  | (o, ks, ret) :: r =>
      match cstep s o with
      | None => Some i
      | Some s' =>
          if eqlist (sortN (keys s')) (sortN ks) && eqlist (sortN (returned s o)) (sortN ret)
          then check_script s' r (i + 1) else Some i
      end
  end.

Definition cinit (limit : N) : cst := {| c_ents := []; c_timer := 0; c_limit := limit |}.
