(* verdict of one `rbscan` observation of the harness against the allocator-scan model *)
From Coq Require Import NArith List Bool Arith.
From Q.Model Require Import Alloc.
Import ListNotations.

Definition opt_pair_eqb (a b : option (nat * nat)) : bool :=
  match a, b with
  | None, None => true
  | Some (x, y), Some (u, v) => (x =? u) && (y =? v)
  | _, _ => false
  end.

Fixpoint listN_eqb (a b : list N) : bool :=
  match a, b with [], [] => true | x :: a', y :: b' => N.eqb x y && listN_eqb a' b' | _, _ => false end.

(* 0 = agrees; 1 = get_free_range differs; 2 = get_tail_free_range differs; 3 = alloc_range differs *)
Definition scan_verdict (l : list N) (start count : nat) (fr tl : option (nat * nat)) (alloc_ok : bool) (vals : list N) : N :=
  if negb (opt_pair_eqb (get_free_range l start count) fr) then 1%N
  else if negb (opt_pair_eqb (get_tail_free_range l) tl) then 2%N
  else
    let '(a, b) := match fr with Some r => r | None => (start, start + count) end in
    if alloc_ok && negb (listN_eqb (alloc_range l a (b - a)) vals) then 3%N else 0%N.
