(* C13: the documented argument contract of read_at / write_at / discard as total functions,
   and verdict functions that run the REGENERATED check prefixes (Gen/GenCodec.v) against it. *)
From Coq Require Import NArith List Bool.
From Q.Base Require Import RExpr.
From Q.Model Require Import Codec.
From Q.Gen Require Import GenCodec.
Import ListNotations.
Open Scope N_scope.

(* outcome of the argument checks *)
Inductive chk :=
| CErr                         (* rejected *)
| COk (n : N)                  (* returns Ok(n) at once, nothing else happens *)
| CGo (off len extra : N).     (* proceeds to the mapping code with these values *)

Definition read_contract (vsize : N) (back : bool) (bsb : N) (len off : N) : chk :=
  let mask := 2 ^ bsb - 1 in
  if vsize <=? off then (if back then COk len else CErr)
  else if len =? 0 then COk 0
  else if negb (len mod 2 ^ bsb =? 0) then CErr
  else if negb (off mod 2 ^ bsb =? 0) then CErr
  else if vsize <? off + len then
    let len' := (vsize - off) / 2 ^ bsb * 2 ^ bsb in
    let extra := if back then len - len' else 0 in
    if len' =? 0 then COk extra else CGo off len' extra
  else CGo off len 0.

Definition write_contract (vsize : N) (ro : bool) (bsb : N) (len off : N) : chk :=
  if vsize <? off + len then CErr
  else if negb (len mod 2 ^ bsb =? 0) then CErr
  else if negb (off mod 2 ^ bsb =? 0) then CErr
  else if ro then CErr
  else if len =? 0 then COk 0
  else CGo off len 0.

(* discard: clip to the virtual size with saturating addition, round inward *)
Definition discard_contract (vsize : N) (ro : bool) (cb : N) (off len : N) : chk :=
  if ro then CErr
  else if len =? 0 then COk 0
  else
    let e := N.min (N.min (off + len) (2 ^ 64 - 1)) vsize in
    if e <=? off then COk 0
    else
      let start := (off + 2 ^ cb - 1) / 2 ^ cb * 2 ^ cb in
      let stop := e / 2 ^ cb * 2 ^ cb in
      if stop <=? start then COk 0 else CGo start stop 0.

Definition dev_of (i : info) : value := VTup [v_info i].

(* what the generated prefix computed, as a chk (None = panic / overflow / ill-typed) *)
Definition chk_of_read (r : res) : option chk :=
  match r with
  | Ret (VTup [VInt 0; VRes (inr _)]) => Some CErr
  | Ret (VTup [VInt 0; VRes (inl (VInt n))]) => Some (COk n)
  | Ret (VTup [VInt 1; VInt off; VInt len; VInt extra; VBool _]) => Some (CGo off len extra)
  | _ => None
  end.
Definition chk_of_write (r : res) : option chk :=
  match r with
  | Ret (VTup [VInt 0; VRes (inr _)]) => Some CErr
  | Ret (VTup [VInt 0; VRes (inl (VTup []))]) => Some (COk 0)
  | Ret (VTup [VInt 1; VInt off; VInt len; VBool _]) => Some (CGo off len 0)
  | _ => None
  end.
Definition chk_of_discard (r : res) : option chk :=
  match r with
  | Ret (VTup [VInt 0; VRes (inr _)]) => Some CErr
  | Ret (VTup [VInt 0; VRes (inl (VTup []))]) => Some (COk 0)
  | Ret (VTup [VInt 1; VInt start; VInt stop]) => Some (CGo start stop 0)
  | _ => None
  end.

Definition chk_eqb (a b : chk) : bool :=
  match a, b with
  | CErr, CErr => true
  | COk x, COk y => x =? y
  | CGo a1 a2 a3, CGo b1 b2 b3 => (a1 =? b1) && (a2 =? b2) && (a3 =? b3)
  | _, _ => false
  end.

(* verdicts: 0 = as documented, 1 = differs from the contract, 2 = panic or arithmetic overflow *)
Definition verdict (got : option chk) (want : chk) : N :=
  match got with None => 2 | Some g => if chk_eqb g want then 0 else 1 end.

Definition read_verdict (i : info) (len off : N) : N :=
  verdict (chk_of_read (call g_read_at_checks [dev_of i; VInt len; VInt off]))
          (read_contract (virtual_size i) (is_back_file i) (block_size_shift i) len off).
Definition write_verdict (i : info) (len off : N) : N :=
  verdict (chk_of_write (call g_write_at_checks [dev_of i; VInt len; VInt off]))
          (write_contract (virtual_size i) (is_read_only i) (block_size_shift i) len off).
Definition discard_verdict (i : info) (off len : N) : N :=
  verdict (chk_of_discard (call g_discard_checks [dev_of i; VInt off; VInt len]))
          (discard_contract (virtual_size i) (is_read_only i) (cluster_shift i) off len).

Fixpoint positions2 (k : N) (l : list N) : list N * list N :=
  match l with
  | [] => ([], [])
  | x :: t => let '(a, b) := positions2 (k + 1) t in
              if x =? 1 then (k :: a, b) else if x =? 2 then (a, k :: b) else (a, b)
  end.
