(* Executable oracles for C15, evaluated by bin/check on what the REAL code returned:
   the specification (Spec/Entries.v) judges the implementation's outputs directly. *)
From Coq Require Import NArith List Bool.
From Q.Base Require Import RExpr.
From Q.Spec Require Import Entries.
Import ListNotations.
Open Scope N_scope.

Definition kind_code (k : kind) : N :=
  match k with KData => 0 | KBacking => 1 | KZero => 2 | KCompressed => 3 | KUnalloc => 4 end.

Definition optN_eqb (a b : option N) : bool :=
  match a, b with Some x, Some y => x =? y | None, None => true | _, _ => false end.

(* the implementation's mapping: (source code, offset, compressed length, copied) *)
Definition decoded_matches (src : N) (off len : option N) (copied : bool) (d : decoded) : bool :=
  (src =? kind_code (d_kind d)) && optN_eqb off (d_off d) && optN_eqb len (d_len d) && Bool.eqb copied (d_copied d).

(* verdict codes: 0 = holds, 1 = violation *)
Definition l2_verdict (cb : N) (backing : bool) (v g : N)
    (src : N) (off len : option N) (copied : bool) (fm : option N) : N :=
  if s_l2_valid cb v then
    if negb (decoded_matches src off len copied (s_l2_decode cb backing (g / 2 ^ cb * 2 ^ cb) v)) then 1
    else match fm with Some x => if x =? v then 0 else 1 | None => 1 end
  else 0.

(* the clusters an entry occupies: the specification counts the clusters that hold bytes of
   [offset, offset + length) for compressed data, one cluster for a standard allocation *)
Definition alloc_verdict (cb v : N) (al : option (N * N)) : N :=
  if s_l2_valid cb v then
    let want :=
      if s_l2_compressed v then
        let o := s_l2_coffset cb v in
        let first := o / 2 ^ cb in
        let last := (o + s_l2_clength cb v - 1) / 2 ^ cb in
        Some (first * 2 ^ cb, last - first + 1)
      else if s_l2_offset v =? 0 then None else Some (s_l2_offset v, 1) in
    match al, want with
    | None, None => 0
    | Some (a, b), Some (c, d) => if (a =? c) && (b =? d) then 0 else 1
    | _, _ => 1
    end
  else 0.

Definition top_verdict (v l1off : N) (l1cop : bool) (rtoff rtres : N) : N :=
  if (l1off =? s_l1_offset v) && Bool.eqb l1cop (s_l1_copied v) && (rtoff =? s_rt_offset v)
     && (rtres =? s_rt_reserved v) then 0 else 1.

Definition split_verdict (cb l2sb g l1i l2i si sk soff inc coff : N) : N :=
  let se := 2 ^ (l2sb - 3) in
  if (l1i =? s_l1_index cb g) && (l2i =? s_l2_index cb g)
     && (l1i * s_l2_entries cb + l2i =? g / 2 ^ cb)
     && (sk * se + si =? g / 2 ^ cb)
     && (coff + inc =? g) && (coff =? g / 2 ^ cb * 2 ^ cb)
     && (soff =? l2i / se * 2 ^ l2sb) then 0 else 1.

Definition nth_byte (l : list N) (i : N) : N := nth (N.to_nat i) l 0.

(* get: the value read is the specification's *)
Definition rbget_verdict (ro : N) (l : list N) (idx got : N) : N :=
  if got =? s_refcount_read ro (nth_byte l) idx then 0 else 1.

(* set: refused iff it does not fit; otherwise the entry reads back, all other entries and all
   bytes outside the entry are unchanged *)
Definition rbset_verdict (ro : N) (l : list N) (idx v : N) (ok : bool) (l' : list N) : N :=
  let fits := (6 <=? ro) || (v <? 2 ^ (2 ^ ro)) in
  let entries := N.of_nat (length l) * 8 / 2 ^ ro in
  if negb fits then (if negb ok && list_N_eqb l l' then 0 else 1)
  else if negb ok then 1
  else if negb (N.of_nat (length l') =? N.of_nat (length l)) then 1
  else if negb (s_refcount_read ro (nth_byte l') idx =? v) then 1
  else if forallb (fun j => (j =? idx) || (s_refcount_read ro (nth_byte l') j =? s_refcount_read ro (nth_byte l) j))
                  (map N.of_nat (seq 0 (N.to_nat entries))) then 0 else 1.

Fixpoint positions (k : N) (want : N) (l : list N) : list N :=
  match l with
  | [] => []
  | x :: t => if x =? want then k :: positions (k + 1) want t else positions (k + 1) want t
  end.
