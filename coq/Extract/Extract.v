(* Extraction of the executable specification (independent checker) to OCaml.
   ExtrOcamlBasic only: bool, option, unit, list, prod, sumbool, sumor map to OCaml's;
   N / positive / nat stay the Coq datatypes. *)
From Coq Require Import NArith List Bool Extraction ExtrOcamlBasic.
From Q.Spec Require Import Entries Image Cells.
From Q.Model Require Import Dev Crash.
Extraction Language OCaml.
Extraction "../driver/model.ml"
  parse_hdr hdr_features_ok hdr_supported validb safeb safeb_short_l1 validb_short_l1 leaked undercounted guest_mapping guest_entry stored refs
  ref_list covered_nonzero overcounted tables_ok refcounts_exact refcounts_safe guest_clusters copied_refs copied_single
  read_block write discard grow invb mk_state free drefs touches clusters_of disciplined cells cells_dom nodupb.
