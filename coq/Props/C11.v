(* C11  discard contract at the level of the device model: whole clusters inside the range clipped to the
   virtual size that own an uncompressed host cluster read as zeros afterwards, every other block keeps its
   value, refcounts stay exact (the released cluster is free). *)
From Coq Require Import NArith List Bool.
From Q.Model Require Import Dev.
From Q.Proofs Require Import DevProps.
Import ListNotations.
Open Scope N_scope.

Theorem C11_discard_read : forall c s off len,
  Inv c s -> 0 < c_bpc c -> c_vblocks c <= c_nclu c * c_bpc c ->
  forall b, read_block c (discard c s off len) b =
            if in_discard c off len (b / c_bpc c) && owns_b (s_map s (b / c_bpc c)) then 0 else read_block c s b.
Proof. exact discard_read. Qed.

Theorem C11_discard_inv : forall c s off len,
  Inv c s -> 0 < c_bpc c -> c_vblocks c <= c_nclu c * c_bpc c -> Inv c (discard c s off len).
Proof. exact discard_inv. Qed.

(* zero length, and ranges that contain no whole cluster, change nothing *)
Corollary C11_noop : forall c s off len,
  Inv c s -> 0 < c_bpc c -> c_vblocks c <= c_nclu c * c_bpc c ->
  (len = 0 \/ snd (discard_range c off len) <= fst (discard_range c off len)) ->
  forall b, read_block c (discard c s off len) b = read_block c s b.
Proof.
  intros c s off len I Hb Hv H b. rewrite (discard_read c s off len I Hb Hv b). unfold in_discard.
  destruct (discard_range c off len) as [start stop]. cbn [fst snd] in H.
  destruct H as [->|H]; [reflexivity|].
  destruct (N.leb_spec start (b / c_bpc c)), (N.ltb_spec (b / c_bpc c) stop); cbn [andb];
    rewrite ?andb_false_r; try reflexivity. exfalso. apply (N.lt_irrefl start).
  eapply N.le_lt_trans; [eassumption|]. eapply N.lt_le_trans; eassumption.
Qed.

Print Assumptions C11_discard_read.
Print Assumptions C11_discard_inv.
Print Assumptions C11_noop.
