(* C05 (part)  At the level of metadata cells (Model/Crash.v): a mapping slot that no later request writes keeps its
   synced value in EVERY later crash state, whatever else is in flight (any prefix of the later log, any subset of
   the pending writes).  The check decodes the library's request log (lib/cells.py) and verifies, for every sync
   point, that the slots of guest clusters which no later operation targets are not written again; a slot that is
   written again yields a crash image that the real library must still read correctly (checks/c04.py, C05 branch).
   That the data clusters themselves are not overwritten, and the behaviour of the real reader on the crash image,
   are explored (crash images opened by the library), not proved. *)
From Coq Require Import NArith List Bool.
From Q.Model Require Import Crash.
From Q.Proofs Require Import CrashProps.
Import ListNotations.
Open Scope N_scope.

Theorem C05_synced_mapping_survives : forall i s evs,
  forallb (fun e => negb (writes_slot i e)) evs = true ->
  forall k m, let st := crun s [] (firstn k evs) in
  get_sl (apply_masked (fst st) (snd st) m) i = get_sl s i.
Proof. exact synced_slot_survives. Qed.

Print Assumptions C05_synced_mapping_survives.
