(* C16 (part)  Alignment provenance over the address arithmetic (Model/Codec.v, equal to the regenerated Rust functions
   by Proofs/GenEq.v): with block size <= cluster size (and <= slice size), a block-aligned guest offset gives a
   block-aligned host offset for data I/O through a cluster-aligned (specification-valid) L2 entry, and L2 / refcount
   slices start at block-aligned host offsets in cluster-aligned tables, have a block-multiple length and end inside their
   table cluster.  Data lengths and buffer addresses, the bounce
   buffers of compressed reads and the header write are not covered by a theorem: every request of sampled histories
   is checked against the alignment predicate (checks/c16.py). *)
From Coq Require Import NArith List Bool.
From Q.Model Require Import Codec.
From Q.Proofs Require Import Geometry AlignProps.
Open Scope N_scope.

Theorem C16_data_offset_aligned : forall i v g h,
  info_rng i -> block_size_shift i <= cluster_shift i ->
  g mod 2 ^ block_size_shift i = 0 ->
  l2_cluster_offset v mod 2 ^ cluster_shift i = 0 ->
  m_plain_offset (l2_into_mapping i v g) (sg_in_cluster_offset i g) = Some h ->
  h mod 2 ^ block_size_shift i = 0.
Proof. exact data_offset_aligned. Qed.

Theorem C16_l2_slice_offset_aligned : forall i g tbl,
  info_rng i -> block_size_shift i <= l2_slice_bits i -> tbl mod 2 ^ cluster_shift i = 0 ->
  (tbl + sg_l2_slice_off_in_table i g) mod 2 ^ block_size_shift i = 0.
Proof. exact l2_slice_offset_aligned. Qed.

Theorem C16_rb_slice_offset_aligned : forall i hc tbl,
  info_rng i -> block_size_shift i <= rb_slice_bits i -> tbl mod 2 ^ cluster_shift i = 0 ->
  (tbl + hc_rb_slice_off_in_table i hc) mod 2 ^ block_size_shift i = 0.
Proof. exact rb_slice_offset_aligned. Qed.

Theorem C16_l2_slice_inside_table : forall i g,
  info_rng i -> sg_l2_slice_off_in_table i g + 2 ^ l2_slice_bits i <= 2 ^ cluster_shift i.
Proof. exact l2_slice_inside_table. Qed.

Theorem C16_rb_slice_inside_table : forall i h,
  info_rng i -> hc_rb_slice_off_in_table i h + 2 ^ rb_slice_bits i <= 2 ^ cluster_shift i.
Proof. exact rb_slice_inside_table. Qed.

Theorem C16_slice_len_aligned : forall i,
  info_rng i ->
  (block_size_shift i <= l2_slice_bits i -> 2 ^ l2_slice_bits i mod 2 ^ block_size_shift i = 0) /\
  (block_size_shift i <= rb_slice_bits i -> 2 ^ rb_slice_bits i mod 2 ^ block_size_shift i = 0).
Proof. intros i R. split; [apply l2_slice_len_aligned|apply rb_slice_len_aligned]; exact R. Qed.

Print Assumptions C16_data_offset_aligned.
Print Assumptions C16_l2_slice_offset_aligned.
Print Assumptions C16_rb_slice_offset_aligned.
Print Assumptions C16_l2_slice_inside_table.
Print Assumptions C16_slice_len_aligned.
Print Assumptions C16_rb_slice_inside_table.
