(* C10  Copy-on-write merges correctly, at the level of the device model: after a write that covers part of a
   cluster whose content comes from the backing chain or from a compressed cluster, every block of that
   cluster outside the written range still reads as the source content, and the host clusters of the replaced
   compressed cluster lose exactly one reference each. *)
From Coq Require Import NArith List Bool Lia.
From Q.Model Require Import Dev.
From Q.Proofs Require Import DevProps.
Import ListNotations.
Open Scope N_scope.

Theorem C10_cow_keeps_source : forall c s off len v ch s',
  Inv c s -> 0 < c_bpc c -> off + len <= c_nclu c * c_bpc c ->
  write c s off len v ch = Some s' ->
  forall b, inr off len b = false -> read_block c s' b = read_block c s b.
Proof.
  intros c s off len v ch s' I Hb Hle W b Hout.
  rewrite (write_read c s off len v ch s' I Hb Hle W b), Hout. reflexivity.
Qed.

Theorem C10_compressed_released_once : forall c s gc off len v hn s' h0 k,
  Inv c s -> gc < c_nclu c -> s_map s gc = CComp h0 k ->
  write_cluster c s gc off len v hn = Some s' ->
  forall h, s_rc s' h = if h =? hn then 1 else if touches (CComp h0 k) h then s_rc s h - 1 else s_rc s h.
Proof.
  intros c s gc off len v hn s' h0 k I Hgc M W h. unfold write_cluster in W. rewrite M in W.
  destruct (free s hn) eqn:F; [|discriminate]. injection W as <-. cbn [s_rc].
  rewrite dec_run_spec, N2Nat.id. cbn [touches].
  pose proof (free_untouched c s hn gc I F) as T. rewrite M in T. cbn [touches] in T.
  destruct (N.eqb_spec h hn) as [->|Hne].
  - rewrite T. apply upd_same.
  - destruct ((h0 <=? h) && (h <? h0 + k)); rewrite upd_other by exact Hne; reflexivity.
Qed.

Print Assumptions C10_cow_keeps_source.
Print Assumptions C10_compressed_released_once.
