(* C13  Request validation.  Pinned statements about the argument-check prefixes of
   Qcow2Dev::__read_at / __write_at / discard as REGENERATED from /repo/src (everything the call
   does before it touches a mapping).  [chk_of_*] returns None exactly when the evaluation
   panics or overflows, so each theorem says: for every argument value the prefix neither panics
   nor overflows, and rejects / returns / proceeds exactly as the documented contract
   (Exec/C13Exec.v) says.  A rejected call returns before the cut, i.e. before any request
   is sent or any state is touched (the prefix is pure). *)
From Coq Require Import NArith List Bool.
From Q.Base Require Import RExpr.
From Q.Model Require Import Codec.
From Q.Gen Require Import GenCodec.
From Q.Proofs Require Import Geometry GenEq ArgProps.
From Q.Exec Require Import C13Exec.
Import ListNotations.
Open Scope N_scope.

Theorem C13_read_args : forall i len off,
  info_rng i -> virtual_size i <= 2 ^ 63 -> len < 2 ^ 63 -> off < 2 ^ 64 ->
  chk_of_read (call g_read_at_checks [dev_of i; VInt len; VInt off])
  = Some (read_contract (virtual_size i) (is_back_file i) (block_size_shift i) len off).
Proof. exact read_checks_contract. Qed.

Theorem C13_write_args : forall i len off,
  info_rng i -> virtual_size i <= 2 ^ 63 -> len < 2 ^ 63 -> off < 2 ^ 64 ->
  chk_of_write (call g_write_at_checks [dev_of i; VInt len; VInt off])
  = Some (write_contract (virtual_size i) (is_read_only i) (block_size_shift i) len off).
Proof. exact write_checks_contract. Qed.

Theorem C13_discard_args : forall i off len,
  info_rng i -> virtual_size i <= 2 ^ 63 -> len < 2 ^ 64 -> off < 2 ^ 64 ->
  chk_of_discard (call g_discard_checks [dev_of i; VInt off; VInt len])
  = Some (discard_contract (virtual_size i) (is_read_only i) (cluster_shift i) off len).
Proof. exact discard_checks_contract. Qed.

(* writes and discards on a read-only device are rejected, whatever the arguments *)
Corollary C13_read_only : forall i len off,
  info_rng i -> virtual_size i <= 2 ^ 63 -> len < 2 ^ 63 -> off < 2 ^ 64 -> is_read_only i = true ->
  chk_of_write (call g_write_at_checks [dev_of i; VInt len; VInt off]) = Some CErr /\
  chk_of_discard (call g_discard_checks [dev_of i; VInt off; VInt len]) = Some CErr.
Proof.
  intros i len off R Hv Hl Ho Hro. split.
  - rewrite write_checks_contract by assumption. unfold write_contract. rewrite Hro.
    destruct (virtual_size i <? off + len); [reflexivity|].
    destruct (negb (len mod 2 ^ block_size_shift i =? 0)); [reflexivity|].
    destruct (negb (off mod 2 ^ block_size_shift i =? 0)); reflexivity.
  - rewrite discard_checks_contract; try assumption.
    + unfold discard_contract. rewrite Hro. reflexivity.
    + eapply N.lt_trans; [exact Hl|reflexivity].
Qed.

(* non-vacuity: a concrete geometry meets the hypotheses; zero length at offset 0 is fine *)
Example C13_nonvacuous :
  let i := info_of 16 4 1048576 9 12 2 12 2 0 in
  info_rng i /\ virtual_size i <= 2 ^ 63 /\
  read_contract (virtual_size i) false 9 0 0 = COk 0 /\
  write_contract (virtual_size i) false 9 0 0 = COk 0 /\
  read_contract (virtual_size i) false 9 1024 1048064 = CGo 1048064 512 0.
Proof.
  cbv zeta. split; [apply info_of_rng; constructor; cbn; try Lia.lia; reflexivity|].
  vm_compute. repeat split; congruence.
Qed.

Check C13_read_args. Check C13_write_args. Check C13_discard_args. Check C13_read_only.
Print Assumptions C13_read_args.
Print Assumptions C13_write_args.
Print Assumptions C13_discard_args.
Print Assumptions C13_read_only.
