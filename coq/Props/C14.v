(* C14 (part)  Every header the specification reading puts in the supported set (hdr_features_ok: magic, version 2/3,
   cluster_bits 9..21, refcount_order <= 6, no encryption / incompatible features / foreign compression, aligned
   tables, table sizes and virtual size within the format limits) gives, with any legal device parameters, a geometry
   inside the range hypotheses of the codec and argument-check theorems (Props/C15.v, Props/C13.v), and a virtual
   size <= 2^61: so those theorems apply to every image the library may accept.  That from_buf accepts exactly this
   set and never panics is checked by differential fuzzing (checks/c14.py), not proved: the header parser is not
   translated. *)
From Coq Require Import NArith List Bool.
From Q.Model Require Import Codec.
From Q.Spec Require Import Entries Image.
From Q.Proofs Require Import Geometry HdrProps.
Open Scope N_scope.

Theorem C14_supported_header_in_range : forall h bs l2sb l2cnt rbsb rbcnt fl,
  hdr_features_ok h = true ->
  9 <= bs <= 12 -> bs <= l2sb <= h_cb h -> bs <= rbsb <= h_cb h ->
  let i := info_of (h_cb h) (h_ro h) (h_size h) bs l2sb l2cnt rbsb rbcnt fl in
  info_rng i /\ virtual_size i <= 2 ^ 63.
Proof. exact supported_header_geometry. Qed.

Theorem C14_size_bound : forall h, hdr_features_ok h = true -> h_size h <= 2 ^ 61.
Proof. exact size_bound. Qed.

Print Assumptions C14_supported_header_in_range.
Print Assumptions C14_size_bound.
