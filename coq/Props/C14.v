(* C14 (part)  Every header the specification reading puts in the supported set (hdr_features_ok: magic, version 2/3,
   cluster_bits 9..21, refcount_order <= 6, no encryption / incompatible features / foreign compression, aligned
   tables, table sizes and virtual size within the format limits) gives, with any legal device parameters, a geometry
   inside the range hypotheses of the codec and argument-check theorems (Props/C15.v, Props/C13.v), and a virtual
   size <= 2^61: so those theorems apply to every image the library may accept.  That from_buf accepts exactly this
   set and never panics is checked by differential fuzzing (checks/c14.py), not proved: the header parser is not
   translated. *)
From Coq Require Import NArith List Bool.
From Q.Model Require Import Codec.
From Q.Spec Require Import Entries Image.
From Q.Proofs Require Import Geometry HdrProps.
Open Scope N_scope.

Theorem C14_supported_header_in_range : forall h bs l2sb l2cnt rbsb rbcnt fl,
  hdr_features_ok h = true ->
  9 <= bs <= 12 -> bs <= l2sb <= h_cb h -> bs <= rbsb <= h_cb h ->
  let i := info_of (h_cb h) (h_ro h) (h_size h) bs l2sb l2cnt rbsb rbcnt fl in
  info_rng i /\ virtual_size i <= 2 ^ 63.
Proof. exact supported_header_geometry. Qed.

Theorem C14_size_bound : forall h, hdr_features_ok h = true -> h_size h <= 2 ^ 61.
Proof. exact size_bound. Qed.

Print Assumptions C14_supported_header_in_range.
Print Assumptions C14_size_bound.

(* ---- over the REGENERATED Qcow2Info::new: for every header view in range and every legal parameter set it returns
   Ok(info) with a geometry inside info_rng (the hypotheses of Props/C13.v and Props/C15.v), never a panic ---- *)
From Q.Base Require Import RExpr.
From Q.Gen Require Import GenCodec.
From Q.Proofs Require Import GenEq GeqMore.
Import ListNotations.

Theorem C14_info_new_in_range : forall cb ro size hb bs rbc l2c rdonly backing,
  9 <= cb <= 21 -> ro <= 6 -> size < 2 ^ 64 -> 9 <= bs <= 12 -> bs <= cb ->
  param_ok rbc bs cb -> param_ok l2c bs cb ->
  snd (cache_geom rbc 262144 bs cb) < 2 ^ 32 ->
  snd (cache_geom l2c (N.min (N.shiftr size (cb - 3)) 33554432) bs cb) < 2 ^ 32 ->
  (backing = true -> rdonly = true) ->
  exists i, call g_Qcow2Info_new [v_hdrview cb ro size hb; v_params bs rbc l2c rdonly backing] = Ret (VRes (inl (v_info i)))
            /\ info_rng i /\ virtual_size i = size.
Proof. exact info_new_in_range. Qed.

Print Assumptions C14_info_new_in_range.
