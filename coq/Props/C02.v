(* C02 (part)  flush_meta walks the dirty blocks of a top table (refcount table, L1 table) and, for each, flushes the
   cached slices of the tables that block points to; which slices those are is computed by
   Qcow2Dev::rb_slice_key_of_rt_off / l2_slice_key_of_l1_off.  Over the REGENERATED functions: the window
   [key(8 idx), key(8 (idx+1))) contains the slice key of every host cluster covered by refcount-table entry idx
   (resp. every guest offset under L1 entry idx), so no dirty slice under a dirty top-table entry is skipped.
   That flush + reopen preserves every byte for whole histories is explored (checks/c02.py), not proved. *)
From Coq Require Import NArith List Bool.
From Q.Base Require Import RExpr.
From Q.Model Require Import Codec.
From Q.Gen Require Import GenCodec.
From Q.Proofs Require Import Geometry GenEq GeqMore.
From Q.Exec Require Import C13Exec.
Import ListNotations.
Open Scope N_scope.

Theorem C02_rb_flush_window : forall i idx h,
  info_rng i ->
  (idx + 1) * 2 ^ (rb_index_shift i + cluster_shift i) < 2 ^ 64 ->
  hc_rt_index i h = idx ->
  exists k0 k1,
    call g_rb_slice_key_of_rt_off [dev_of i; VInt (8 * idx)] = Ret (VInt k0) /\
    call g_rb_slice_key_of_rt_off [dev_of i; VInt (8 * (idx + 1))] = Ret (VInt k1) /\
    k0 <= hc_rb_slice_key i h < k1.
Proof.
  intros i idx h R B E.
  assert (B1 : idx * 2 ^ (rb_index_shift i + cluster_shift i) < 2 ^ 64) by (eapply N.le_lt_trans; [|exact B]; apply N.mul_le_mono_r; apply N.le_add_r).
  assert (O1 : 8 * idx < 2 ^ 64 /\ 8 * (idx + 1) < 2 ^ 64).
  { pose proof (Geometry.pow2_ge1 (rb_index_shift i + cluster_shift i)) as P.
    destruct R as [r_cs _ _ _ _ _ _ r_rbis _ _ _ _ _ _].
    assert (8 <= 2 ^ (rb_index_shift i + cluster_shift i)) by (change 8 with (2 ^ 3); apply N.pow_le_mono_r; Lia.lia).
    split; Lia.nia. }
  exists (rb_key_of_rt_off i (8 * idx)), (rb_key_of_rt_off i (8 * (idx + 1))).
  split; [apply geq_rb_slice_key_of_rt_off; [exact R|apply O1]|].
  split; [apply geq_rb_slice_key_of_rt_off; [exact R|apply O1]|].
  exact (rb_key_window i idx h R B1 B E).
Qed.

Theorem C02_l2_flush_window : forall i idx g,
  info_rng i ->
  (idx + 1) * 2 ^ (l2_index_shift i + cluster_shift i) < 2 ^ 64 ->
  sg_l1_index i g = idx ->
  exists k0 k1,
    call g_l2_slice_key_of_l1_off [dev_of i; VInt (8 * idx)] = Ret (VInt k0) /\
    call g_l2_slice_key_of_l1_off [dev_of i; VInt (8 * (idx + 1))] = Ret (VInt k1) /\
    k0 <= sg_l2_slice_key i g < k1.
Proof.
  intros i idx g R B E.
  assert (B1 : idx * 2 ^ (l2_index_shift i + cluster_shift i) < 2 ^ 64) by (eapply N.le_lt_trans; [|exact B]; apply N.mul_le_mono_r; apply N.le_add_r).
  assert (O1 : 8 * idx < 2 ^ 64 /\ 8 * (idx + 1) < 2 ^ 64).
  { destruct R as [r_cs _ _ _ _ r_l2is _ _ _ _ _ _ _ _].
    assert (8 <= 2 ^ (l2_index_shift i + cluster_shift i)) by (change 8 with (2 ^ 3); apply N.pow_le_mono_r; Lia.lia).
    split; Lia.nia. }
  exists (l2_key_of_l1_off i (8 * idx)), (l2_key_of_l1_off i (8 * (idx + 1))).
  split; [apply geq_l2_slice_key_of_l1_off; [exact R|apply O1]|].
  split; [apply geq_l2_slice_key_of_l1_off; [exact R|apply O1]|].
  exact (l2_key_window i idx g R B1 B E).
Qed.

Print Assumptions C02_rb_flush_window.
Print Assumptions C02_l2_flush_window.
