(* C02 (part)  flush_meta walks the dirty blocks of a top table (refcount table, L1 table) and, for each, flushes the
   cached slices of the tables that block points to; which slices those are is computed by
   Qcow2Dev::rb_slice_key_of_rt_off / l2_slice_key_of_l1_off.  Over the REGENERATED functions: the window
   [key(8 idx), key(8 (idx+1))) contains the slice key of every host cluster covered by refcount-table entry idx
   (resp. every guest offset under L1 entry idx), so no dirty slice under a dirty top-table entry is skipped.
   Second part, over the content-carrying write-back model (Model/Flush.v: cst/cstep, hand written, sequential): after ANY
   sequence of updates, flushes and eviction write-backs (each possibly failing) that ends in a successful flush_meta,
   the file holds for every slice exactly what the running device reads, and that is the flat reference (initial
   content overlaid with the updates in order): the file alone determines the content.  Its tie to the code is the
   dirty-counter hook (flag false / Ok flush => no dirty slice) plus the reopen sweep of checks/c02.py.
   That flush + reopen preserves every byte for whole histories of the real library is explored, not proved. *)
From Coq Require Import NArith List Bool.
From Q.Base Require Import RExpr.
From Q.Model Require Import Codec.
From Q.Gen Require Import GenCodec.
From Q.Model Require Import Flush.
From Q.Proofs Require Import Geometry GenEq GeqMore FlushProps.
From Q.Exec Require Import C13Exec.
Import ListNotations.
Open Scope N_scope.

Theorem C02_rb_flush_window : forall i idx h,
  info_rng i ->
  (idx + 1) * 2 ^ (rb_index_shift i + cluster_shift i) < 2 ^ 64 ->
  hc_rt_index i h = idx ->
  exists k0 k1,
    call g_rb_slice_key_of_rt_off [dev_of i; VInt (8 * idx)] = Ret (VInt k0) /\
    call g_rb_slice_key_of_rt_off [dev_of i; VInt (8 * (idx + 1))] = Ret (VInt k1) /\
    k0 <= hc_rb_slice_key i h < k1.
Proof.
  intros i idx h R B E.
  assert (B1 : idx * 2 ^ (rb_index_shift i + cluster_shift i) < 2 ^ 64) by (eapply N.le_lt_trans; [|exact B]; apply N.mul_le_mono_r; apply N.le_add_r).
  assert (O1 : 8 * idx < 2 ^ 64 /\ 8 * (idx + 1) < 2 ^ 64).
  { pose proof (Geometry.pow2_ge1 (rb_index_shift i + cluster_shift i)) as P.
    destruct R as [r_cs _ _ _ _ _ _ r_rbis _ _ _ _ _ _].
    assert (8 <= 2 ^ (rb_index_shift i + cluster_shift i)) by (change 8 with (2 ^ 3); apply N.pow_le_mono_r; Lia.lia).
    split; Lia.nia. }
  exists (rb_key_of_rt_off i (8 * idx)), (rb_key_of_rt_off i (8 * (idx + 1))).
  split; [apply geq_rb_slice_key_of_rt_off; [exact R|apply O1]|].
  split; [apply geq_rb_slice_key_of_rt_off; [exact R|apply O1]|].
  exact (rb_key_window i idx h R B1 B E).
Qed.

Theorem C02_l2_flush_window : forall i idx g,
  info_rng i ->
  (idx + 1) * 2 ^ (l2_index_shift i + cluster_shift i) < 2 ^ 64 ->
  sg_l1_index i g = idx ->
  exists k0 k1,
    call g_l2_slice_key_of_l1_off [dev_of i; VInt (8 * idx)] = Ret (VInt k0) /\
    call g_l2_slice_key_of_l1_off [dev_of i; VInt (8 * (idx + 1))] = Ret (VInt k1) /\
    k0 <= sg_l2_slice_key i g < k1.
Proof.
  intros i idx g R B E.
  assert (B1 : idx * 2 ^ (l2_index_shift i + cluster_shift i) < 2 ^ 64) by (eapply N.le_lt_trans; [|exact B]; apply N.mul_le_mono_r; apply N.le_add_r).
  assert (O1 : 8 * idx < 2 ^ 64 /\ 8 * (idx + 1) < 2 ^ 64).
  { destruct R as [r_cs _ _ _ _ r_l2is _ _ _ _ _ _ _ _].
    assert (8 <= 2 ^ (l2_index_shift i + cluster_shift i)) by (change 8 with (2 ^ 3); apply N.pow_le_mono_r; Lia.lia).
    split; Lia.nia. }
  exists (l2_key_of_l1_off i (8 * idx)), (l2_key_of_l1_off i (8 * (idx + 1))).
  split; [apply geq_l2_slice_key_of_l1_off; [exact R|apply O1]|].
  split; [apply geq_l2_slice_key_of_l1_off; [exact R|apply O1]|].
  exact (l2_key_window i idx g R B1 B E).
Qed.

Theorem C02_flushed_file_is_the_reference : forall f ops k,
  file (crun_ (cinit f) (ops ++ [CFlushOk])) k = cref f ops k /\
  mem (crun_ (cinit f) (ops ++ [CFlushOk])) k = cref f ops k.
Proof. exact flush_ok_file_is_reference. Qed.

Theorem C02_flag_false_file_is_the_reference : forall f ops k,
  cflag (crun_ (cinit f) ops) = false -> file (crun_ (cinit f) ops) k = cref f ops k.
Proof. exact cflag_false_file_is_reference. Qed.

Theorem C02_only_updates_change_the_running_view : forall ops s, mem (crun_ s ops) = cref (mem s) ops.
Proof. exact crun_mem. Qed.

(* non-vacuity: a history with a failed eviction, a partly failed flush, a re-dirtied slice and an eviction that
   succeeds; before the closing flush the file is behind, after it file = running view = reference *)
Example C02_nonvacuous :
  let ops := [CUpdate 3 7; CUpdate 5 9; CEvictFail 3; CFlushFail [5]; CUpdate 5 11; CEvictOk 5; CUpdate 3 8] in
  let s := crun_ (cinit (fun _ => 0)) ops in
  let t := crun_ (cinit (fun _ => 0)) (ops ++ [CFlushOk]) in
  (file s 3 = 0 /\ mem s 3 = 8 /\ file s 5 = 11 /\ cflag s = true) /\
  (file t 3 = 8 /\ file t 5 = 11 /\ file t 4 = 0 /\ cflag t = false).
Proof. vm_compute. repeat split; reflexivity. Qed.

Print Assumptions C02_rb_flush_window.
Print Assumptions C02_l2_flush_window.
Print Assumptions C02_flushed_file_is_the_reference.
Print Assumptions C02_flag_false_file_is_the_reference.
Print Assumptions C02_only_updates_change_the_running_view.
