(* C03  What the independent checker's verdict means.  `validb` (Spec/Image.v, extracted to OCaml and run on every
   flushed file) enumerates the references and the clusters covered by refcount blocks; these theorems lift its
   verdict to EVERY host cluster: stored refcount = number of references from header, refcount table, L1 table,
   refcount blocks, L2 tables and (compressed) data, hence neither leaked nor under-counted clusters anywhere;
   and a cluster referenced through a COPIED entry is referenced exactly once.  The structural part of validb
   (tables_ok: alignment, reserved bits, COPIED on allocated standard clusters, nothing mapped beyond the virtual
   size) is an executable reading of the format text and has no further theorem.
   That the LIBRARY produces such files is explored (sampled histories), not proved. *)
From Coq Require Import NArith List Bool.
From Q.Spec Require Import Entries Image.
From Q.Proofs Require Import SpecProps.
Import ListNotations.
Open Scope N_scope.

Theorem C03_checker_sound : forall rd h,
  validb rd h = true ->
  (forall c, stored rd h c = refs rd h c) /\ (forall c, In c (copied_refs rd h) -> refs rd h c = 1).
Proof. exact validb_sound. Qed.

Theorem C03_no_leak_no_undercount : forall rd h c,
  validb rd h = true -> (refs rd h c = 0 -> stored rd h c = 0) /\ refs rd h c <= stored rd h c.
Proof.
  intros rd h c V. destruct (validb_sound rd h V) as [E _]. rewrite (E c). split; [auto|apply N.le_refl].
Qed.

Print Assumptions C03_checker_sound.
Print Assumptions C03_no_leak_no_undercount.
