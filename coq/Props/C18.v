(* C18 (part)  Over the abstract write-back model (Model/Flush.v: cached slices with dirty marks, the need-flush flag,
   write-back by flush_meta or eviction, each possibly failing): whenever the flag is false no cached slice differs
   from the file; right after a successful flush_meta nothing differs from the file; a failed write keeps its marks.
   The model is sequential: what concurrent operations do to the flag is explored under the deterministic scheduler
   (checks/c18.py).  Tie to the code: the cfg-gated hook Qcow2Dev::verif_dirty_counts lets every check that samples
   need_flush_meta() also observe "flag false => no dirty slice, no dirty top-table block". *)
From Coq Require Import NArith List Bool.
From Q.Model Require Import Flush.
From Q.Proofs Require Import FlushProps.
Import ListNotations.
Open Scope N_scope.

Theorem C18_flag_false_means_clean : forall ops k,
  flag (frun finit ops) = false -> unsynced (frun finit ops) k = false.
Proof. exact flag_false_clean. Qed.

Theorem C18_invariant : forall ops, FInv (frun finit ops).
Proof. intros ops. exact (frun_inv ops finit finit_inv). Qed.

Example C18_nonvacuous :
  let s := frun finit [FUpdate 3; FUpdate 5; FEvictFail 3; FFlushFail [5]; FUpdate 7] in
  flag s = true /\ unsynced s 3 = true /\ dirty s 3 = true /\ unsynced s 5 = false /\
  flag (frun finit [FUpdate 3; FFlushOk]) = false.
Proof. vm_compute. repeat split; reflexivity. Qed.

(* the boolean model is a sound abstraction of the content-carrying one (Model/Flush.v: cst): `unsynced = false` there
   means the file holds what the running device reads; so flag false => file = running view, for every history *)
Theorem C18_boolean_model_abstracts_content : forall f ops k,
  unsynced (frun finit (map cabs ops)) k = false -> file (crun_ (cinit f) ops) k = mem (crun_ (cinit f) ops) k.
Proof. exact abstract_clean_means_equal. Qed.

Theorem C18_flag_false_file_equals_running_view : forall f ops k,
  cflag (crun_ (cinit f) ops) = false -> file (crun_ (cinit f) ops) k = cref f ops k.
Proof. exact cflag_false_file_is_reference. Qed.

Print Assumptions C18_flag_false_means_clean.
Print Assumptions C18_invariant.
Print Assumptions C18_boolean_model_abstracts_content.
Print Assumptions C18_flag_false_file_equals_running_view.
