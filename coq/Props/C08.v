(* C08  Host clusters have exactly one owner; the allocator never double-allocates.  Model-level statements:
   in every reachable state the stored refcount of every host cluster equals the number of references to it,
   an uncompressed guest cluster is the only owner of its host cluster, and a host cluster accepted for a new
   allocation was free (refcount 0, not metadata, referenced by nobody).  The correspondence check replays the
   library's own allocation choices through this guard. *)
From Coq Require Import NArith List Bool.
From Q.Model Require Import Dev.
From Q.Proofs Require Import DevProps.
Import ListNotations.
Open Scope N_scope.

Theorem C08_reachable_inv : forall c ops s s',
  cfg_ok c -> Inv c s -> Forall (op_ok c) ops -> run c s ops = Some s' -> Inv c s'.
Proof. exact run_inv. Qed.

(* what the invariant says about ownership *)
Theorem C08_single_owner : forall c s gc gc' h,
  Inv c s -> gc < c_nclu c -> s_rc s h = 1 -> touches (s_map s gc) h = true ->
  (gc' <> gc -> touches (s_map s gc') h = false) /\ s_meta s h = false.
Proof. exact unique_owner. Qed.

Theorem C08_alloc_was_free : forall c s gc off len v hn s',
  Inv c s -> write_cluster c s gc off len v hn = Some s' ->
  (forall h, s_map s gc <> CData h) -> (forall h, s_map s gc <> CZeroPre h) ->
  s_rc s hn = 0 /\ s_meta s hn = false /\ (forall g, touches (s_map s g) hn = false) /\ s_map s' gc = CData hn.
Proof. exact alloc_was_free. Qed.

(* a released cluster is free again: after a discard of an owned cluster its refcount is 0 *)
Theorem C08_release : forall c s gc h,
  Inv c s -> gc < c_nclu c -> s_map s gc = CData h -> c_backing c = false ->
  s_rc (discard_cluster c s gc) h = 0 /\ s_map (discard_cluster c s gc) gc = CUn.
Proof.
  intros c s gc h I Hgc M B. unfold discard_cluster. rewrite M, B. cbn [s_rc s_map].
  rewrite !upd_same. rewrite (inv_one c s I gc h Hgc (or_introl M)). split; reflexivity.
Qed.

Print Assumptions C08_reachable_inv.
Print Assumptions C08_single_owner.
Print Assumptions C08_alloc_was_free.
Print Assumptions C08_release.
