(* C08  Host clusters have exactly one owner; the allocator never double-allocates.  Model-level statements:
   in every reachable state the stored refcount of every host cluster equals the number of references to it,
   an uncompressed guest cluster is the only owner of its host cluster, and a host cluster accepted for a new
   allocation was free (refcount 0, not metadata, referenced by nobody).  The correspondence check replays the
   library's own allocation choices through this guard. *)
From Coq Require Import NArith List Bool.
From Q.Model Require Import Dev.
From Q.Proofs Require Import DevProps.
Import ListNotations.
Open Scope N_scope.

Theorem C08_reachable_inv : forall c ops s s',
  cfg_ok c -> Inv c s -> Forall (op_ok c) ops -> run c s ops = Some s' -> Inv c s'.
Proof. exact run_inv. Qed.

(* what the invariant says about ownership *)
Theorem C08_single_owner : forall c s gc gc' h,
  Inv c s -> gc < c_nclu c -> s_rc s h = 1 -> touches (s_map s gc) h = true ->
  (gc' <> gc -> touches (s_map s gc') h = false) /\ s_meta s h = false.
Proof. exact unique_owner. Qed.

Theorem C08_alloc_was_free : forall c s gc off len v hn s',
  Inv c s -> write_cluster c s gc off len v hn = Some s' ->
  (forall h, s_map s gc <> CData h) -> (forall h, s_map s gc <> CZeroPre h) ->
  s_rc s hn = 0 /\ s_meta s hn = false /\ (forall g, touches (s_map s g) hn = false) /\ s_map s' gc = CData hn.
Proof. exact alloc_was_free. Qed.

(* a released cluster is free again: after a discard of an owned cluster its refcount is 0 *)
Theorem C08_release : forall c s gc h,
  Inv c s -> gc < c_nclu c -> s_map s gc = CData h -> c_backing c = false ->
  s_rc (discard_cluster c s gc) h = 0 /\ s_map (discard_cluster c s gc) gc = CUn.
Proof.
  intros c s gc h I Hgc M B. unfold discard_cluster. rewrite M, B. cbn [s_rc s_map].
  rewrite !upd_same. rewrite (inv_one c s I gc h Hgc (or_introl M)). split; reflexivity.
Qed.

Print Assumptions C08_reachable_inv.
Print Assumptions C08_single_owner.
Print Assumptions C08_alloc_was_free.
Print Assumptions C08_release.

(* ---- the allocator's scans over one refcount slice (Model/Alloc.v; compared with RefBlock::get_free_range /
   get_tail_free_range / alloc_range of the compiled code on random slices by checks/c08.py) ---- *)
From Q.Model Require Import Alloc.
From Q.Proofs Require Import AllocProps.

Theorem C08_scan_hands_out_free_entries : forall l start count a b,
  (start + count <= length l)%nat ->
  get_free_range l start count = Some (a, b) ->
  b = (a + count)%nat /\ (start <= a)%nat /\ (b <= length l)%nat /\
  (forall j, (a <= j < b)%nat -> rc_at l j = 0%N) /\
  (forall s, (start <= s < a)%nat -> exists j, (s <= j < s + count)%nat /\ rc_at l j <> 0%N).
Proof. exact get_free_range_sound. Qed.

Theorem C08_scan_complete : forall l start count,
  (start + count <= length l)%nat ->
  get_free_range l start count = None ->
  forall s, (start <= s)%nat -> (s + count <= length l)%nat -> exists j, (s <= j < s + count)%nat /\ rc_at l j <> 0%N.
Proof. exact get_free_range_complete. Qed.

Theorem C08_tail_scan : forall l a b,
  get_tail_free_range l = Some (a, b) ->
  b = length l /\ (0 < a < b)%nat /\ rc_at l (a - 1) <> 0%N /\ forall j, (a <= j < b)%nat -> rc_at l j = 0%N.
Proof. exact get_tail_free_range_sound. Qed.

Theorem C08_alloc_range_increments : forall n l s j,
  (s + n <= length l)%nat ->
  rc_at (alloc_range l s n) j = if (Nat.leb s j) && (Nat.ltb j (s + n)%nat) then (rc_at l j + 1)%N else rc_at l j.
Proof. exact alloc_range_spec. Qed.

Print Assumptions C08_scan_hands_out_free_entries.
Print Assumptions C08_scan_complete.
Print Assumptions C08_tail_scan.
Print Assumptions C08_alloc_range_increments.
