(* C04  What `safeb` means: the crash images accepted by the extracted checker have no under-counted host cluster
   at all (leaks are allowed).  That every crash state of the LIBRARY is accepted is explored (checks/crash.py:
   prefix x subsets / tearing of un-synced requests) and, for the refcount >= references part, lifted to EVERY
   subset of EVERY prefix of a request log by the discipline theorem below: the check decodes the library's request
   log into cell writes (lib/cells.py, tied to the images at each sync point), runs the extracted `disciplined` on
   it, and searches for a concrete unsafe crash image when it answers false. *)
From Coq Require Import NArith List Bool.
Import ListNotations.
From Q.Spec Require Import Entries Image Cells.
From Q.Proofs Require Import SpecProps CrashProps.
From Q.Model Require Crash.
Open Scope N_scope.

Theorem C04_checker_sound : forall rd h,
  safeb rd h = true -> forall c, refs rd h c <= stored rd h c.
Proof. exact safeb_sound. Qed.

Print Assumptions C04_checker_sound.

(* all crash states (any prefix k of the log, any subset m of the writes pending there) of a disciplined log *)
Theorem C04_disciplined_log_every_crash_state_safe : forall dom s evs,
  Crash.disciplined dom s evs = true ->
  forall k m, let st := Crash.crun s [] (firstn k evs) in
  Crash.safe dom (Crash.apply_masked (fst st) (snd st) m).
Proof. exact disciplined_all_crash_states_safe. Qed.

Print Assumptions C04_disciplined_log_every_crash_state_safe.

(* and the check is exact for the cell model: a rejected log has an unsafe crash state (of cells; the check then
   searches the real request log for a crash image that realises it) *)
Theorem C04_rejected_log_has_unsafe_crash_state : forall dom s evs,
  Crash.disciplined dom s evs = false ->
  exists k m, ~ Crash.safe dom (Crash.apply_masked (fst (Crash.crun s [] (firstn k evs))) (snd (Crash.crun s [] (firstn k evs))) m).
Proof. exact disciplined_false_unsafe. Qed.

Print Assumptions C04_rejected_log_has_unsafe_crash_state.

(* the ordering the library aims at (refcount increments, sync, mappings, sync, refcount decrements) is crash safe
   for EVERY batch whose counts cover the mixtures of old and new mappings *)
Theorem C04_ordered_flush_protocol_safe : forall dom s incs sets decs,
  Inv dom s [] ->
  (forall p, In p incs -> Crash.crefs dom s (fst p) <= snd p) ->
  (forall h, Crash.refs_max dom (Crash.apply_all s (rc_evs incs)) (sl_evs sets) h <= Crash.get_rc (Crash.apply_all s (rc_evs incs)) h) ->
  (forall p, In p decs -> Crash.crefs dom (Crash.apply_all (Crash.apply_all s (rc_evs incs)) (sl_evs sets)) (fst p) <= snd p) ->
  forall k m, let st := Crash.crun s [] (firstn k (protocol incs sets decs)) in
  Crash.safe dom (Crash.apply_masked (fst st) (snd st) m).
Proof. exact protocol_every_crash_state_safe. Qed.

Print Assumptions C04_ordered_flush_protocol_safe.

(* what `safe` means on the abstraction of an image: the specification's own `references <= stored refcount`.
   (`cells` is extracted; at every sync point the state the log decoder has reached must equal `cells` of the
   durable image - checks/crash.py, lib/cells.py: check_syncs_coq.) *)
Theorem C04_cell_abstraction_meaning : forall rd h, nodupb (cells_dom rd h) = true ->
  (Crash.safe (cells_dom rd h) (cells rd h) <-> forall c, refs rd h c <= stored rd h c).
Proof. exact cells_safe_iff. Qed.

Print Assumptions C04_cell_abstraction_meaning.
