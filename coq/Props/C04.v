(* C04  What `safeb` means: the crash images accepted by the extracted checker have no under-counted host cluster
   at all (leaks are allowed).  That every crash state of the LIBRARY is accepted is explored (checks/crash.py:
   prefix x subsets / tearing of un-synced requests) and, for the refcount >= references part, lifted to EVERY
   subset of EVERY prefix of a request log by the discipline theorem below: the check decodes the library's request
   log into cell writes (lib/cells.py, tied to the images at each sync point), runs the extracted `disciplined` on
   it, and searches for a concrete unsafe crash image when it answers false. *)
From Coq Require Import NArith List Bool.
Import ListNotations.
From Q.Spec Require Import Entries Image.
From Q.Proofs Require Import SpecProps CrashProps.
From Q.Model Require Crash.
Open Scope N_scope.

Theorem C04_checker_sound : forall rd h,
  safeb rd h = true -> forall c, refs rd h c <= stored rd h c.
Proof. exact safeb_sound. Qed.

Print Assumptions C04_checker_sound.

(* all crash states (any prefix k of the log, any subset m of the writes pending there) of a disciplined log *)
Theorem C04_disciplined_log_every_crash_state_safe : forall dom s evs,
  Crash.disciplined dom s evs = true ->
  forall k m, let st := Crash.crun s [] (firstn k evs) in
  Crash.safe dom (Crash.apply_masked (fst st) (snd st) m).
Proof. exact disciplined_all_crash_states_safe. Qed.

Print Assumptions C04_disciplined_log_every_crash_state_safe.
