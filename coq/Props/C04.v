(* C04  What `safeb` means: the crash images accepted by the extracted checker have no under-counted host cluster
   at all (leaks are allowed).  That every crash state of the LIBRARY is accepted is explored (checks/crash.py:
   prefix x subsets / tearing of un-synced requests), not proved. *)
From Coq Require Import NArith List Bool.
From Q.Spec Require Import Entries Image.
From Q.Proofs Require Import SpecProps.
Open Scope N_scope.

Theorem C04_checker_sound : forall rd h,
  safeb rd h = true -> forall c, refs rd h c <= stored rd h c.
Proof. exact safeb_sound. Qed.

Print Assumptions C04_checker_sound.
