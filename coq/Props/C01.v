(* C01  Sequential reads equal a flat reference disk.  Statements about the cluster-level device model
   (Model/Dev.v): mapping per guest cluster (unallocated / zero / preallocated zero / data / compressed), host
   refcounts, host data, backing content, with the host cluster of every allocation chosen by an oracle that
   only has to pass the model's guard.  The model is tied to the library by checks/devsim.py. *)
From Coq Require Import NArith List Bool.
From Q.Model Require Import Dev.
From Q.Proofs Require Import DevProps.
Import ListNotations.
Open Scope N_scope.

(* one step: the guest view after a step is the flat view of the step applied to the guest view before it:
   a write replaces exactly the written blocks, a discard zeroes exactly the whole covered clusters that own
   an uncompressed host cluster, metadata growth changes nothing *)
Theorem C01_step : forall c s o s',
  cfg_ok c -> Inv c s -> op_ok c o -> step c s o = Some s' ->
  forall b, read_block c s' b = flat_step c s o (read_block c s) b.
Proof. exact step_read. Qed.

(* every history, every allocation choice accepted by the guard *)
Theorem C01_history : forall c ops s s',
  cfg_ok c -> Inv c s -> Forall (op_ok c) ops -> run c s ops = Some s' ->
  forall b, read_block c s' b = flat_run c s ops (read_block c s) b.
Proof. exact run_read. Qed.

(* read-your-writes and frame for a write, spelled out *)
Theorem C01_write : forall c s off len v ch s',
  Inv c s -> 0 < c_bpc c -> off + len <= c_nclu c * c_bpc c ->
  write c s off len v ch = Some s' ->
  forall b, read_block c s' b = if inr off len b then v b else read_block c s b.
Proof. exact write_read. Qed.

(* the initial state loaded from an image file satisfies the invariant when the executable check says so *)
Theorem C01_initial : forall c maps rcs metas host,
  invb c maps rcs metas = true -> Inv c (mk_state maps rcs metas host).
Proof. exact invb_sound. Qed.

(* non-vacuity: a concrete history on a fresh 4-cluster image passes every guard and reads back *)
Example C01_nonvacuous :
  let c := {| c_bpc := 2; c_nclu := 4; c_vblocks := 8; c_backing := false; c_v2 := false;
              c_back := fun _ => 0; c_comp := fun _ _ => 0 |} in
  let s0 := mk_state [] [1; 1; 1; 1; 0; 0; 0; 0] [true; true; true; true] (fun _ _ => 0) in
  invb c [] [1; 1; 1; 1; 0; 0; 0; 0] [true; true; true; true] = true /\
  match run c s0 [OWrite 1 3 (fun b => 100 + b) (fun gc => 4 + gc); ODiscard 0 2; OWrite 2 1 (fun _ => 7) (fun _ => 9)] with
  | Some s => map (read_block c s) [0; 1; 2; 3; 4; 5] = [0; 0; 7; 103; 0; 0] /\ s_rc s 4 = 0 /\ s_rc s 5 = 1
  | None => False
  end.
Proof. vm_compute. repeat split; reflexivity. Qed.

Print Assumptions C01_step.
Print Assumptions C01_history.
Print Assumptions C01_write.
Print Assumptions C01_initial.
