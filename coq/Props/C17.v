(* C17 (part)  Over the abstract write-back model (Model/Flush.v): after a failed flush every slice that still differs
   from the file is still marked dirty and the flag is set, so repeating flush_meta writes it; right after a
   successful flush_meta (also one that follows failed ones) nothing differs from the file.  That the library's
   calls return Err without panicking, stay usable and leave only leaked clusters is enumerated over the request
   stream of sampled histories (checks/c17.py), not proved. *)
From Coq Require Import NArith List Bool.
From Q.Model Require Import Flush.
From Q.Proofs Require Import FlushProps.
Import ListNotations.
Open Scope N_scope.

Theorem C17_failed_flush_keeps_marks : forall ops w k,
  unsynced (frun finit (ops ++ [FFlushFail w])) k = true ->
  dirty (frun finit (ops ++ [FFlushFail w])) k = true /\ flag (frun finit (ops ++ [FFlushFail w])) = true.
Proof. exact failed_flush_keeps_marks. Qed.

Theorem C17_retry_reaches_the_file : forall ops k, unsynced (frun finit (ops ++ [FFlushOk])) k = false.
Proof. exact flush_ok_clean. Qed.

(* content form (Model/Flush.v: cst): a step, failed or not, leaves in the file for every slice either the old value or
   the value the running device reads *)
Theorem C17_file_holds_old_or_current : forall s o k,
  file (cstep s o) k = file s k \/ file (cstep s o) k = mem (cstep s o) k.
Proof. exact cstep_file_old_or_current. Qed.

Print Assumptions C17_failed_flush_keeps_marks.
Print Assumptions C17_retry_reaches_the_file.
Print Assumptions C17_file_holds_old_or_current.
