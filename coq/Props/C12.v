(* C12 (part)  Metadata growth at the level of the device model (Model/Dev.v): turning a free host cluster into a
   metadata cluster (new L2 table, new refcount block, relocated table - what the correspondence check absorbs as
   `grow` steps when the flushed file shows them) keeps refcounts exact and single ownership, changes no guest
   content, and is refused for a cluster that is not free.  That the library's growth paths complete without error
   and are crash-safe is explored (checks/c12.py; known finding F11), not proved. *)
From Coq Require Import NArith List Bool.
From Q.Model Require Import Dev.
From Q.Proofs Require Import DevProps.
Import ListNotations.
Open Scope N_scope.

Theorem C12_growth_keeps_invariant : forall c s h s', Inv c s -> grow s h = Some s' -> Inv c s'.
Proof. exact grow_inv. Qed.

Theorem C12_growth_keeps_content : forall c s h s', grow s h = Some s' -> forall b, read_block c s' b = read_block c s b.
Proof. exact grow_read. Qed.

Theorem C12_growth_needs_free_cluster : forall s h s', grow s h = Some s' -> s_rc s h = 0 /\ s_meta s h = false.
Proof.
  intros s h s' G. unfold grow in G. destruct (free s h) eqn:F; [|discriminate].
  unfold free in F. apply andb_prop in F as [F1 F2]. apply N.eqb_eq in F1. apply negb_true_iff in F2. split; assumption.
Qed.

Print Assumptions C12_growth_keeps_invariant.
Print Assumptions C12_growth_keeps_content.
Print Assumptions C12_growth_needs_free_cluster.
