(* C06 (part)  The slice cache never evicts an entry that is in use, hands every dirty victim back for
   write-back, and stays within its limit unless everything is in use.  These are statements about the model of
   src/cache.rs (Model/Cache.v), which checks/cachesim.py compares with the code through the cfg-gated hook
   cache::verif::cache_script.  Linearizability of whole operations under all interleavings is NOT covered by a
   theorem: it is explored by the deterministic-scheduler check (checks/conc.py). *)
From Coq Require Import NArith List Bool.
From Q.Model Require Import Cache.
From Q.Proofs Require Import CacheProps.
Import ListNotations.
Open Scope N_scope.

Theorem C06_no_in_use_eviction : forall s o s',
  uniq (c_ents s) -> cstep s o = Some s' ->
  uniq (c_ents s') /\ forall k, held_in (c_ents s) k -> has_in (c_ents s') k.
Proof. exact cstep_keeps_held. Qed.

Theorem C06_dirty_victims_returned : forall s k0 evs k,
  In k (returned s (CLoad k0 evs)) <-> In k evs /\ exists e, find s k = Some e /\ e_dirty e = true.
Proof. exact returned_spec. Qed.

Theorem C06_cache_bound : forall s k evs s',
  uniq (c_ents s) -> has s k = false -> cstep s (CLoad k evs) = Some s' ->
  len s' <= c_limit s \/ forall e, In e (c_ents s') -> e_key e <> k -> e_hold e <> 0.
Proof. exact load_bound. Qed.

(* non-vacuity: a script with a held entry and a dirty victim is accepted; evicting the held entry is refused *)
Example C06_nonvacuous :
  check_script (cinit 2)
    [(CLoad 1 [], [1], []); (CLoad 2 [], [1; 2], []); (CHold 1, [1; 2], []); (CDirty 2, [1; 2], []);
     (CLoad 3 [2], [1; 3], [2])] 0 = None /\
  check_script (cinit 2)
    [(CLoad 1 [], [1], []); (CLoad 2 [], [1; 2], []); (CHold 1, [1; 2], []); (CGet 2, [1; 2], []);
     (CLoad 3 [1], [2; 3], [])] 0 = Some 4.
Proof. vm_compute. split; reflexivity. Qed.

Print Assumptions C06_no_in_use_eviction.
Print Assumptions C06_dirty_victims_returned.
Print Assumptions C06_cache_bound.
