(* C15  Codec fidelity.  Pinned statements only: each theorem is closed by lemmas proved in
   Proofs/, stated over the functions REGENERATED from /repo/src (Gen/GenCodec.v) through the
   evaluator of Base/RExpr.v, and checked against the specification layout of Spec/Entries.v. *)
From Coq Require Import NArith List Bool Lia.
From Q.Base Require Import RExpr Bits.
From Q.Spec Require Import Entries.
From Q.Model Require Import Codec.
From Q.Gen Require Import GenCodec.
From Q.Proofs Require Import Geometry GenEq CodecProps RefcountProps AddrProps.
Import ListNotations.
Open Scope N_scope.

(* --- L1 / refcount-table entries: the code extracts the specification's fields --- *)
Theorem C15_l1_entry : forall v,
  call g_L1Entry_l2_offset [VInt v] = Ret (VInt (s_l1_offset v)) /\
  call g_L1Entry_is_copied [VInt v] = Ret (VBool (s_l1_copied v)).
Proof. intros. rewrite geq_l1_l2_offset, geq_l1_is_copied, l1_offset_spec, l1_copied_spec. auto. Qed.

Theorem C15_rt_entry : forall v,
  call g_RefTableEntry_refblock_offset [VInt v] = Ret (VInt (s_rt_offset v)) /\
  call g_RefTableEntry_reserved_bits [VInt v] = Ret (VInt (s_rt_reserved v)).
Proof. intros. rewrite geq_rt_refblock_offset, geq_rt_reserved_bits, rt_offset_spec, rt_reserved_spec. auto. Qed.

(* --- every L2 entry the specification permits decodes as the specification says --- *)
Theorem C15_l2_decode : forall i v g cb,
  info_rng i -> cluster_shift i = cb -> g < 2 ^ 64 -> s_l2_valid cb v = true ->
  call g_L2Entry_into_mapping [VInt v; v_info i; VInt g] = Ret (v_mapping (l2_into_mapping i v g)) /\
  dec_of_mapping (l2_into_mapping i v g) = s_l2_decode cb (has_back_file i) (g / 2 ^ cb * 2 ^ cb) v.
Proof.
  intros i v g cb R Hcs Hg Hv. split.
  - apply geq_l2_into_mapping; assumption.
  - pose proof R as R0; dR R0. subst cb. rewrite <- (cluster_offset_spec i R g Hg).
    apply into_mapping_spec; auto.
Qed.

(* --- ... and converts back to the same bits --- *)
Theorem C15_l2_roundtrip : forall i v g cb,
  info_rng i -> cluster_shift i = cb -> g < 2 ^ 56 -> s_l2_valid cb v = true ->
  call g_L2Entry_from_mapping [v_mapping (l2_into_mapping i v g); VInt cb] = Ret (VInt v).
Proof.
  intros i v g cb R Hcs Hg Hv. pose proof R as R0; dR R0.
  assert (Hcb : 9 <= cb <= 21) by (subst cb; assumption).
  assert (Hg64 : g < 2 ^ 64) by (eapply N.lt_trans; [exact Hg|reflexivity]).
  assert (Hco : sg_cluster_offset i g <= 72057594037927935).
  { rewrite (cluster_offset_spec i R g Hg64).
    pose proof (div_mul_le g (2 ^ cluster_shift i) (pow2_nz _)).
    change (2 ^ 56) with 72057594037927936 in Hg. lia. }
  rewrite geq_l2_from_mapping.
  - f_equal. f_equal. destruct (s_l2_compressed v) eqn:Ec.
    + apply roundtrip_compressed; assumption.
    + apply roundtrip_std; assumption.
  - assumption.
  - apply into_mapping_pre; auto.
Qed.

(* includes the entries on which the unrepaired code panicked (finding F27, fixed): a compressed
   entry whose byte budget reaches the cluster size *)
Definition f27_info : info := info_of 16 4 1048576 9 12 2 12 2 0.
Definition f27_entry : N := 2 ^ 62 + 128 * 2 ^ 54 + 65536 + 300.
Example C15_F27_fixed :
  s_l2_valid 16 f27_entry = true /\ s_l2_compressed f27_entry = true /\
  2 ^ 16 <= s_l2_clength 16 f27_entry /\
  call g_L2Entry_from_mapping [v_mapping (l2_into_mapping f27_info f27_entry 0); VInt 16] = Ret (VInt f27_entry).
Proof. vm_compute. repeat split; congruence. Qed.

(* --- refcount get/set of every width --- *)
Theorem C15_refcount : forall ro l i v,
  ro <= 6 -> bytes_ok l -> i < 2 ^ 60 -> v < 2 ^ 64 ->
  rb_in_range ro (N.of_nat (length l)) i ->
  (* values that do not fit are refused and nothing changes *)
  (2 ^ (2 ^ ro) <= v -> ro < 6 ->
     call g_RefBlock_set [v_rb l ro; VInt i; VInt v] = Ret (VTup [VRes (inr 1); VList l])) /\
  (* values that fit are stored; only the addressed entry changes; reads are the specification's *)
  (v < 2 ^ (2 ^ ro) -> exists l',
     call g_RefBlock_set [v_rb l ro; VInt i; VInt v] = Ret (VTup [VRes (inl (VTup [])); VList l']) /\
     length l' = length l /\
     call g_RefBlock_get [v_rb l' ro; VInt i] = Ret (VInt v) /\
     rb_get ro l' i = s_refcount_read ro (byte_at l') i /\
     (forall j, j <> i -> rb_get ro l' j = rb_get ro l j) /\
     (forall b, (b < i * 2 ^ ro / 8 \/ i * 2 ^ ro / 8 + N.max 1 (2 ^ ro / 8) <= b) ->
        byte_at l' b = byte_at l b)).
Proof.
  intros ro l i v Hro Hb Hi Hv Hr.
  split.
  - intros Hbig Hlt. rewrite geq_rb_set by assumption.
    rewrite rb_set_refuses by assumption. reflexivity.
  - intros Hfit. destruct (refcount_entry_laws ro Hro l i v Hb Hr Hfit) as (l' & A & B & C & D & E & F).
    exists l'. rewrite geq_rb_set by assumption. rewrite A. cbn [set_result].
    repeat split; auto.
    + rewrite geq_rb_get; auto.
      * rewrite D. reflexivity.
      * rewrite B. exact Hr.
    + apply rb_get_spec. assumption.
Qed.

(* --- index arithmetic partitions the address space, for every geometry --- *)
Theorem C15_guest_split : forall i g, info_rng i -> g < 2 ^ 64 ->
  let cb := cluster_shift i in
  call g_SplitGuestOffset_l1_index [VInt g; v_info i] = Ret (VInt (s_l1_index cb g)) /\
  call g_SplitGuestOffset_l2_index [VInt g; v_info i] = Ret (VInt (s_l2_index cb g)) /\
  s_l1_index cb g * s_l2_entries cb + s_l2_index cb g = g / 2 ^ cb /\
  sg_l2_slice_key i g * l2_slice_entries i + sg_l2_slice_index i g = g / 2 ^ cb /\
  call g_SplitGuestOffset_cluster_offset [VInt g; v_info i] = Ret (VInt (g / 2 ^ cb * 2 ^ cb)) /\
  g / 2 ^ cb * 2 ^ cb + sg_in_cluster_offset i g = g /\
  sg_l2_slice_off_in_table i g = sg_l2_index i g / l2_slice_entries i * 2 ^ l2_slice_bits i.
Proof.
  intros i g R Hg cb. subst cb.
  rewrite geq_sg_l1_index, geq_sg_l2_index, geq_sg_cluster_offset by assumption.
  rewrite (l1_index_spec i R), (l2_index_spec i R), (cluster_offset_spec i R g Hg).
  repeat split.
  - rewrite <- (l1_index_spec i R), <- (l2_index_spec i R). apply l1_l2_compose. assumption.
  - apply slice_compose. assumption.
  - rewrite <- (cluster_offset_spec i R g Hg). apply cluster_plus_in_cluster; assumption.
  - rewrite <- (l2_index_spec i R). apply slice_off_in_table_spec. assumption.
Qed.

Theorem C15_host_split : forall i h, info_rng i -> h < 2 ^ 63 ->
  let cb := cluster_shift i in
  call g_HostCluster_rt_index [VInt h; v_info i] = Ret (VInt (s_rt_index cb (refcount_order i) h)) /\
  call g_HostCluster_rb_index [VInt h; v_info i] = Ret (VInt (s_rb_index cb (refcount_order i) h)) /\
  s_rt_index cb (refcount_order i) h * s_rb_entries cb (refcount_order i)
    + s_rb_index cb (refcount_order i) h = h / 2 ^ cb /\
  hc_rb_slice_key i h * rb_slice_entries i + hc_rb_slice_index i h = h / 2 ^ cb /\
  call g_HostCluster_rb_slice_host_start [VInt h; v_info i]
    = Ret (VInt (hc_rb_slice_key i h * (rb_slice_entries i * 2 ^ cb))).
Proof.
  intros i h R Hh cb. subst cb.
  assert (Hh64 : h < 2 ^ 64) by (eapply N.lt_trans; [exact Hh|reflexivity]).
  rewrite geq_hc_rt_index, geq_hc_rb_index, geq_hc_rb_slice_host_start by assumption.
  rewrite (rt_index_spec i R), (rb_index_spec i R), (rb_slice_host_start_spec i R h Hh64).
  repeat split.
  - rewrite <- (rt_index_spec i R), <- (rb_index_spec i R), <- (rb_entries_spec i R), (rb_entries_pow i R).
    apply rt_rb_compose. assumption.
  - apply rb_slice_compose. assumption.
Qed.

(* non-vacuity: a concrete geometry and entry meet the hypotheses *)
Example C15_nonvacuous :
  info_rng f27_info /\ s_l2_valid 16 (2 ^ 63 + 5 * 65536) = true /\
  s_l2_valid 16 (2 ^ 62 + 3 * 2 ^ 54 + 70000) = true.
Proof.
  split; [apply info_of_rng; constructor; cbn; try lia; reflexivity|].
  vm_compute. repeat split; congruence.
Qed.

Check C15_l1_entry. Check C15_rt_entry. Check C15_l2_decode. Check C15_l2_roundtrip.
Check C15_refcount. Check C15_guest_split. Check C15_host_split.
Print Assumptions C15_l1_entry.
Print Assumptions C15_rt_entry.
Print Assumptions C15_l2_decode.
Print Assumptions C15_l2_roundtrip.
Print Assumptions C15_refcount.
Print Assumptions C15_guest_split.
Print Assumptions C15_host_split.
