(* C15, model side: the hand model of the codec layer (Model/Codec.v) agrees with the
   specification's bit layout (Spec/Entries.v), and encoding/decoding are mutually inverse. *)
From Coq Require Import NArith ZArith List Bool Lia.
From Q.Base Require Import Bits.
From Q.Spec Require Import Entries.
From Q.Model Require Import Codec.
Import ListNotations.
Open Scope N_scope.

Ltac Zify.zify_post_hook ::= Z.div_mod_to_equations.
Arguments N.add : simpl never.
Arguments N.sub : simpl never.
Arguments N.mul : simpl never.
Arguments N.div : simpl never.
Arguments N.modulo : simpl never.
Arguments N.pow : simpl never.
Arguments N.shiftl : simpl never.
Arguments N.shiftr : simpl never.
Arguments N.land : simpl never.
Arguments N.lor : simpl never.

Lemma bit_testbit v k : bit v k = N.testbit v k.
Proof. unfold bit, bits. change (2 ^ 1) with 2. symmetry. apply testbit_div. Qed.

Lemma flag_test v k : negb (N.land v (N.shiftl 1 k) =? 0) = bit v k.
Proof. rewrite shiftl_1, land_bit_ne0, bit_testbit. reflexivity. Qed.

(* ---------------- L1 / reftable entries ---------------- *)
Theorem l1_offset_spec v : l1_l2_offset v = s_l1_offset v.
Proof.
  unfold l1_l2_offset, s_l1_offset, bits, OFF_MASK.
  change 0x00fffffffffffe00 with (2 ^ 56 - 2 ^ 9).
  rewrite land_range by lia. reflexivity.
Qed.

Theorem l1_copied_spec v : l1_is_copied v = s_l1_copied v.
Proof. apply flag_test. Qed.

Theorem l1_reserved_spec v : v < 2 ^ 64 ->
  (l1_reserved_bits v = 0 <-> bits v 1 8 = 0 /\ bits v 56 7 = 0).
Proof.
  intros Hv. unfold l1_reserved_bits, bits.
  change 0x7f000000000001fe with (N.lor (2 ^ 63 - 2 ^ 56) (2 ^ 9 - 2 ^ 1)).
  rewrite N.land_lor_distr_r, N.lor_eq_0_iff.
  rewrite !land_range by lia.
  change (63 - 56) with 7. change (9 - 1) with 8.
  pose proof (pow2_pos 56). pose proof (pow2_pos 1).
  split; intros [A B]; split; nia.
Qed.

Theorem rt_offset_spec v : rt_refblock_offset v = s_rt_offset v.
Proof.
  unfold rt_refblock_offset, s_rt_offset, bits.
  change 0xfffffffffffffe00 with (2 ^ 64 - 2 ^ 9).
  rewrite land_range by lia. reflexivity.
Qed.

Theorem rt_reserved_spec v : rt_reserved_bits v = s_rt_reserved v.
Proof.
  unfold rt_reserved_bits, s_rt_reserved, bits.
  change 0x1ff with (2 ^ 9 - 1). rewrite land_pow2m1. change (2 ^ 0) with 1. now rewrite N.div_1_r.
Qed.

(* ---------------- L2 entries ---------------- *)
Theorem l2_offset_spec v : l2_cluster_offset v = s_l2_offset v.
Proof. apply l1_offset_spec. Qed.

Theorem l2_compressed_spec v : l2_is_compressed v = s_l2_compressed v.
Proof. apply flag_test. Qed.

Theorem l2_copied_spec v : l2_is_copied v = s_l2_copied v.
Proof. apply flag_test. Qed.

Theorem l2_zero_spec v : l2_is_zero v = s_l2_zero v.
Proof. apply flag_test. Qed.

Lemma cob_range cb : 9 <= cb <= 21 -> 49 <= 62 - (cb - 8) <= 61.
Proof. lia. Qed.

Theorem l2_compressed_range_spec cb v : 9 <= cb <= 21 ->
  l2_compressed_range cb v =
  if s_l2_compressed v then Some (s_l2_coffset cb v, s_l2_clength cb v) else None.
Proof.
  intros Hcb. unfold l2_compressed_range. rewrite l2_compressed_spec.
  destruct (s_l2_compressed v); [|reflexivity].
  unfold l2_compressed_descriptor, s_l2_clength, s_l2_coffset, s_l2_csectors, s_x, bits.
  pose proof (cob_range cb Hcb) as Hx. set (x := 62 - (cb - 8)) in *.
  change 0x3fffffffffffffff with (2 ^ 62 - 1). change 0x00ffffffffffffff with (2 ^ 56 - 1).
  rewrite shiftl_1, (pow2_mod_small x 64) by lia.
  rewrite !land_pow2m1. change 511 with (2 ^ 9 - 1). rewrite land_pow2m1.
  rewrite shiftr_div. change (2 ^ 0) with 1. rewrite N.div_1_r.
  rewrite (mod_pow2_mod_le v 62 x) by lia.
  rewrite (mod_pow2_min v x 56).
  rewrite (mod_div_pow2 v 62 x) by lia.
  change 512 with (2 ^ 9).
  reflexivity.
Qed.

(* ---------------- into_mapping = the specification's decoding ---------------- *)
Definition kind_of_src (s : N) : kind :=
  if s =? SRC_DATA then KData else if s =? SRC_BACKING then KBacking
  else if s =? SRC_ZERO then KZero else if s =? SRC_COMPRESSED then KCompressed else KUnalloc.

Definition dec_of_mapping (m : mapping) : decoded :=
  {| d_kind := kind_of_src (m_source m); d_off := m_offset m; d_len := m_clen m; d_copied := m_copied m |}.

Lemma bit_bits v k : bit v k = negb (bits v k 1 =? 0).
Proof. reflexivity. Qed.

Theorem into_mapping_spec i v g cb : cluster_shift i = cb -> 9 <= cb <= 21 ->
  s_l2_valid cb v = true ->
  dec_of_mapping (l2_into_mapping i v g)
  = s_l2_decode cb (has_back_file i) (sg_cluster_offset i g) v.
Proof.
  intros Hcs Hcb Hv. unfold l2_into_mapping, s_l2_decode. rewrite Hcs.
  rewrite l2_compressed_range_spec by assumption.
  destruct (s_l2_compressed v) eqn:Ec; [reflexivity|].
  rewrite l2_zero_spec, l2_offset_spec, l2_copied_spec.
  destruct (s_l2_zero v) eqn:Ez.
  - destruct (s_l2_offset v =? 0); reflexivity.
  - destruct (N.eqb_spec (s_l2_offset v) 0) as [E0|E0]; [|reflexivity].
    (* offset 0: validity excludes the COPIED bit *)
    unfold s_l2_valid in Hv. rewrite Ec in Hv.
    apply andb_prop in Hv as [_ Hv]. apply andb_prop in Hv as [_ Hv].
    rewrite E0 in Hv. cbn [N.eqb negb orb] in Hv. rewrite orb_false_r in Hv.
    apply negb_true_iff in Hv. rewrite Hv. cbn [orb].
    destruct (has_back_file i); reflexivity.
Qed.

(* a 64-bit word is the sum of its fields *)
Lemma hi_step v lo n : v / 2 ^ lo = bits v lo n + 2 ^ n * (v / 2 ^ (lo + n)).
Proof.
  unfold bits. rewrite N.pow_add_r, <- N.div_div by apply pow2_nz.
  rewrite N.add_comm. apply N.div_mod, pow2_nz.
Qed.

Lemma std_fields v : v < 2 ^ 64 ->
  v = bits v 0 1 + 2 * bits v 1 8 + 512 * bits v 9 47 + 2 ^ 56 * bits v 56 6
      + 2 ^ 62 * bits v 62 1 + 2 ^ 63 * bits v 63 1.
Proof.
  intros H.
  assert (E0 : v = v / 2 ^ 0) by (change (2 ^ 0) with 1; now rewrite N.div_1_r).
  pose proof (hi_step v 0 1) as E1. pose proof (hi_step v 1 8) as E2.
  pose proof (hi_step v 9 47) as E3. pose proof (hi_step v 56 6) as E4.
  pose proof (hi_step v 62 1) as E5. pose proof (hi_step v 63 1) as E6.
  assert (E7 : v / 2 ^ 64 = 0) by (apply N.div_small; assumption).
  change (0 + 1) with 1 in *. change (1 + 8) with 9 in *. change (9 + 47) with 56 in *.
  change (56 + 6) with 62 in *. change (62 + 1) with 63 in *. change (63 + 1) with 64 in *.
  change (2 ^ 1) with 2 in *. change (2 ^ 8) with 256 in *. change (2 ^ 47) with 140737488355328 in *.
  change (2 ^ 6) with 64 in *.
  change (2 ^ 56) with 72057594037927936. change (2 ^ 62) with 4611686018427387904.
  change (2 ^ 63) with 9223372036854775808.
  remember (v / 2 ^ 0) as h0. remember (v / 2 ^ 1) as h1. remember (v / 2 ^ 9) as h9.
  remember (v / 2 ^ 56) as h56. remember (v / 2 ^ 62) as h62. remember (v / 2 ^ 63) as h63.
  remember (v / 2 ^ 64) as h64.
  remember (bits v 0 1) as b0. remember (bits v 1 8) as b1. remember (bits v 9 47) as b9.
  remember (bits v 56 6) as b56. remember (bits v 62 1) as b62. remember (bits v 63 1) as b63.
  lia.
Qed.

Lemma bits1_cases v k : bits v k 1 = 0 \/ bits v k 1 = 1.
Proof. unfold bits. pose proof (bits_lt v k 1) as H. change (2 ^ 1) with 2 in *. remember ((v / 2 ^ k) mod 2) as x. clear Heqx. lia. Qed.

Lemma bit_false_bits v k : bit v k = false -> bits v k 1 = 0.
Proof. unfold bit. intros H. apply negb_false_iff in H. now apply N.eqb_eq. Qed.

Lemma bit_true_bits v k : bit v k = true -> bits v k 1 = 1.
Proof.
  unfold bit. intros H. apply negb_true_iff, N.eqb_neq in H. destruct (bits1_cases v k); congruence.
Qed.

Lemma mul512_mod x k : k <= 9 -> (x * 512) mod 2 ^ k = 0.
Proof.
  intros. change 512 with (2 ^ 9). replace 9 with ((9 - k) + k) by lia.
  rewrite N.pow_add_r, N.mul_assoc. apply N.mod_mul, pow2_nz.
Qed.

Theorem roundtrip_std i v g cb : cluster_shift i = cb -> 9 <= cb <= 21 ->
  s_l2_valid cb v = true -> s_l2_compressed v = false ->
  l2_from_mapping cb (l2_into_mapping i v g) = v.
Proof.
  intros Hcs Hcb Hv Ec.
  unfold s_l2_valid in Hv. rewrite Ec in Hv.
  apply andb_prop in Hv as [Hlt Hv]. apply andb_prop in Hv as [Hv Hcop]. apply andb_prop in Hv as [Hres Hal].
  apply N.ltb_lt in Hlt. unfold s_l2_std_reserved in Hres. apply andb_prop in Hres as [R1 R2].
  apply N.eqb_eq in R1, R2.
  pose proof (std_fields v Hlt) as F. rewrite R1, R2 in F.
  rewrite (bit_false_bits v 62 Ec) in F.
  unfold l2_into_mapping. rewrite Hcs, l2_compressed_range_spec, Ec by assumption.
  rewrite l2_zero_spec, l2_offset_spec, l2_copied_spec.
  unfold s_l2_offset, s_l2_zero, s_l2_copied in *.
  assert (Ho : bits v 9 47 * 512 < 2 ^ 56).
  { pose proof (bits_lt v 9 47). unfold bits. change (2 ^ 56) with (2 ^ 47 * 512). nia. }
  assert (H63 : N.shiftl 1 63 = 1 * 2 ^ 63) by (rewrite shiftl_1; lia).
  change (2 ^ 56) with 72057594037927936 in *. change (2 ^ 62) with 4611686018427387904 in *.
  change (2 ^ 63) with 9223372036854775808 in *.
  destruct (bit v 0) eqn:Ez.
  - (* zero flag *)
    apply bit_true_bits in Ez. rewrite Ez in F.
    destruct (N.eqb_spec (bits v 9 47 * 512) 0) as [E0|E0].
    + cbn [negb orb] in Hcop. rewrite orb_false_r in Hcop.
      apply negb_true_iff, bit_false_bits in Hcop.
      unfold l2_from_mapping; cbn [m_source m_offset m_clen m_copied andb].
      change (SRC_ZERO =? SRC_DATA) with false. change (SRC_ZERO =? SRC_BACKING) with false.
      change (SRC_ZERO =? SRC_ZERO) with true. cbv iota.
      change (N.lor 0 1) with 1. lia.
    + unfold l2_from_mapping; cbn [m_source m_offset m_clen m_copied andb].
      change (SRC_ZERO =? SRC_DATA) with false. change (SRC_ZERO =? SRC_BACKING) with false.
      change (SRC_ZERO =? SRC_ZERO) with true. cbv iota.
      destruct (bit v 63) eqn:Ec63.
      * apply bit_true_bits in Ec63. rewrite Ec63 in F.
        rewrite H63, (lor_high_low _ 1 63) by (change (2 ^ 63) with 9223372036854775808; lia).
        rewrite (lor_aligned_add _ 1 1).
        -- change (2 ^ 63) with 9223372036854775808. lia.
        -- change (1 * 2 ^ 63) with (16777216 * 1073741824 * 512).
           rewrite <- N.mul_add_distr_r. apply mul512_mod. lia.
        -- reflexivity.
      * apply bit_false_bits in Ec63. rewrite Ec63 in F.
        rewrite (lor_aligned_add _ 1 1); [lia|apply mul512_mod; lia|reflexivity].
  - apply bit_false_bits in Ez. rewrite Ez in F.
    destruct (N.eqb_spec (bits v 9 47 * 512) 0) as [E0|E0].
    + cbn [negb orb] in Hcop. rewrite orb_false_r in Hcop.
      apply negb_true_iff in Hcop. rewrite Hcop. cbn [orb].
      apply bit_false_bits in Hcop.
      destruct (has_back_file i); unfold l2_from_mapping; cbn [m_source]; 
        [change (SRC_BACKING =? SRC_DATA) with false; change (SRC_BACKING =? SRC_BACKING) with true
        |change (SRC_UNALLOC =? SRC_DATA) with false; change (SRC_UNALLOC =? SRC_BACKING) with false;
         change (SRC_UNALLOC =? SRC_ZERO) with false; change (SRC_UNALLOC =? SRC_COMPRESSED) with false];
        cbv iota; lia.
    + unfold l2_from_mapping; cbn [m_source m_offset m_clen m_copied].
      change (SRC_DATA =? SRC_DATA) with true. cbv iota.
      destruct (bit v 63) eqn:Ec63.
      * apply bit_true_bits in Ec63. rewrite Ec63 in F.
        rewrite H63, (lor_high_low _ 1 63) by (change (2 ^ 63) with 9223372036854775808; lia).
        change (2 ^ 63) with 9223372036854775808. lia.
      * apply bit_false_bits in Ec63. rewrite Ec63 in F. lia.
Qed.

Lemma mod_split v a b : v mod 2 ^ (a + b) = v mod 2 ^ a + 2 ^ a * bits v a b.
Proof. unfold bits. rewrite N.pow_add_r. apply N.mod_mul_r; apply pow2_nz. Qed.

Theorem roundtrip_compressed i v g cb : cluster_shift i = cb -> 9 <= cb <= 21 ->
  s_l2_valid cb v = true -> s_l2_compressed v = true ->
  l2_from_mapping cb (l2_into_mapping i v g) = v.
Proof.
  intros Hcs Hcb Hv Ec.
  unfold s_l2_valid in Hv. rewrite Ec in Hv.
  apply andb_prop in Hv as [Hlt Hv]. apply andb_prop in Hv as [Hc63 Hhi].
  apply N.ltb_lt in Hlt. apply negb_true_iff in Hc63. apply N.eqb_eq in Hhi.
  unfold l2_into_mapping. rewrite Hcs, l2_compressed_range_spec, Ec by assumption.
  unfold l2_from_mapping; cbn [m_source m_offset m_clen m_copied].
  change (SRC_COMPRESSED =? SRC_DATA) with false. change (SRC_COMPRESSED =? SRC_BACKING) with false.
  change (SRC_COMPRESSED =? SRC_ZERO) with false. change (SRC_COMPRESSED =? SRC_COMPRESSED) with true.
  cbv iota.
  unfold s_l2_clength, s_l2_csectors, s_l2_coffset in *. unfold s_x in *.
  pose proof (cob_range cb Hcb) as Hx. set (x := 62 - (cb - 8)) in *.
  set (o := bits v 0 (N.min x 56)). set (s := bits v x (62 - x)).
  change 511 with (2 ^ 9 - 1). rewrite land_pow2m1. change (2 ^ 9) with 512.
  (* sectors are recomputed exactly *)
  assert (Hom : o mod 512 < 512) by (apply N.mod_lt; discriminate).
  replace ((s + 1) * 512 - o mod 512 - 1 + o mod 512) with (s * 512 + 511) by lia.
  replace ((s * 512 + 511) / 512) with s.
  2:{ symmetry. rewrite N.add_comm. rewrite N.div_add by discriminate.
      rewrite N.div_small by reflexivity. reflexivity. }
  (* the word as the sum of its fields *)
  assert (Hs : s < 2 ^ (62 - x)) by apply bits_lt.
  assert (Hsx : s * 2 ^ x < 2 ^ 62).
  { assert (P : 2 ^ 62 = 2 ^ (62 - x) * 2 ^ x) by (rewrite <- N.pow_add_r; f_equal; lia).
    rewrite P. apply N.mul_lt_mono_pos_r; [apply pow2_pos|assumption]. }
  assert (Ho : o < 2 ^ x).
  { unfold o, bits. change (2 ^ 0) with 1. rewrite N.div_1_r.
    eapply N.lt_le_trans; [apply mod_pow2_lt|apply pow2_le_mono; lia]. }
  assert (Hv0 : v mod 2 ^ x = o).
  { unfold o, bits. change (2 ^ 0) with 1. rewrite N.div_1_r.
    destruct (N.le_gt_cases x 56) as [Hle|Hgt].
    - rewrite N.min_l by assumption. reflexivity.
    - rewrite N.min_r by lia. replace x with (56 + (x - 56)) at 1 by lia.
      rewrite mod_split, Hhi. lia. }
  assert (F : v = o + 2 ^ x * s + 2 ^ 62).
  { pose proof (hi_step v 0 x) as E1. pose proof (hi_step v x (62 - x)) as E2.
    pose proof (hi_step v 62 1) as E3. pose proof (hi_step v 63 1) as E4.
    assert (E5 : v / 2 ^ 64 = 0) by (apply N.div_small; assumption).
    replace (x + (62 - x)) with 62 in E2 by lia. change (0 + x) with x in E1.
    change (62 + 1) with 63 in *. change (63 + 1) with 64 in *.
    rewrite (bit_true_bits v 62 Ec) in E3. rewrite (bit_false_bits v 63 Hc63) in E4.
    change (2 ^ 0) with 1 in E1. rewrite N.div_1_r in E1.
    unfold bits in E1 at 1. change (2 ^ 0) with 1 in E1. rewrite N.div_1_r in E1. rewrite Hv0 in E1.
    fold s in E2. rewrite E5 in E4. rewrite E4 in E3. rewrite E3 in E2. rewrite E2 in E1.
    assert (P : 2 ^ x * 2 ^ (62 - x) = 2 ^ 62) by (rewrite <- N.pow_add_r; f_equal; lia).
    change (2 ^ 1) with 2 in E1. nia. }
  rewrite shiftl_1. rewrite shiftl_mul.
  rewrite (N.mod_small (s * 2 ^ x)) by (eapply N.lt_trans; [eassumption|reflexivity]).
  change (2 ^ 62) with (1 * 2 ^ 62) at 1. rewrite (lor_high_low _ 1 62) by assumption.
  rewrite (lor_aligned_add _ o x); [lia| |assumption].
  assert (P : 2 ^ 62 = 2 ^ (62 - x) * 2 ^ x) by (rewrite <- N.pow_add_r; f_equal; lia).
  rewrite P, N.mul_assoc, <- N.mul_add_distr_r. apply N.mod_mul, pow2_nz.
Qed.

Lemma valid_reserved_zero cb v : s_l2_valid cb v = true -> l2_reserved_bits v = 0.
Proof.
  intros Hv. unfold s_l2_valid in Hv. apply andb_prop in Hv as [_ Hv].
  unfold l2_reserved_bits. rewrite l2_compressed_spec.
  destruct (s_l2_compressed v).
  - apply andb_prop in Hv as [Hc _]. apply negb_true_iff in Hc. unfold s_l2_copied in Hc.
    change 0x8000000000000000 with (2 ^ 63). rewrite land_bit, <- bit_testbit, Hc. reflexivity.
  - apply andb_prop in Hv as [Hv _]. apply andb_prop in Hv as [Hr _].
    unfold s_l2_std_reserved in Hr. apply andb_prop in Hr as [R1 R2]. apply N.eqb_eq in R1, R2.
    change 0x3f000000000001fe with (N.lor (2 ^ 62 - 2 ^ 56) (2 ^ 9 - 2 ^ 1)).
    rewrite N.land_lor_distr_r, !land_range by lia.
    change (62 - 56) with 6. change (9 - 1) with 8. unfold bits in R1, R2. rewrite R1, R2. reflexivity.
Qed.

From Q.Proofs Require Import Geometry.

Lemma clength_ge1 cb v : 1 <= s_l2_clength cb v.
Proof.
  unfold s_l2_clength. pose proof (N.mod_lt (s_l2_coffset cb v) 512 ltac:(discriminate)).
  remember (s_l2_coffset cb v mod 512) as x. remember (s_l2_csectors cb v) as s. lia.
Qed.

Lemma csectors_lt cb v : 9 <= cb <= 21 -> s_l2_csectors cb v < 2 ^ (cb - 8).
Proof.
  intros H. unfold s_l2_csectors, bits, s_x. replace (62 - (62 - (cb - 8))) with (cb - 8) by lia.
  apply mod_pow2_lt.
Qed.

Lemma clength_le cb v : 9 <= cb <= 21 -> s_l2_clength cb v <= 2 ^ 23.
Proof.
  intros H. unfold s_l2_clength. pose proof (csectors_lt cb v H).
  pose proof (pow2_le_mono (cb - 8) 13 ltac:(lia)). change (2 ^ 13) with 8192 in *. change (2 ^ 23) with 8388608.
  remember (s_l2_csectors cb v) as s. remember (s_l2_coffset cb v mod 512) as x. lia.
Qed.

Lemma into_mapping_pre i v g cb : cluster_shift i = cb -> 9 <= cb <= 21 ->
  s_l2_valid cb v = true -> sg_cluster_offset i g <= 72057594037927935 ->
  from_mapping_pre cb (l2_into_mapping i v g).
Proof.
  intros Hcs Hcb Hv Hg.
  assert (Hrt : l2_from_mapping cb (l2_into_mapping i v g) = v).
  { destruct (s_l2_compressed v) eqn:Ec.
    - apply roundtrip_compressed; auto.
    - apply roundtrip_std; auto. }
  unfold from_mapping_pre. rewrite Hrt.
  split; [|split; [eapply valid_reserved_zero; eassumption|]].
  - (* offsets fit 56 bits *)
    unfold l2_into_mapping. rewrite Hcs, l2_compressed_range_spec by assumption.
    destruct (s_l2_compressed v); cbn [m_offset].
    + unfold s_l2_coffset, bits. change (2 ^ 0) with 1. rewrite N.div_1_r.
      pose proof (mod_pow2_lt v (N.min (s_x cb) 56)).
      pose proof (pow2_le_mono (N.min (s_x cb) 56) 56 ltac:(lia)).
      change (2 ^ 56) with 72057594037927936 in *. lia.
    + rewrite l2_offset_spec.
      assert (Ho : s_l2_offset v < 2 ^ 56).
      { unfold s_l2_offset, bits. pose proof (mod_pow2_lt (v / 2 ^ 9) 47).
        change (2 ^ 56) with (2 ^ 47 * 512). nia. }
      change (2 ^ 56) with 72057594037927936 in Ho.
      destruct (l2_is_zero v); cbn [m_offset].
      * destruct (s_l2_offset v =? 0); [exact I|lia].
      * destruct (s_l2_offset v =? 0); [|cbn [m_offset]; lia].
        destruct (l2_is_copied v || has_back_file i); cbn [m_offset]; lia.
  - unfold l2_into_mapping. rewrite Hcs, l2_compressed_range_spec by assumption.
    destruct (s_l2_compressed v) eqn:Ec; cbn [m_source m_clen m_copied m_offset].
    + right; right; right; left. repeat split; try reflexivity.
      eexists _, _. repeat split; try reflexivity; [apply clength_ge1|apply clength_le; assumption|].
      (* the recomputed sector count is the stored one *)
      unfold s_l2_clength. change 511 with (2 ^ 9 - 1). rewrite land_pow2m1. change (2 ^ 9) with 512.
      pose proof (N.mod_lt (s_l2_coffset cb v) 512 ltac:(discriminate)) as Hm.
      pose proof (csectors_lt cb v Hcb) as Hs.
      remember (s_l2_csectors cb v) as s. remember (s_l2_coffset cb v mod 512) as x.
      replace ((s + 1) * 512 - x - 1 + x) with (511 + s * 512) by lia.
      rewrite N.div_add by discriminate. rewrite N.div_small by reflexivity. exact Hs.
    + destruct (l2_is_zero v); cbn [m_source m_clen m_copied m_offset].
      * right; right; left. repeat split; try reflexivity.
        destruct (l2_cluster_offset v =? 0); cbn; intros; congruence.
      * destruct (l2_cluster_offset v =? 0).
        -- destruct (l2_is_copied v || has_back_file i); cbn [m_source m_clen m_copied m_offset].
           ++ right; left. auto.
           ++ right; right; right; right. reflexivity.
        -- left. repeat split; try reflexivity. cbn. congruence.
Qed.
