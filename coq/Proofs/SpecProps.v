(* What the executable specification checks (Spec/Image.v validb / safeb) mean for EVERY host cluster, not only
   for the clusters the checker happens to enumerate. *)
From Coq Require Import NArith List Bool Lia.
From Q.Spec Require Import Entries Image.
Import ListNotations.
Open Scope N_scope.

Lemma iter_range n : forall m l x, n <= m ->
  (In x (snd (N.iter n (fun p : N * list N => (N.pred (fst p), N.pred (fst p) :: snd p)) (m, l)))
   <-> (m - n <= x < m) \/ In x l) /\
  fst (N.iter n (fun p : N * list N => (N.pred (fst p), N.pred (fst p) :: snd p)) (m, l)) = m - n.
Proof.
  induction n as [|n IH] using N.peano_ind; intros m l x Hle.
  - cbn [N.iter]. cbn [fst snd]. split; [|lia]. split; [intros H; right; exact H|intros [H|H]; [lia|exact H]].
  - rewrite N.iter_succ. destruct (IH m l x ltac:(lia)) as [I F].
    set (r := N.iter n _ (m, l)) in *. cbn [fst snd]. rewrite F. split; [|lia].
    cbn [In]. rewrite I. split.
    + intros [H|[H|H]]; [left; lia|left; lia|right; exact H].
    + intros [H|H]; [|right; right; exact H].
      destruct (N.eq_dec x (N.pred (m - n))) as [E|E]; [left; symmetry; exact E|right; left; lia].
Qed.

Lemma nrange_In n x : In x (nrange n) <-> x < n.
Proof.
  unfold nrange. destruct (iter_range n n [] x ltac:(lia)) as [I _]. rewrite I. cbn [In]. lia.
Qed.

Lemma count_notin c l : ~ In c l -> count c l = 0.
Proof.
  induction l as [|x t IH]; intros H; cbn [count]; [reflexivity|].
  destruct (N.eqb_spec x c) as [->|E]; [exfalso; apply H; left; reflexivity|].
  rewrite IH; [reflexivity|]. intros Hin. apply H. right. exact Hin.
Qed.

Section S.
  Variable rd : N -> N.
  Variable h : hdr.

  (* a cluster with a non-zero stored refcount is enumerated by covered_nonzero *)
  Lemma stored_covered c : 0 < rbe h -> stored rd h c <> 0 -> In (c, stored rd h c) (covered_nonzero rd h).
  Proof.
    intros Hr Hs. unfold stored in *. destruct (c / rbe h <? rt_entries h) eqn:Lt; [|contradiction].
    destruct (s_rt_offset (rt_entry rd h (c / rbe h)) =? 0) eqn:Z; [contradiction|].
    unfold covered_nonzero. apply in_flat_map. exists (c / rbe h). split.
    - unfold rt_nonzero. apply filter_In. split; [apply nrange_In; apply N.ltb_lt; exact Lt|rewrite Z; reflexivity].
    - apply filter_In. split.
      + apply in_map_iff. exists (c mod rbe h). split.
        * f_equal. pose proof (N.div_mod' c (rbe h)). lia.
        * apply nrange_In. apply N.mod_lt. lia.
      + cbn [snd]. apply negb_true_iff. apply N.eqb_neq. exact Hs.
  Qed.

  Theorem refcounts_exact_sound :
    0 < rbe h -> refcounts_exact rd h = true -> forall c, stored rd h c = refs rd h c.
  Proof.
    intros Hr E c. unfold refcounts_exact in E. apply andb_prop in E as [E1 E2].
    rewrite forallb_forall in E1, E2. unfold refs.
    destruct (in_dec N.eq_dec c (ref_list rd h)) as [Hin|Hn].
    - apply N.eqb_eq. exact (E1 c Hin).
    - rewrite (count_notin c _ Hn).
      destruct (N.eq_dec (stored rd h c) 0) as [Z|NZ]; [exact Z|].
      specialize (E2 _ (stored_covered c Hr NZ)). cbn [fst] in E2. rewrite (count_notin c _ Hn) in E2. discriminate.
  Qed.

  Theorem refcounts_safe_sound :
    refcounts_safe rd h = true -> forall c, refs rd h c <= stored rd h c.
  Proof.
    intros E c. unfold refcounts_safe in E. rewrite forallb_forall in E. unfold refs.
    destruct (in_dec N.eq_dec c (ref_list rd h)) as [Hin|Hn].
    - apply N.leb_le. exact (E c Hin).
    - rewrite (count_notin c _ Hn). lia.
  Qed.

  Lemma rbe_pos : hdr_supported h = true -> 0 < rbe h.
  Proof.
    unfold hdr_supported, hdr_features_ok. intros H.
    repeat (apply andb_prop in H as [H ?]).
    repeat match goal with X : (_ <=? _) = true |- _ => apply N.leb_le in X end.
    unfold rbe. apply N.div_str_pos. split; [apply N.neq_0_lt_0, N.pow_nonzero; lia|].
    assert (2 ^ h_ro h <= 2 ^ 6) by (apply N.pow_le_mono_r; lia).
    assert (2 ^ 9 <= 2 ^ h_cb h) by (apply N.pow_le_mono_r; lia).
    change (2 ^ 6) with 64 in *. change (2 ^ 9) with 512 in *. lia.
  Qed.

  (* C03: a file accepted by validb has, for every host cluster, stored refcount = number of references; and
     every cluster referenced through a COPIED entry is referenced exactly once *)
  Theorem validb_sound :
    validb rd h = true ->
    (forall c, stored rd h c = refs rd h c) /\ (forall c, In c (copied_refs rd h) -> refs rd h c = 1).
  Proof.
    unfold validb. intros V. apply andb_prop in V as [V C]. apply andb_prop in V as [V E]. apply andb_prop in V as [Hs _].
    pose proof (refcounts_exact_sound (rbe_pos Hs) E) as X. split; [exact X|].
    intros c Hc. unfold copied_single in C. rewrite forallb_forall in C. specialize (C c Hc).
    apply N.eqb_eq in C. rewrite <- X. exact C.
  Qed.

  Theorem validb_short_l1_sound :
    validb_short_l1 rd h = true ->
    (forall c, stored rd h c = refs rd h c) /\ (forall c, In c (copied_refs rd h) -> refs rd h c = 1).
  Proof.
    unfold validb_short_l1. intros V. apply andb_prop in V as [V C]. apply andb_prop in V as [V E]. apply andb_prop in V as [Hs _].
    pose proof (refcounts_exact_sound (rbe_pos Hs) E) as X. split; [exact X|].
    intros c Hc. unfold copied_single in C. rewrite forallb_forall in C. specialize (C c Hc).
    apply N.eqb_eq in C. rewrite <- X. exact C.
  Qed.

  (* C04: a file accepted by safeb has no under-counted cluster at all *)
  Theorem safeb_sound : safeb rd h = true -> forall c, refs rd h c <= stored rd h c.
  Proof.
    unfold safeb. intros V. apply andb_prop in V as [_ E]. exact (refcounts_safe_sound E).
  Qed.

  Theorem safeb_short_l1_sound : safeb_short_l1 rd h = true -> forall c, refs rd h c <= stored rd h c.
  Proof.
    unfold safeb_short_l1. intros V. apply andb_prop in V as [_ E]. exact (refcounts_safe_sound E).
  Qed.
End S.
