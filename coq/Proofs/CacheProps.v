(* Properties of the slice-cache model (Model/Cache.v): an entry that a user holds is never evicted,
   whatever victims the step is given; keys stay unique; after an accepted load the cache is within its
   limit unless every remaining entry is in use. *)
From Coq Require Import NArith List Bool Lia.
From Q.Model Require Import Cache.
Import ListNotations.
Open Scope N_scope.

Definition held_in (l : list ent) (k : N) : Prop := exists e, In e l /\ e_key e = k /\ e_hold e <> 0.
Definition has_in (l : list ent) (k : N) : Prop := exists e, In e l /\ e_key e = k.

Lemma find_some_in {A} (f : A -> bool) l x : List.find f l = Some x -> In x l /\ f x = true.
Proof. apply find_some. Qed.

Lemma remove_key_keeps l k e : In e l -> e_key e <> k -> In e (remove_key l k).
Proof.
  intros H Hk. unfold remove_key. apply filter_In. split; [exact H|].
  apply negb_true_iff. apply N.eqb_neq. exact Hk.
Qed.

Lemma evictable_unused l k : evictable l k = true -> exists e, In e l /\ e_key e = k /\ e_hold e = 0.
Proof.
  unfold evictable. destruct (List.find (fun e => e_key e =? k) l) as [e|] eqn:F; [|discriminate].
  intros H. apply andb_prop in H as [U _]. apply find_some_in in F as [Hin Hk].
  exists e. split; [exact Hin|]. split; [apply N.eqb_eq; exact Hk|]. unfold unused in U. apply N.eqb_eq. exact U.
Qed.

(* keys are unique: stated on the key list *)
Definition uniq (l : list ent) : Prop := NoDup (map e_key l).

Lemma uniq_same_key l e1 e2 : uniq l -> In e1 l -> In e2 l -> e_key e1 = e_key e2 -> e1 = e2.
Proof.
  unfold uniq. induction l as [|a l IH]; intros U H1 H2 Hk; [contradiction|].
  cbn [map] in U. inversion U as [|? ? Hn U']; subst.
  destruct H1 as [->|H1], H2 as [->|H2].
  - reflexivity.
  - exfalso. apply Hn. rewrite Hk. apply in_map. exact H2.
  - exfalso. apply Hn. rewrite <- Hk. apply in_map. exact H1.
  - exact (IH U' H1 H2 Hk).
Qed.

Lemma uniq_filter l f : uniq l -> uniq (filter f l).
Proof.
  unfold uniq. induction l as [|a l IH]; intros U; cbn [filter map]; [constructor|].
  cbn [map] in U. inversion U as [|? ? Hn U']; subst.
  destruct (f a); cbn [map]; [constructor|]; [|apply IH; exact U'|apply IH; exact U'].
  intros Hin. apply Hn. apply in_map_iff in Hin as [x [Hx Hinx]]. apply filter_In in Hinx as [Hinx _].
  rewrite <- Hx. apply in_map. exact Hinx.
Qed.

Lemma evict_n_keeps_held n : forall l limit w evs l',
  uniq l -> evict_n n l limit w evs = Some l' ->
  uniq l' /\ (forall e, In e l -> e_hold e <> 0 -> In e l') /\ (forall e, In e l' -> In e l) /\
  ((N.of_nat (length l') + w <= limit) \/ forall e, In e l' -> e_hold e <> 0).
Proof.
  induction n as [|n IH]; intros l limit w evs l' U E; cbn [evict_n] in E.
  - destruct evs; [|discriminate].
    destruct ((N.of_nat (length l) + w <=? limit) || forallb (fun e => negb (unused e)) l) eqn:C; [|discriminate].
    injection E as <-. split; [exact U|]. split; [auto|]. split; [auto|].
    apply orb_prop in C as [C|C]; [left; apply N.leb_le; exact C|right].
    rewrite forallb_forall in C. intros e He. specialize (C e He). unfold unused in C.
    apply negb_true_iff in C. apply N.eqb_neq. exact C.
  - destruct evs as [|x evs].
    + destruct ((N.of_nat (length l) + w <=? limit) || forallb (fun e => negb (unused e)) l) eqn:C; [|discriminate].
      injection E as <-. split; [exact U|]. split; [auto|]. split; [auto|].
      apply orb_prop in C as [C|C]; [left; apply N.leb_le; exact C|right].
      rewrite forallb_forall in C. intros e He. specialize (C e He). unfold unused in C.
      apply negb_true_iff in C. apply N.eqb_neq. exact C.
    + destruct (List.find (evictable l) (x :: evs)) as [k|] eqn:F; [|discriminate].
      destruct (limit <? N.of_nat (length l) + w); [|discriminate].
      apply find_some_in in F as [_ Ev]. destruct (evictable_unused l k Ev) as [ek [Hin [Hk H0]]].
      destruct (IH (remove_key l k) limit w _ l' (uniq_filter l _ U) E) as [U' [K [Sub B]]].
      split; [exact U'|]. split; [|split; [|exact B]].
      * intros e He Hh. apply K; [|exact Hh]. apply remove_key_keeps; [exact He|].
        intros Hke. assert (e = ek) by (apply (uniq_same_key l); try assumption; congruence). subst e. contradiction.
      * intros e He. specialize (Sub e He). unfold remove_key in Sub. apply filter_In in Sub as [Sub _]. exact Sub.
Qed.

Lemma evict_keeps_held l limit w evs l' :
  uniq l -> evict l limit w evs = Some l' ->
  uniq l' /\ (forall e, In e l -> e_hold e <> 0 -> In e l') /\ (forall e, In e l' -> In e l) /\
  ((N.of_nat (length l') + w <= limit) \/ forall e, In e l' -> e_hold e <> 0).
Proof. apply evict_n_keeps_held. Qed.


Lemma NoDup_remove_2' (l : list N) (k : N) : NoDup l -> ~ In k l -> NoDup (l ++ [k]).
Proof.
  induction l as [|a l IH]; intros U Hn; cbn [app]; [repeat constructor; intros []|].
  inversion U as [|? ? Ha U']; subst. constructor.
  - intros Hin. apply in_app_or in Hin as [Hin|[<-|[]]]; [contradiction|]. apply Hn. left. reflexivity.
  - apply IH; [exact U'|]. intros Hin. apply Hn. right. exact Hin.
Qed.

Lemma map_keys (f : ent -> ent) l : (forall e, e_key (f e) = e_key e) -> map e_key (map f l) = map e_key l.
Proof. intros H. rewrite map_map. apply map_ext. exact H. Qed.

Lemma has_in_map (f : ent -> ent) l k : (forall e, e_key (f e) = e_key e) -> has_in l k -> has_in (map f l) k.
Proof. intros H [e [Hin Hk]]. exists (f e). split; [apply in_map; exact Hin|rewrite H; exact Hk]. Qed.

Lemma touch_keys s k f : (forall e, e_key (f e) = e_key e) -> map e_key (c_ents (touch s k f)) = map e_key (c_ents s).
Proof.
  intros H. unfold touch. destruct (has s k); [|reflexivity]. cbn [c_ents]. apply map_keys.
  intros e. destruct (e_key e =? k); [rewrite H|]; reflexivity.
Qed.

Lemma has_in_keys l k : has_in l k <-> In k (map e_key l).
Proof.
  split.
  - intros [e [Hin Hk]]. rewrite <- Hk. apply in_map. exact Hin.
  - intros H. apply in_map_iff in H as [e [Hk Hin]]. exists e. split; assumption.
Qed.

(* the main statement: whatever the step and whatever victims it is given, an entry that is held before the
   step is still cached after it, and keys stay unique *)
Theorem cstep_keeps_held s o s' :
  uniq (c_ents s) -> cstep s o = Some s' ->
  uniq (c_ents s') /\ forall k, held_in (c_ents s) k -> has_in (c_ents s') k.
Proof.
  intros U S. destruct o as [k evs|k|k|k|k|]; cbn [cstep] in S.
  - destruct (has s k) eqn:H.
    + cbv zeta in S.
      pose (bump := fun d : N -> N => map (fun e => if e_key e =? k then {| e_key := e_key e; e_lru := e_lru e; e_hold := d (e_hold e); e_dirty := e_dirty e |} else e)).
      change (match evict (bump (fun h => h + 1) (c_ents s)) (c_limit s) 0 evs with
              | Some l => Some {| c_ents := bump (fun h => h - 1) l; c_timer := c_timer s; c_limit := c_limit s |}
              | None => None end = Some s') in S.
      destruct (evict (bump (fun h => h + 1) (c_ents s)) (c_limit s) 0 evs) as [l|] eqn:E; [|discriminate].
      injection S as <-. cbn [c_ents].
      assert (KB : forall d e, e_key ((fun e => if e_key e =? k then {| e_key := e_key e; e_lru := e_lru e; e_hold := d (e_hold e); e_dirty := e_dirty e |} else e) e) = e_key e)
        by (intros d e; destruct (e_key e =? k); reflexivity).
      assert (U1 : uniq (bump (fun h => h + 1) (c_ents s))) by (unfold uniq, bump; rewrite map_keys by (intros e0; destruct (e_key e0 =? k); reflexivity); exact U).
      destruct (evict_keeps_held _ _ _ _ _ U1 E) as [U2 [K _]].
      split; [unfold uniq, bump; rewrite map_keys by (intros e0; destruct (e_key e0 =? k); reflexivity); exact U2|].
      intros k' [e [Hin [Hk Hh]]]. apply has_in_map; [intros e0; destruct (e_key e0 =? k); reflexivity|].
      set (e' := if e_key e =? k then {| e_key := e_key e; e_lru := e_lru e; e_hold := e_hold e + 1; e_dirty := e_dirty e |} else e).
      exists e'. split.
      * apply K; [unfold bump; apply in_map_iff; exists e; split; [reflexivity|exact Hin]|].
        unfold e'. destruct (e_key e =? k); cbn [e_hold]; [lia|exact Hh].
      * unfold e'. destruct (e_key e =? k); exact Hk.
    + destruct (evict (c_ents s) (c_limit s) 1 evs) as [l|] eqn:E; [|discriminate].
      injection S as <-. cbn [c_ents]. destruct (evict_keeps_held _ _ _ _ _ U E) as [U2 [K [Sub _]]]. split.
      * unfold uniq. rewrite map_app. cbn [map e_key].
        apply NoDup_remove_2' ; [exact U2|].
        intros Hx. apply in_map_iff in Hx as [e [Hke He]]. specialize (Sub e He).
        unfold has in H. assert (X : existsb (fun e0 => e_key e0 =? k) (c_ents s) = true)
          by (apply existsb_exists; exists e; split; [exact Sub|apply N.eqb_eq; exact Hke]).
        rewrite X in H. discriminate.
      * intros k' [e [Hin [Hk Hh]]]. exists e. split; [apply in_or_app; left; apply K; assumption|exact Hk].
  - injection S as <-. split.
    + unfold uniq. rewrite touch_keys by (intros; reflexivity). exact U.
    + intros k' [e [Hin [Hk _]]]. apply has_in_keys. rewrite touch_keys by (intros; reflexivity). apply has_in_keys. exists e. split; assumption.
  - injection S as <-. cbn [c_ents]. split.
    + unfold uniq. rewrite map_keys; [exact U|]. intros e. destruct (e_key e =? k); reflexivity.
    + intros k' [e [Hin [Hk _]]]. apply has_in_map; [intros e0; destruct (e_key e0 =? k); reflexivity|]. exists e. split; assumption.
  - injection S as <-. split.
    + unfold uniq. rewrite touch_keys by (intros; reflexivity). exact U.
    + intros k' [e [Hin [Hk _]]]. apply has_in_keys. rewrite touch_keys by (intros; reflexivity). apply has_in_keys. exists e. split; assumption.
  - injection S as <-. split.
    + unfold uniq. rewrite touch_keys by (intros; reflexivity). exact U.
    + intros k' [e [Hin [Hk _]]]. apply has_in_keys. rewrite touch_keys by (intros; reflexivity). apply has_in_keys. exists e. split; assumption.
  - injection S as <-. cbn [c_ents]. split; [apply uniq_filter; exact U|].
    intros k' [e [Hin [Hk Hh]]]. exists e. split; [|exact Hk]. apply filter_In. split; [exact Hin|].
    unfold unused. destruct (N.eqb_spec (e_hold e) 0); [contradiction|reflexivity].
Qed.

(* dirty victims are handed back for write-back: `returned` is exactly the dirty part of the victims *)
Theorem returned_spec s k0 evs k :
  In k (returned s (CLoad k0 evs)) <-> In k evs /\ exists e, find s k = Some e /\ e_dirty e = true.
Proof.
  cbn [returned]. rewrite filter_In. split.
  - intros [Hin Hd]. split; [exact Hin|]. destruct (find s k) as [e|]; [|discriminate]. exists e. split; [reflexivity|exact Hd].
  - intros [Hin [e [F D]]]. split; [exact Hin|]. rewrite F. exact D.
Qed.

(* after an accepted load of a new key the cache is within its limit, or every older entry is in use *)
Theorem load_bound s k evs s' :
  uniq (c_ents s) -> has s k = false -> cstep s (CLoad k evs) = Some s' ->
  len s' <= c_limit s \/ forall e, In e (c_ents s') -> e_key e <> k -> e_hold e <> 0.
Proof.
  intros U H S. cbn [cstep] in S. rewrite H in S.
  destruct (evict (c_ents s) (c_limit s) 1 evs) as [l|] eqn:E; [|discriminate]. injection S as <-.
  destruct (evict_keeps_held _ _ _ _ _ U E) as [_ [_ [_ B]]]. unfold len. cbn [c_ents].
  rewrite app_length, Nat2N.inj_add. cbn [length]. destruct B as [B|B]; [left; lia|right].
  intros e He Hk. apply in_app_or in He as [He|[<-|[]]]; [exact (B e He)|]. cbn [e_key] in Hk. contradiction.
Qed.
