(* Tie A: the functions regenerated from /repo/src (Gen/GenCodec.v) evaluate, in the
   semantics of Base/RExpr.v, to the hand model of Model/Codec.v -- for all arguments in
   the stated ranges, with no panic and no arithmetic overflow. *)
From Coq Require Import NArith ZArith List Bool Lia.
From Q.Base Require Import RExpr Bits.
From Q.Model Require Import Codec.
From Q.Gen Require Import GenCodec.
From Q.Proofs Require Import Geometry.
Import ListNotations.
Open Scope N_scope.

Ltac Zify.zify_post_hook ::= Z.div_mod_to_equations.
Arguments N.add : simpl never.
Arguments N.sub : simpl never.
Arguments N.mul : simpl never.
Arguments N.div : simpl never.
Arguments N.modulo : simpl never.
Arguments N.pow : simpl never.
Arguments N.shiftl : simpl never.
Arguments N.shiftr : simpl never.
Arguments N.land : simpl never.
Arguments N.lor : simpl never.
Arguments N.ltb : simpl never.
Arguments N.leb : simpl never.
Arguments N.eqb : simpl never.


Ltac rxi := unfold v_info, v_mapping, v_opt; rx.
(* rewrite calls of already-proved callees, discharging their side conditions *)
Ltac refold :=
  repeat match goal with i : info |- _ => progress fold (v_info i) end;
  repeat match goal with m : mapping |- _ => progress fold (v_mapping m) end.
Ltac lit_pows := change (2 ^ 32) with 4294967296 in *; change (2 ^ 64) with 18446744073709551616 in *.
Ltac small_mods :=
  repeat match goal with
  | |- context [?x mod 256] => rewrite (N.mod_small x 256) by lia
  | |- context [?x mod 4294967296] => rewrite (N.mod_small x 4294967296) by lia
  end.
Ltac side := solve [eassumption | lia | constructor; assumption].
Ltac calls := repeat (refold; lit_pows; small_mods; progress (autorewrite with geq); try side; rxi).

(* discharge one arithmetic check of the evaluator: the failing branch must be impossible *)
Ltac chk :=
  match goal with
  | |- context [if ?a <? ?b then _ else Overflow] =>
      destruct (N.ltb_spec a b); [rx | exfalso; try lia]
  | |- context [if ?a <=? ?b then _ else Overflow] =>
      destruct (N.leb_spec a b); [rx | exfalso; try lia]
  | |- context [if ?a <? ?b then _ else Panic] =>
      destruct (N.ltb_spec a b); [rx | exfalso; try lia]
  | |- context [if ?a =? 0 then Panic else _] =>
      destruct (N.eqb_spec a 0); [exfalso; try lia | rx]
  end.

(* ---------------- entries ---------------- *)
Lemma geq_l1_l2_offset v :
  call g_L1Entry_l2_offset [VInt v] = Ret (VInt (l1_l2_offset v)).
Proof. reflexivity. Qed.
#[export] Hint Rewrite geq_l1_l2_offset : geq.

Lemma geq_l1_is_copied v :
  call g_L1Entry_is_copied [VInt v] = Ret (VBool (l1_is_copied v)).
Proof. reflexivity. Qed.
#[export] Hint Rewrite geq_l1_is_copied : geq.

Lemma geq_l1_is_zero v :
  call g_L1Entry_is_zero [VInt v] = Ret (VBool (l1_is_zero v)).
Proof. reflexivity. Qed.
#[export] Hint Rewrite geq_l1_is_zero : geq.

Lemma geq_l1_reserved_bits v :
  call g_L1Entry_reserved_bits [VInt v] = Ret (VInt (l1_reserved_bits v)).
Proof. reflexivity. Qed.
#[export] Hint Rewrite geq_l1_reserved_bits : geq.

Lemma geq_rt_refblock_offset v :
  call g_RefTableEntry_refblock_offset [VInt v] = Ret (VInt (rt_refblock_offset v)).
Proof. reflexivity. Qed.
#[export] Hint Rewrite geq_rt_refblock_offset : geq.

Lemma geq_rt_is_zero v :
  call g_RefTableEntry_is_zero [VInt v] = Ret (VBool (rt_is_zero v)).
Proof. reflexivity. Qed.
#[export] Hint Rewrite geq_rt_is_zero : geq.

Lemma geq_rt_reserved_bits v :
  call g_RefTableEntry_reserved_bits [VInt v] = Ret (VInt (rt_reserved_bits v)).
Proof. reflexivity. Qed.
#[export] Hint Rewrite geq_rt_reserved_bits : geq.

Lemma geq_l2_cluster_offset v :
  call g_L2Entry_cluster_offset [VInt v] = Ret (VInt (l2_cluster_offset v)).
Proof. reflexivity. Qed.
#[export] Hint Rewrite geq_l2_cluster_offset : geq.

Lemma geq_l2_is_compressed v :
  call g_L2Entry_is_compressed [VInt v] = Ret (VBool (l2_is_compressed v)).
Proof. reflexivity. Qed.
#[export] Hint Rewrite geq_l2_is_compressed : geq.

Lemma geq_l2_is_copied v :
  call g_L2Entry_is_copied [VInt v] = Ret (VBool (l2_is_copied v)).
Proof. reflexivity. Qed.
#[export] Hint Rewrite geq_l2_is_copied : geq.

Lemma geq_l2_is_zero v :
  call g_L2Entry_is_zero [VInt v] = Ret (VBool (l2_is_zero v)).
Proof. reflexivity. Qed.
#[export] Hint Rewrite geq_l2_is_zero : geq.

Lemma geq_l2_reserved_bits v :
  call g_L2Entry_reserved_bits [VInt v] = Ret (VInt (l2_reserved_bits v)).
Proof.
  unfold g_L2Entry_reserved_bits, l2_reserved_bits. rx. rewrite geq_l2_is_compressed. rx.
  destruct (l2_is_compressed v); reflexivity.
Qed.
#[export] Hint Rewrite geq_l2_reserved_bits : geq.

Lemma geq_l2_compressed_descriptor v :
  call g_L2Entry_compressed_descriptor [VInt v] = Ret (VInt (l2_compressed_descriptor v)).
Proof. reflexivity. Qed.
#[export] Hint Rewrite geq_l2_compressed_descriptor : geq.

(* ---------------- geometry-dependent functions ---------------- *)
Ltac geq := rxi; calls; lit_pows; small_mods; repeat (chk; calls; small_mods); try reflexivity.
Ltac geqi := unfold shl64, shl32 in *; geq.

(* --- Qcow2Info helpers --- *)
Lemma geq_cluster_bits i : call g_Qcow2Info_cluster_bits [v_info i] = Ret (VInt (cluster_shift i)).
Proof. reflexivity. Qed.
#[export] Hint Rewrite geq_cluster_bits : geq.

Lemma geq_has_back_file i : call g_Qcow2Info_has_back_file [v_info i] = Ret (VBool (has_back_file i)).
Proof. reflexivity. Qed.
#[export] Hint Rewrite geq_has_back_file : geq.

Lemma geq_cluster_size i : info_rng i ->
  call g_Qcow2Info_cluster_size [v_info i] = Ret (VInt (cluster_size i)).
Proof. intros R0; dR R0. unfold g_Qcow2Info_cluster_size, cluster_size. geqi. Qed.
#[export] Hint Rewrite geq_cluster_size : geq.

Lemma geq_rb_entries i : info_rng i ->
  call g_Qcow2Info_rb_entries [v_info i] = Ret (VInt (rb_entries i)).
Proof. intros R. pose proof R as R0; dR R0. unfold g_Qcow2Info_rb_entries, rb_entries. geqi. Qed.
#[export] Hint Rewrite geq_rb_entries : geq.

Lemma geq_l2_entries i : info_rng i ->
  call g_Qcow2Info_l2_entries [v_info i] = Ret (VInt (l2_entries i)).
Proof. intros R. pose proof R as R0; dR R0. unfold g_Qcow2Info_l2_entries, l2_entries. geqi. Qed.
#[export] Hint Rewrite geq_l2_entries : geq.

Lemma geq_rb_slice_entries i : info_rng i ->
  call g_Qcow2Info_rb_slice_entries [v_info i] = Ret (VInt (rb_slice_entries i)).
Proof. intros R0; dR R0. unfold g_Qcow2Info_rb_slice_entries, rb_slice_entries. geqi. Qed.
#[export] Hint Rewrite geq_rb_slice_entries : geq.

Lemma geq_in_cluster_offset i off :
  call g_Qcow2Info_in_cluster_offset [v_info i; VInt off] = Ret (VInt (in_cluster_offset i off)).
Proof. unfold g_Qcow2Info_in_cluster_offset, in_cluster_offset. geqi. Qed.
#[export] Hint Rewrite geq_in_cluster_offset : geq.

Lemma geq_cluster_round_down i off :
  call g_Qcow2Info_cluster_round_down [v_info i; VInt off] = Ret (VInt (cluster_round_down i off)).
Proof. unfold g_Qcow2Info_cluster_round_down, cluster_round_down. geqi. Qed.
#[export] Hint Rewrite geq_cluster_round_down : geq.

Lemma geq_cluster_round_up i off : info_rng i ->
  call g_Qcow2Info_cluster_round_up [v_info i; VInt off]
  = if off + in_cluster_offset_mask i <? 18446744073709551616
    then Ret (VInt (cluster_round_up i off)) else Overflow.
Proof.
  intros R0; dR R0. unfold g_Qcow2Info_cluster_round_up, cluster_round_up. rxi. calls.
  destruct (off + in_cluster_offset_mask i <? 18446744073709551616); rx; calls; reflexivity.
Qed.
#[export] Hint Rewrite geq_cluster_round_up : geq.

(* --- SplitGuestOffset --- *)
Lemma geq_sg_l1_index i g : info_rng i ->
  call g_SplitGuestOffset_l1_index [VInt g; v_info i] = Ret (VInt (sg_l1_index i g)).
Proof. intros R0; dR R0. unfold g_SplitGuestOffset_l1_index, sg_l1_index. geq. Qed.
#[export] Hint Rewrite geq_sg_l1_index : geq.

Lemma geq_sg_l2_index i g : info_rng i ->
  call g_SplitGuestOffset_l2_index [VInt g; v_info i] = Ret (VInt (sg_l2_index i g)).
Proof. intros R0; dR R0. unfold g_SplitGuestOffset_l2_index, sg_l2_index. geq. Qed.
#[export] Hint Rewrite geq_sg_l2_index : geq.

Lemma geq_sg_l2_slice_index i g : info_rng i ->
  call g_SplitGuestOffset_l2_slice_index [VInt g; v_info i] = Ret (VInt (sg_l2_slice_index i g)).
Proof.
  intros R0; dR R0. unfold g_SplitGuestOffset_l2_slice_index, sg_l2_slice_index.
  pose proof (pow2_ge1 (l2_slice_bits i - 3)). pose proof (pow2_lt_mono (l2_slice_bits i - 3) 32 ltac:(lia)). geq.
Qed.
#[export] Hint Rewrite geq_sg_l2_slice_index : geq.

Lemma geq_sg_l2_slice_key i g : info_rng i ->
  call g_SplitGuestOffset_l2_slice_key [VInt g; v_info i] = Ret (VInt (sg_l2_slice_key i g)).
Proof. intros R0; dR R0. unfold g_SplitGuestOffset_l2_slice_key, sg_l2_slice_key. geq. Qed.
#[export] Hint Rewrite geq_sg_l2_slice_key : geq.

Lemma geq_sg_in_cluster_offset i g :
  call g_SplitGuestOffset_in_cluster_offset [VInt g; v_info i] = Ret (VInt (sg_in_cluster_offset i g)).
Proof. unfold g_SplitGuestOffset_in_cluster_offset, sg_in_cluster_offset. geq. Qed.
#[export] Hint Rewrite geq_sg_in_cluster_offset : geq.

Lemma geq_sg_l2_slice_off_in_table i g : info_rng i ->
  call g_SplitGuestOffset_l2_slice_off_in_table [VInt g; v_info i]
  = Ret (VInt (sg_l2_slice_off_in_table i g)).
Proof.
  intros R. pose proof R as R0; dR R0. unfold g_SplitGuestOffset_l2_slice_off_in_table, sg_l2_slice_off_in_table. geqi.
Qed.
#[export] Hint Rewrite geq_sg_l2_slice_off_in_table : geq.

Lemma geq_sg_cluster_offset i g : info_rng i -> g < 2 ^ 64 ->
  call g_SplitGuestOffset_cluster_offset [VInt g; v_info i] = Ret (VInt (sg_cluster_offset i g)).
Proof.
  intros R Hg. pose proof R as R0; dR R0. unfold g_SplitGuestOffset_cluster_offset, sg_cluster_offset. geqi.
  unfold sg_l1_index, sg_l2_index in *.
  change 18446744073709551616 with (2 ^ 64) in *.
  match goal with H : 2 ^ 64 <= ?a mod _ + ?b |- _ =>
    assert (Ha : a < 2 ^ 55); [| assert (Hb : b < 2 ^ 18)] end.
  - rewrite r_l2is0.
    eapply N.lt_le_trans.
    + apply (shiftl_lt _ (64 - (cluster_shift i + (cluster_shift i - 3)))).
      apply shiftr_lt. replace (64 - _ + _) with 64 by lia. assumption.
    + apply pow2_le_mono. lia.
  - rewrite r_l2mask0. eapply N.lt_le_trans; [apply land_mask_lt|]. apply pow2_le_mono. lia.
  - rewrite N.mod_small in * by (eapply N.lt_trans; [eassumption|reflexivity]).
    assert (2 ^ 55 + 2 ^ 18 < 2 ^ 64) by reflexivity. lia.
Qed.
#[export] Hint Rewrite geq_sg_cluster_offset : geq.

(* --- HostCluster --- *)
Lemma geq_hc_rt_index i h : info_rng i ->
  call g_HostCluster_rt_index [VInt h; v_info i] = Ret (VInt (hc_rt_index i h)).
Proof. intros R0; dR R0. unfold g_HostCluster_rt_index, hc_rt_index. geqi. Qed.
#[export] Hint Rewrite geq_hc_rt_index : geq.

Lemma geq_hc_rb_index i h : info_rng i ->
  call g_HostCluster_rb_index [VInt h; v_info i] = Ret (VInt (hc_rb_index i h)).
Proof. intros R0; dR R0. unfold g_HostCluster_rb_index, hc_rb_index. geqi. Qed.
#[export] Hint Rewrite geq_hc_rb_index : geq.

Lemma rbse_pos i : info_rng i -> 1 <= rb_slice_entries i.
Proof.
  intros R0; dR R0. unfold rb_slice_entries, shl32.
  rewrite shiftl_1, pow2_mod_small by lia. rewrite shiftr_div.
  apply N.div_le_lower_bound; [apply pow2_nz|]. rewrite N.mul_1_r. apply pow2_le_mono. lia.
Qed.

Lemma geq_hc_rb_slice_index i h : info_rng i ->
  call g_HostCluster_rb_slice_index [VInt h; v_info i] = Ret (VInt (hc_rb_slice_index i h)).
Proof.
  intros R. pose proof (rbse_pos i R) as Hp. pose proof R as R0; dR R0.
  unfold g_HostCluster_rb_slice_index, hc_rb_slice_index. geq.
Qed.
#[export] Hint Rewrite geq_hc_rb_slice_index : geq.

Lemma geq_hc_rb_slice_key i h : info_rng i ->
  call g_HostCluster_rb_slice_key [VInt h; v_info i] = Ret (VInt (hc_rb_slice_key i h)).
Proof. intros R0; dR R0. unfold g_HostCluster_rb_slice_key, hc_rb_slice_key. geqi. Qed.
#[export] Hint Rewrite geq_hc_rb_slice_key : geq.

Lemma shl64_1_ge1 k : k < 64 -> 1 <= shl64 1 k.
Proof. intros. unfold shl64. rewrite shiftl_1, pow2_mod_small by assumption. apply pow2_ge1. Qed.

Lemma geq_hc_rb_slice_host_start i h : info_rng i ->
  call g_HostCluster_rb_slice_host_start [VInt h; v_info i] = Ret (VInt (hc_rb_slice_host_start i h)).
Proof.
  intros R0; dR R0. unfold g_HostCluster_rb_slice_host_start, hc_rb_slice_host_start.
  pose proof (shl64_1_ge1 (cluster_shift i + rb_slice_index_shift i) ltac:(lia)). geqi.
Qed.
#[export] Hint Rewrite geq_hc_rb_slice_host_start : geq.

Lemma geq_hc_rb_host_start i h : info_rng i ->
  call g_HostCluster_rb_host_start [VInt h; v_info i] = Ret (VInt (hc_rb_host_start i h)).
Proof.
  intros R0; dR R0. unfold g_HostCluster_rb_host_start, hc_rb_host_start.
  pose proof (shl64_1_ge1 (cluster_shift i + rb_index_shift i) ltac:(lia)). geqi.
Qed.
#[export] Hint Rewrite geq_hc_rb_host_start : geq.

Lemma geq_hc_rb_slice_off_in_table i h : info_rng i ->
  call g_HostCluster_rb_slice_off_in_table [VInt h; v_info i] = Ret (VInt (hc_rb_slice_off_in_table i h)).
Proof. intros R. pose proof R as R0; dR R0. unfold g_HostCluster_rb_slice_off_in_table, hc_rb_slice_off_in_table. geqi. Qed.
#[export] Hint Rewrite geq_hc_rb_slice_off_in_table : geq.

Lemma land_le x m : N.land x m <= x.
Proof.
  rewrite <- (N.lor_ldiff_and x m) at 2.
  rewrite lor_disjoint_add.
  - lia.
  - apply N.bits_inj; intro k. rewrite N.land_spec, N.ldiff_spec, N.land_spec, N.bits_0.
    destruct (N.testbit x k), (N.testbit m k); reflexivity.
Qed.

Lemma geq_hc_rb_slice_host_end i h : info_rng i -> h < 2 ^ 63 ->
  call g_HostCluster_rb_slice_host_end [VInt h; v_info i] = Ret (VInt (hc_rb_slice_host_end i h)).
Proof.
  intros R Hh. pose proof R as R0; dR R0.
  unfold g_HostCluster_rb_slice_host_end, hc_rb_slice_host_end. geq.
  unfold hc_rb_slice_host_start, shl64 in *.
  match goal with H : _ <= N.land h ?m + ?b mod _ |- _ =>
    pose proof (land_le h m); assert (Hb : b < 2 ^ 62) end.
  { unfold rb_slice_entries, shl32. rewrite shiftl_1, pow2_mod_small by lia.
    rewrite shiftr_div, <- N.pow_sub_r by (try discriminate; lia).
    rewrite shiftl_mul, <- N.pow_add_r. apply pow2_lt_mono. lia. }
  match type of Hb with ?b < _ => rewrite (N.mod_small b) in * by (lit_pows; eapply N.lt_trans; [exact Hb|reflexivity]) end.
  change (2 ^ 63) with 9223372036854775808 in Hh. change (2 ^ 62) with 4611686018427387904 in Hb. lia.
Qed.
#[export] Hint Rewrite geq_hc_rb_slice_host_end : geq.

Lemma geq_hc_rb_host_end i h : info_rng i -> h < 2 ^ 63 ->
  call g_HostCluster_rb_host_end [VInt h; v_info i] = Ret (VInt (hc_rb_host_end i h)).
Proof.
  intros R Hh. pose proof R as R0; dR R0.
  unfold g_HostCluster_rb_host_end, hc_rb_host_end. geq.
  unfold hc_rb_host_start, shl64 in *.
  match goal with H : _ <= N.land h ?m + ?b mod _ |- _ =>
    pose proof (land_le h m); pose proof (N.mod_lt b (2 ^ 64) ltac:(discriminate)) end.
  unfold rb_entries, cluster_size, shl64 in *.
Abort.

Lemma geq_hc_cluster_off_from_slice i h idx : info_rng i -> h < 2 ^ 63 -> idx < 2 ^ 32 ->
  call g_HostCluster_cluster_off_from_slice [VInt h; v_info i; VInt idx]
  = Ret (VInt (hc_cluster_off_from_slice i h idx)).
Proof.
  intros R Hh Hi. pose proof R as R0; dR R0.
  unfold g_HostCluster_cluster_off_from_slice, hc_cluster_off_from_slice. geq.
  unfold hc_rb_slice_host_start, shl64 in *.
  match goal with H : _ <= N.land h ?m + ?b mod _ |- _ =>
    pose proof (land_le h m); assert (b < 2 ^ 53) end.
  { eapply N.lt_le_trans; [apply (shiftl_lt _ 32); assumption|apply pow2_le_mono; lia]. }
  rewrite (N.mod_small (N.shiftl idx (cluster_shift i))) in * by (eapply N.lt_trans; [eassumption|reflexivity]).
  change (2 ^ 63) with 9223372036854775808 in Hh. change (2 ^ 53) with 9007199254740992 in *. lia.
Qed.
#[export] Hint Rewrite geq_hc_cluster_off_from_slice : geq.

(* --- IntAlignment --- *)
Definition v_optN (o : option N) : value := VOpt (option_map VInt o).

Lemma geq_align_down v a : 1 <= a -> N.land a (a - 1) = 0 ->
  call g_IntAlignment_align_down [VInt v; VInt a] = Ret (VOpt (Some (VInt (align_down v a)))).
Proof.
  intros Ha Hp. unfold g_IntAlignment_align_down, align_down. geq.
  destruct (N.eqb_spec a 0); [lia|]. rx. repeat chk. rewrite Hp. rx. geq.
Qed.

Lemma geq_align_up v a : 1 <= a -> N.land a (a - 1) = 0 ->
  call g_IntAlignment_align_up [VInt v; VInt a] = Ret (v_optN (align_up v a)).
Proof.
  intros Ha Hp. unfold g_IntAlignment_align_up, align_up, v_optN. geq.
  destruct (N.eqb_spec a 0); [lia|]. rx. repeat chk. rewrite Hp. rx. repeat chk.
  destruct (N.land v (a - 1) =? 0); rx; [reflexivity|].
  repeat chk. lit_pows. destruct (N.lor v (a - 1) + 1 <? 18446744073709551616); reflexivity.
Qed.

(* ---------------- L2 entry decoding ---------------- *)
Definition v_pair (o : option (N * N)) : value :=
  VOpt (option_map (fun p => VTup [VInt (fst p); VInt (snd p)]) o).

Lemma desc_small v cob : N.shiftr (N.land v 4611686018427387903) cob < 2 ^ 62.
Proof.
  rewrite shiftr_div. eapply N.le_lt_trans; [apply (N.div_le_upper_bound _ _ (N.land v 4611686018427387903)); [apply pow2_nz|]|].
  2:{ change 4611686018427387903 with (2 ^ 62 - 1). apply land_mask_lt. }
  pose proof (pow2_ge1 cob). remember (N.land v 4611686018427387903) as x. remember (2 ^ cob) as y. nia.
Qed.

Lemma sectors_small v cb : 9 <= cb <= 21 ->
  N.shiftr (N.land v 4611686018427387903) (62 - (cb - 8)) < 2 ^ 13.
Proof.
  intros. eapply N.lt_le_trans; [apply (shiftr_lt _ (cb - 8))|apply pow2_le_mono; lia].
  replace (cb - 8 + (62 - (cb - 8))) with 62 by lia.
  change 4611686018427387903 with (2 ^ 62 - 1). apply land_mask_lt.
Qed.

Lemma geq_l2_compressed_range cb v : 9 <= cb <= 21 ->
  call g_L2Entry_compressed_range [VInt v; VInt cb] = Ret (v_pair (l2_compressed_range cb v)).
Proof.
  intros Hcb. unfold g_L2Entry_compressed_range, l2_compressed_range, v_pair.
  pose proof (sectors_small v cb Hcb) as Hs. change (2 ^ 13) with 8192 in Hs.
  rxi. calls. destruct (l2_is_compressed v); rx; [|reflexivity].
  calls. repeat (chk; calls).
  all: unfold l2_compressed_descriptor in *.
  all: try (cbn [negb option_map fst snd]; reflexivity).
  all: try lia.
  all: try (match goal with H : _ < N.land ?o 511 |- _ =>
      change 511 with (2 ^ 9 - 1) in H; pose proof (land_mask_lt o 9) end;
    change (2 ^ 9) with 512 in *; lia).
  all: try (pose proof (pow2_ge1 (62 - (cb - 8))); rewrite shiftl_1 in *;
    rewrite N.mod_small in * by (change 18446744073709551616 with (2 ^ 64); apply pow2_lt_mono; lia); lia).
Qed.
#[export] Hint Rewrite geq_l2_compressed_range : geq.

Lemma cr_bounds cb v o l : 9 <= cb <= 21 ->
  l2_compressed_range cb v = Some (o, l) -> o < 2 ^ 56 /\ 1 <= l <= 2 ^ 22.
Proof.
  intros Hcb. unfold l2_compressed_range. destruct (l2_is_compressed v); [|discriminate].
  intros E. injection E as <- <-.
  pose proof (sectors_small v cb Hcb) as Hs. unfold l2_compressed_descriptor.
  split.
  - change 72057594037927935 with (2 ^ 56 - 1). apply land_mask_lt.
  - match goal with |- _ <= _ - N.land ?x 511 <= _ =>
      change 511 with (2 ^ 9 - 1); pose proof (land_mask_lt x 9) end.
    change (2 ^ 9) with 512 in *. change (2 ^ 13) with 8192 in *. change (2 ^ 22) with 4194304. lia.
Qed.

Lemma geq_l2_allocation cb v : 9 <= cb <= 21 ->
  call g_L2Entry_allocation [VInt v; VInt cb] = Ret (v_pair (l2_allocation cb v)).
Proof.
  intros Hcb. unfold g_L2Entry_allocation, l2_allocation, v_pair. rxi. calls.
  destruct (l2_compressed_range cb v) as [[o l]|] eqn:E; cbn [option_map v_pair fst snd]; rx.
  - destruct (cr_bounds cb v o l Hcb E) as [Ho [Hl1 Hl2]].
    change (2 ^ 56) with 72057594037927936 in Ho. change (2 ^ 22) with 4194304 in Hl2.
    assert (Hcs : N.shiftl 1 cb mod 18446744073709551616 = 2 ^ cb).
    { rewrite shiftl_1. apply (pow2_mod_small cb 64). lia. }
    pose proof (pow2_ge1 cb). pose proof (pow2_lt_mono cb 22 ltac:(lia)). change (2 ^ 22) with 4194304 in *.
    repeat (chk; calls).
    all: try (cbn [option_map fst snd]; unfold shl64; lit_pows; reflexivity).
    all: rewrite ?Hcs in *.
    all: try lia.
    all: match goal with H : _ < N.land ?oo ?m |- _ => pose proof (land_le oo m) end; lia.
  - calls. destruct (l2_cluster_offset v =? 0); reflexivity.
Qed.
#[export] Hint Rewrite geq_l2_allocation : geq.

Lemma geq_l2_into_mapping i v g : info_rng i -> g < 2 ^ 64 ->
  call g_L2Entry_into_mapping [VInt v; v_info i; VInt g] = Ret (v_mapping (l2_into_mapping i v g)).
Proof.
  intros R Hg. pose proof R as R0; dR R0. unfold g_L2Entry_into_mapping, l2_into_mapping. rxi. calls.
  lit_pows. small_mods.
  destruct (l2_compressed_range (cluster_shift i) v) as [[o l]|] eqn:E; cbn [v_pair option_map fst snd]; rx.
  - reflexivity.
  - calls. destruct (l2_is_zero v); rx; calls.
    + destruct (l2_cluster_offset v =? 0); rx; calls; reflexivity.
    + destruct (l2_cluster_offset v =? 0); rx; calls.
      * destruct (l2_is_copied v); rx; calls.
        -- reflexivity.
        -- destruct (has_back_file i); rx; calls; reflexivity.
      * reflexivity.
Qed.
#[export] Hint Rewrite geq_l2_into_mapping : geq.

Ltac fold_eqb_in H :=
  repeat match type of H with
  | context [N.eqb ?a ?b] => is_N_lit a; is_N_lit b;
      let r := eval vm_compute in (N.eqb a b) in change (N.eqb a b) with r in H
  end; cbv iota in H.

Lemma geq_l2_from_mapping cb m : 9 <= cb <= 21 -> from_mapping_pre cb m ->
  call g_L2Entry_from_mapping [v_mapping m; VInt cb] = Ret (VInt (l2_from_mapping cb m)).
Proof.
  intros Hcb (Hoff & Hres & Hcase).
  unfold g_L2Entry_from_mapping. unfold v_mapping, v_opt.
  destruct m as [src off clen cop]; cbn [m_source m_offset m_clen m_copied] in *.
  unfold l2_from_mapping in *; cbn [m_source m_offset m_clen m_copied] in *.
  unfold SRC_DATA, SRC_BACKING, SRC_ZERO, SRC_COMPRESSED, SRC_UNALLOC in *.
  destruct Hcase as [(Hs & Hc & Ho)|[(Hs & Hc & Hp)|[(Hs & Hc & Ho)|[(Hs & Hp & (o' & len & Ho & Hc & Hl))|Hs]]]];
    subst src; try subst clen; try subst cop; fold_eqb_in Hres; fold_lits; cbv iota;
    change (N.shiftl 1 63) with 9223372036854775808 in *; change (N.shiftl 1 62) with 4611686018427387904 in *; lit_pows.
  - (* DataFile *)
    destruct off as [o|]; [|congruence]. cbn [option_map]. rx.
    destruct (N.leb_spec o 72057594037927935); [|lia]. rx.
    destruct cop; rx; calls; fold_lits; rewrite Hres; rx; reflexivity.
  - (* Backing *)
    destruct off as [o|]; cbn [option_map]; rx.
    + destruct (N.leb_spec o 72057594037927935); [|lia]. rx. reflexivity.
    + reflexivity.
  - (* Zero *)
    destruct off as [o|]; cbn [option_map]; rx.
    + destruct (N.leb_spec o 72057594037927935); [|lia]. rx.
      destruct cop; rx; calls; fold_lits; rewrite Hres; rx; reflexivity.
    + destruct cop; [specialize (Ho eq_refl); congruence|]. rx. calls. all: try (fold_lits; rewrite Hres; rx; reflexivity).
  - (* Compressed *)
    destruct Hl as [[Hl1 Hl3] Hl2]. change (2 ^ 23) with 8388608 in Hl3.
    subst off. cbn [option_map]. rx.
    destruct (N.leb_spec o' 72057594037927935); [|lia]. rx.
    assert (Ha : N.land o' 511 < 512) by (change 511 with (2 ^ 9 - 1); apply land_mask_lt).
    assert (Hs2 : N.shiftl 1 (cb - 8) mod 18446744073709551616 = 2 ^ (cb - 8)).
    { rewrite shiftl_1. apply (pow2_mod_small (cb - 8) 64). lia. }
    repeat (chk; calls).
    all: rewrite ?Hs2 in *.
    all: try lia.
    destruct (N.ltb_spec ((len - 1 + N.land o' 511) / 512) (2 ^ (cb - 8))); [|lia]. rx.
    repeat (chk; calls). all: try lia.
    fold_lits. rewrite Hres. rx. reflexivity.
  - (* Unallocated *)
    destruct off as [o|]; cbn [option_map]; rx.
    + destruct (N.leb_spec o 72057594037927935); [|lia]. rx. reflexivity.
    + reflexivity.
Qed.
#[export] Hint Rewrite geq_l2_from_mapping : geq.

Lemma geq_plain_offset m ic : (match m_offset m with Some o => o + ic < 2 ^ 64 | None => True end) ->
  (m_source m = SRC_DATA -> m_copied m = true -> m_offset m <> None) ->
  call g_Mapping_plain_offset [v_mapping m; VInt ic] = Ret (v_optN (m_plain_offset m ic)).
Proof.
  intros Hb Hs. unfold g_Mapping_plain_offset, m_plain_offset, v_optN, v_mapping, v_opt. rx.
  destruct m as [src off clen cop]; cbn [m_source m_offset m_clen m_copied] in *. unfold SRC_DATA in *.
  destruct (N.eqb_spec src 0); rx; [|reflexivity].
  destruct cop; rx; [|reflexivity].
  destruct off as [o|]; [|exfalso; apply Hs; auto]. cbn [option_map]. rx.
  lit_pows. destruct (N.ltb_spec (o + ic) 18446744073709551616); [|lia]. reflexivity.
Qed.

(* ---------------- refcount blocks ---------------- *)

Lemma nth_error_byte_at l i : i < N.of_nat (length l) ->
  nth_error l (N.to_nat i) = Some (byte_at l i).
Proof.
  intros H. unfold byte_at. apply nth_error_nth'. lia.
Qed.

Lemma firstn_skipn_S (l : list N) k n : (n < length l)%nat ->
  firstn (S k) (skipn n l) = nth n l 0 :: firstn k (skipn (S n) l).
Proof.
  revert n. induction l as [|a l IH]; intros n H; [inversion H|].
  destruct n as [|n]; [reflexivity|].
  cbn [skipn nth]. apply IH. cbn [length] in H. lia.
Qed.


Lemma byte_at_lt l i : bytes_ok l -> byte_at l i < 256.
Proof.
  intros H. unfold byte_at.
  destruct (Nat.lt_ge_cases (N.to_nat i) (length l)) as [Hl|Hg].
  - unfold bytes_ok in H. rewrite Forall_forall in H. apply H. apply nth_In. assumption.
  - rewrite nth_overflow by assumption. lia.
Qed.

Lemma be_val_2 l n : n * 2 + 2 <= N.of_nat (length l) ->
  be_val (firstn 2 (skipn (N.to_nat (n * 2)) l)) = byte_at l (n * 2) * 256 + byte_at l (n * 2 + 1).
Proof.
  intros H. rewrite firstn_skipn_S by lia. rewrite firstn_skipn_S by lia.
  unfold byte_at. replace (N.to_nat (n * 2 + 1)) with (S (N.to_nat (n * 2))) by lia.
  cbn [be_val firstn length]. change (256 ^ N.of_nat 1) with 256. change (256 ^ N.of_nat 0) with 1. lia.
Qed.

Lemma be_val_4 l n : n * 4 + 4 <= N.of_nat (length l) ->
  be_val (firstn 4 (skipn (N.to_nat (n * 4)) l))
  = byte_at l (n * 4) * 16777216 + byte_at l (n * 4 + 1) * 65536
    + byte_at l (n * 4 + 2) * 256 + byte_at l (n * 4 + 3).
Proof.
  intros H. do 4 (rewrite firstn_skipn_S by lia).
  unfold byte_at.
  replace (N.to_nat (n * 4 + 1)) with (S (N.to_nat (n * 4))) by lia.
  replace (N.to_nat (n * 4 + 2)) with (S (S (N.to_nat (n * 4)))) by lia.
  replace (N.to_nat (n * 4 + 3)) with (S (S (S (N.to_nat (n * 4))))) by lia.
  cbn [be_val firstn length].
  change (256 ^ N.of_nat 3) with 16777216. change (256 ^ N.of_nat 2) with 65536.
  change (256 ^ N.of_nat 1) with 256. change (256 ^ N.of_nat 0) with 1. lia.
Qed.

Lemma be_val_8 l n : n * 8 + 8 <= N.of_nat (length l) ->
  be_val (firstn 8 (skipn (N.to_nat (n * 8)) l))
  = byte_at l (n * 8) * 72057594037927936 + byte_at l (n * 8 + 1) * 281474976710656
    + byte_at l (n * 8 + 2) * 1099511627776 + byte_at l (n * 8 + 3) * 4294967296
    + byte_at l (n * 8 + 4) * 16777216 + byte_at l (n * 8 + 5) * 65536
    + byte_at l (n * 8 + 6) * 256 + byte_at l (n * 8 + 7).
Proof.
  intros H. do 8 (rewrite firstn_skipn_S by lia).
  unfold byte_at.
  replace (N.to_nat (n * 8 + 1)) with (S (N.to_nat (n * 8))) by lia.
  replace (N.to_nat (n * 8 + 2)) with (S (S (N.to_nat (n * 8)))) by lia.
  replace (N.to_nat (n * 8 + 3)) with (S (S (S (N.to_nat (n * 8))))) by lia.
  replace (N.to_nat (n * 8 + 4)) with (S (S (S (S (N.to_nat (n * 8)))))) by lia.
  replace (N.to_nat (n * 8 + 5)) with (S (S (S (S (S (N.to_nat (n * 8))))))) by lia.
  replace (N.to_nat (n * 8 + 6)) with (S (S (S (S (S (S (N.to_nat (n * 8)))))))) by lia.
  replace (N.to_nat (n * 8 + 7)) with (S (S (S (S (S (S (S (N.to_nat (n * 8))))))))) by lia.
  cbn [be_val firstn length].
  change (256 ^ N.of_nat 7) with 72057594037927936. change (256 ^ N.of_nat 6) with 281474976710656.
  change (256 ^ N.of_nat 5) with 1099511627776. change (256 ^ N.of_nat 4) with 4294967296.
  change (256 ^ N.of_nat 3) with 16777216. change (256 ^ N.of_nat 2) with 65536.
  change (256 ^ N.of_nat 1) with 256. change (256 ^ N.of_nat 0) with 1. lia.
Qed.

Definition v_rb (l : list N) (ro : N) : value := VTup [VList l; VInt ro].

Lemma ro_cases ro : ro <= 6 -> ro = 0 \/ ro = 1 \/ ro = 2 \/ ro = 3 \/ ro = 4 \/ ro = 5 \/ ro = 6.
Proof. lia. Qed.

Lemma geq_rb_get ro l idx : ro <= 6 -> bytes_ok l -> idx < 2 ^ 60 ->
  rb_in_range ro (N.of_nat (length l)) idx ->
  call g_RefBlock_get [v_rb l ro; VInt idx] = Ret (VInt (rb_get ro l idx)).
Proof.
  intros Hro Hb Hi Hr. unfold g_RefBlock_get, v_rb.
  change (2 ^ 60) with 1152921504606846976 in Hi.
  destruct (ro_cases ro Hro) as [->|[->|[->|[->|[->|[->| ->]]]]]]; cbn [rb_in_range] in Hr; rx.
  - rewrite nth_error_byte_at by assumption. rx.
    pose proof (N.mod_lt idx 8 ltac:(discriminate)). destruct (N.ltb_spec (idx mod 8) 8); [|lia]. reflexivity.
  - rewrite nth_error_byte_at by assumption. rx.
    pose proof (N.mod_lt idx 4 ltac:(discriminate)). clear Hr. repeat chk. reflexivity.
  - rewrite nth_error_byte_at by assumption. rx.
    pose proof (N.mod_lt idx 2 ltac:(discriminate)). clear Hr. repeat chk. reflexivity.
  - rewrite nth_error_byte_at by assumption. reflexivity.
  - repeat chk. change (N.of_nat 2) with 2. destruct (N.leb_spec (idx * 2 + 2) (N.of_nat (length l))); [|lia].
    rewrite be_val_2 by assumption. reflexivity.
  - repeat chk. change (N.of_nat 4) with 4. destruct (N.leb_spec (idx * 4 + 4) (N.of_nat (length l))); [|lia].
    rewrite be_val_4 by assumption. reflexivity.
  - repeat chk. change (N.of_nat 8) with 8. destruct (N.leb_spec (idx * 8 + 8) (N.of_nat (length l))); [|lia].
    rewrite be_val_8 by assumption. reflexivity.
Qed.

Lemma list_upd_upd l i v : list_upd l (N.to_nat i) v = upd l i v.
Proof.
  unfold upd. generalize (N.to_nat i). intro n. revert n.
  induction l as [|a l IH]; intros [|n]; cbn; auto.
Qed.

Lemma length_upd l i v : length (upd l i v) = length l.
Proof.
  unfold upd. generalize (N.to_nat i). intro n. revert n.
  induction l as [|a l IH]; intros [|n]; cbn; auto.
Qed.

Lemma length_list_upd l n v : length (list_upd l n v) = length l.
Proof. revert n. induction l as [|a l IH]; intros [|n]; cbn; auto. Qed.

Lemma list_upd_S l a k v : list_upd l (k + N.to_nat a) v = upd l (a + N.of_nat k) v.
Proof. rewrite <- list_upd_upd. f_equal. lia. Qed.

Lemma list_upd_of_nat l n v : list_upd l n v = upd l (N.of_nat n) v.
Proof. rewrite <- list_upd_upd. f_equal. lia. Qed.

Definition set_result (l : list N) (r : option (list N)) : value :=
  match r with
  | Some l' => VTup [VRes (inl (VTup [])); VList l']
  | None => VTup [VRes (inr 1); VList l]
  end.

Ltac upd_step :=
  match goal with
  | |- context [if ?a <? N.of_nat (length ?l) then _ else Panic] =>
      destruct (N.ltb_spec a (N.of_nat (length l))); [rx | exfalso; rewrite ?length_upd, ?length_list_upd in *; lia]
  end.

Lemma geq_rb_set ro l idx v : ro <= 6 -> bytes_ok l -> idx < 2 ^ 60 -> v < 2 ^ 64 ->
  rb_in_range ro (N.of_nat (length l)) idx ->
  call g_RefBlock_set [v_rb l ro; VInt idx; VInt v] = Ret (set_result l (rb_set ro l idx v)).
Proof.
  intros Hro Hb Hi Hv Hr. unfold g_RefBlock_set, v_rb, rb_set, rb_fits, set_result.
  change (2 ^ 60) with 1152921504606846976 in Hi. lit_pows.
  destruct (ro_cases ro Hro) as [->|[->|[->|[->|[->|[->| ->]]]]]]; cbn [rb_in_range] in Hr; rx.
  all: try change (2 ^ 1) with 2; try change (2 ^ 2) with 4; try change (2 ^ 4) with 16;
       try change (2 ^ 8) with 256; try change (2 ^ 16) with 65536; try change (2 ^ 32) with 4294967296.
  all: try match goal with |- context [?b <? ?a] =>
         destruct (N.ltb_spec b a); rx; [| reflexivity] end.
  all: rewrite ?nth_error_byte_at by assumption; rx.
  all: try (pose proof (N.mod_lt idx 8 ltac:(discriminate)));
       try (pose proof (N.mod_lt idx 4 ltac:(discriminate)));
       try (pose proof (N.mod_lt idx 2 ltac:(discriminate))).
  all: repeat (first [chk | upd_step]).
  all: rewrite ?list_upd_upd.
  all: try reflexivity.
  all: unfold sub_set; fold_lits.
  all: try match goal with |- (if ?a <? ?vv then _ else _) = Ret (match (if negb (?vv <? ?b) then _ else _) with _ => _ end) =>
         destruct (N.ltb_spec a vv); destruct (N.ltb_spec vv b); try lia; cbn [negb]; try reflexivity end.
  all: rewrite ?shiftr_div; fold_lits; try reflexivity.
  all: try (rewrite ?length_list_upd in *; lia).
  (* 64-bit entries: to_be_bytes into the slice *)
  change (N.of_nat 8) with 8.
  destruct (N.leb_spec (idx * 8 + 8) (N.of_nat (length l))); [|lia]. rx.
  cbn [be_bytes list_upds].
  change (256 ^ N.of_nat 7) with 72057594037927936. change (256 ^ N.of_nat 6) with 281474976710656.
  change (256 ^ N.of_nat 5) with 1099511627776. change (256 ^ N.of_nat 4) with 4294967296.
  change (256 ^ N.of_nat 3) with 16777216. change (256 ^ N.of_nat 2) with 65536.
  change (256 ^ N.of_nat 1) with 256. change (256 ^ N.of_nat 0) with 1.
  rewrite N.div_1_r.
  rewrite !list_upd_of_nat.
  replace (N.of_nat (N.to_nat (idx * 8))) with (idx * 8) by lia.
  repeat match goal with |- context [N.of_nat (S ?n)] =>
    replace (N.of_nat (S n)) with (N.of_nat n + 1) by lia end.
  rewrite ?N2Nat.id.
  replace (idx * 8 + 1 + 1) with (idx * 8 + 2) by lia.
  replace (idx * 8 + 2 + 1) with (idx * 8 + 3) by lia.
  replace (idx * 8 + 3 + 1) with (idx * 8 + 4) by lia.
  replace (idx * 8 + 4 + 1) with (idx * 8 + 5) by lia.
  replace (idx * 8 + 5 + 1) with (idx * 8 + 6) by lia.
  replace (idx * 8 + 6 + 1) with (idx * 8 + 7) by lia.
  reflexivity.
Qed.
