(* Bridge from the specification reading of a header to the range hypotheses of the codec / argument-check
   theorems: every header in the supported set (Spec/Image.hdr_features_ok) yields, for every legal choice of device
   parameters, a geometry satisfying info_rng, with a virtual size below 2^63 (the hypotheses of Props/C13.v and
   Props/C15.v). *)
From Coq Require Import NArith List Bool Lia.
From Q.Model Require Import Codec.
From Q.Spec Require Import Entries Image.
From Q.Proofs Require Import Geometry.
Open Scope N_scope.

Lemma features_bounds h :
  hdr_features_ok h = true ->
  9 <= h_cb h <= 21 /\ h_ro h <= 6 /\
  (h_size h + 2 ^ (2 * h_cb h - 3) - 1) / 2 ^ (2 * h_cb h - 3) <= 4194304.
Proof.
  unfold hdr_features_ok. intros H.
  repeat (apply andb_prop in H as [H ?]).
  repeat match goal with X : (_ <=? _) = true |- _ => apply N.leb_le in X end.
  lia.
Qed.

Lemma size_bound h : hdr_features_ok h = true -> h_size h <= 2 ^ 61.
Proof.
  intros H. destruct (features_bounds h H) as [Hcb [_ Hs]].
  set (p := 2 ^ (2 * h_cb h - 3)) in *.
  assert (Pp : 0 < p) by (apply N.neq_0_lt_0, N.pow_nonzero; lia).
  assert (Pm : p <= 2 ^ 39) by (apply N.pow_le_mono_r; lia).
  pose proof (N.div_mod' (h_size h + p - 1) p) as DM.
  pose proof (N.mod_lt (h_size h + p - 1) p ltac:(lia)) as ML.
  set (q := (h_size h + p - 1) / p) in *. set (r := (h_size h + p - 1) mod p) in *.
  change (2 ^ 61) with (549755813888 * 4194304). change (2 ^ 39) with 549755813888 in *.
  assert (h_size h <= p * q) by lia.
  assert (p * q <= 549755813888 * 4194304) by (apply N.mul_le_mono; assumption).
  lia.
Qed.

Theorem supported_header_geometry h bs l2sb l2cnt rbsb rbcnt fl :
  hdr_features_ok h = true ->
  9 <= bs <= 12 -> bs <= l2sb <= h_cb h -> bs <= rbsb <= h_cb h ->
  let i := info_of (h_cb h) (h_ro h) (h_size h) bs l2sb l2cnt rbsb rbcnt fl in
  info_rng i /\ virtual_size i <= 2 ^ 63.
Proof.
  intros H Hbs Hl2 Hrb i. destruct (features_bounds h H) as [Hcb [Hro _]].
  pose proof (size_bound h H) as Hs. split.
  - apply info_of_rng. constructor; try assumption.
    eapply N.le_lt_trans; [exact Hs|reflexivity].
  - unfold i. cbn [info_of virtual_size]. eapply N.le_trans; [exact Hs|]. apply N.pow_le_mono_r; lia.
Qed.
