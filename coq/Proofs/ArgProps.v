(* C13: the regenerated argument-check prefixes of read_at / write_at / discard agree with the
   documented contract for ALL 64-bit arguments, and never panic or overflow. *)
From Coq Require Import NArith ZArith List Bool Lia.
From Q.Base Require Import RExpr Bits.
From Q.Model Require Import Codec.
From Q.Gen Require Import GenCodec.
From Q.Proofs Require Import Geometry GenEq.
From Q.Exec Require Import C13Exec.
Import ListNotations.
Open Scope N_scope.

Ltac Zify.zify_post_hook ::= Z.div_mod_to_equations.
Arguments N.add : simpl never.
Arguments N.sub : simpl never.
Arguments N.mul : simpl never.
Arguments N.div : simpl never.
Arguments N.modulo : simpl never.
Arguments N.pow : simpl never.
Arguments N.shiftl : simpl never.
Arguments N.shiftr : simpl never.
Arguments N.land : simpl never.
Arguments N.lor : simpl never.
Arguments N.ltb : simpl never.
Arguments N.leb : simpl never.
Arguments N.eqb : simpl never.

Lemma geq_virtual_size i : call g_Qcow2Info_virtual_size [v_info i] = Ret (VInt (virtual_size i)).
Proof. reflexivity. Qed.
#[export] Hint Rewrite geq_virtual_size : geq.

Lemma geq_is_back_file i : call g_Qcow2Info_is_back_file [v_info i] = Ret (VBool (is_back_file i)).
Proof. reflexivity. Qed.
#[export] Hint Rewrite geq_is_back_file : geq.

Lemma geq_is_read_only i : call g_Qcow2Info_is_read_only [v_info i] = Ret (VBool (is_read_only i)).
Proof. reflexivity. Qed.
#[export] Hint Rewrite geq_is_read_only : geq.

Lemma bs_val i : info_rng i -> N.shiftl 1 (block_size_shift i) mod 18446744073709551616 = 2 ^ block_size_shift i.
Proof.
  intros R0; dR R0. rewrite shiftl_1. apply (pow2_mod_small _ 64). lia.
Qed.

Lemma land_mask_mod x k : N.land x (2 ^ k - 1) = x mod 2 ^ k.
Proof. apply land_pow2m1. Qed.

Lemma land_not_low64 x k : k <= 64 -> x < 18446744073709551616 ->
  N.land x (18446744073709551615 - (2 ^ k - 1)) = x / 2 ^ k * 2 ^ k.
Proof. intros. apply (land_not_low x k 64); assumption. Qed.

(* case split on the condition the evaluator is looking at right now (never on a condition
   deeper in the term: that one may sit in a branch which is not taken) *)
Ltac head_cond t :=
  lazymatch t with
  | bind ?a _ => head_cond a
  | as_bool ?a _ => head_cond a
  | as_int ?a _ => head_cond a
  | match ?a with Some _ => _ | None => _ end => head_cond a
  | (if ?c then _ else _) => constr:(c)
  end.
Ltac split_head :=
  match goal with
  | |- ?f ?t = _ =>
      let c := head_cond t in
      lazymatch c with
      | ?a <? ?b => destruct (N.ltb_spec a b)
      | ?a <=? ?b => destruct (N.leb_spec a b)
      | ?a =? ?b => destruct (N.eqb_spec a b)
      | negb (?a =? ?b) => destruct (N.eqb_spec a b)
      | negb ?x => destruct x eqn:?
      | ?x => destruct x eqn:?
      end; rx; calls
  end.
Ltac norm := repeat (rewrite land_not_low64 by lia); rewrite ?land_mask_mod; rewrite ?N.mod_mul by apply pow2_nz.
(* forget the shape of x / d * d, keep  x / d * d <= x *)
Ltac absdiv :=
  repeat match goal with
  | H : context [?x / 2 ^ ?k * 2 ^ ?k] |- _ =>
      let L := fresh "L" in pose proof (div_mul_le x (2 ^ k) (pow2_nz k)) as L;
      let y := fresh "y" in set (y := x / 2 ^ k * 2 ^ k) in *; clearbody y
  | |- context [?x / 2 ^ ?k * 2 ^ ?k] =>
      let L := fresh "L" in pose proof (div_mul_le x (2 ^ k) (pow2_nz k)) as L;
      let y := fresh "y" in set (y := x / 2 ^ k * 2 ^ k) in *; clearbody y
  end.
Ltac steps := repeat (norm; split_head; norm; try (exfalso; lia); try (exfalso; absdiv; lia); try reflexivity).

Ltac fin :=
  repeat match goal with
  | |- context [?a <? ?b] => destruct (N.ltb_spec a b)
  | |- context [?a <=? ?b] => destruct (N.leb_spec a b)
  | |- context [?a =? ?b] => destruct (N.eqb_spec a b)
  | |- context [is_read_only ?i] => destruct (is_read_only i)
  | |- context [is_back_file ?i] => destruct (is_back_file i)
  end; cbn [negb chk_of_read chk_of_write chk_of_discard]; try reflexivity; try (exfalso; lia); try (exfalso; absdiv; lia).

Theorem read_checks_contract i len off : info_rng i -> virtual_size i <= 2 ^ 63 -> len < 2 ^ 63 -> off < 2 ^ 64 ->
  chk_of_read (call g_read_at_checks [dev_of i; VInt len; VInt off])
  = Some (read_contract (virtual_size i) (is_back_file i) (block_size_shift i) len off).
Proof.
  intros R Hvs Hl Ho. pose proof R as R0; dR R0. pose proof (bs_val i R) as Hbs.
  pose proof (pow2_ge1 (block_size_shift i)) as Hb1.
  change (2 ^ 63) with 9223372036854775808 in Hl, Hvs. lit_pows.
  unfold g_read_at_checks, read_contract, dev_of. rxi. calls.
  split_head; [|exfalso; lia]. rewrite Hbs. split_head; [|exfalso; lia].
  rewrite !land_mask_mod.
  steps.
Qed.

Theorem write_checks_contract i len off : info_rng i -> virtual_size i <= 2 ^ 63 -> len < 2 ^ 63 -> off < 2 ^ 64 ->
  chk_of_write (call g_write_at_checks [dev_of i; VInt len; VInt off])
  = Some (write_contract (virtual_size i) (is_read_only i) (block_size_shift i) len off).
Proof.
  intros R Hvs Hl Ho. pose proof R as R0; dR R0. pose proof (bs_val i R) as Hbs.
  pose proof (pow2_ge1 (block_size_shift i)) as Hb1.
  change (2 ^ 63) with 9223372036854775808 in Hl, Hvs. lit_pows.
  unfold g_write_at_checks, write_contract, dev_of. rxi. calls.
  split_head; [|exfalso; lia]. rewrite Hbs. split_head; [|exfalso; lia].
  steps.
  all: fin.
Qed.

Theorem discard_checks_contract i off len : info_rng i -> virtual_size i <= 2 ^ 63 -> len < 2 ^ 64 -> off < 2 ^ 64 ->
  chk_of_discard (call g_discard_checks [dev_of i; VInt off; VInt len])
  = Some (discard_contract (virtual_size i) (is_read_only i) (cluster_shift i) off len).
Proof.
  intros R Hvs Hl Ho. pose proof R as R0; dR R0.
  pose proof (pow2_ge1 (cluster_shift i)) as Hc1.
  pose proof (pow2_lt_mono (cluster_shift i) 22 ltac:(lia)) as Hc2. change (2 ^ 22) with 4194304 in Hc2.
  change (2 ^ 63) with 9223372036854775808 in Hvs. lit_pows.
  unfold g_discard_checks, discard_contract, dev_of. rxi. calls.
  destruct (is_read_only i); rx; [reflexivity|].
  destruct (N.eqb_spec len 0); rx; [reflexivity|]. calls.
  change (18446744073709551616 - 1) with 18446744073709551615.
  set (e := N.min (N.min (off + len) 18446744073709551615) (virtual_size i)).
  assert (He : e <= virtual_size i) by (unfold e; lia).
  destruct (N.leb_spec e off); rx; [reflexivity|]. calls.
  rewrite r_mask0 at 1. split_head; [|exfalso; lia].
  unfold cluster_round_up, cluster_round_down. rewrite r_mask0.
  rewrite !land_not_low64 by lia.
  replace (off + (2 ^ cluster_shift i - 1)) with (off + 2 ^ cluster_shift i - 1) by lia.
  fin.
Qed.
