(* Invariants and functional behaviour of the cluster-level device model (Model/Dev.v), for every
   state satisfying the invariant, every operation, every allocation choice that passes the guard. *)
From Coq Require Import NArith List Bool Lia.
From Q.Model Require Import Dev.
Import ListNotations.
Open Scope N_scope.

Definition b2n (b : bool) : N := if b then 1 else 0.

(* ---------- counting ---------- *)
Lemma cntb_ext f g s n :
  (forall i, s <= i < s + N.of_nat n -> f i = g i) -> cntb f s n = cntb g s n.
Proof.
  revert s; induction n as [|n IH]; intros s H; cbn [cntb]; [reflexivity|].
  rewrite (H s) by lia. f_equal. apply IH. intros i Hi. apply H. lia.
Qed.

Lemma cntb_upd f g s n j :
  s <= j < s + N.of_nat n -> (forall i, i <> j -> f i = g i) ->
  cntb g s n + b2n (f j) = cntb f s n + b2n (g j).
Proof.
  revert s; induction n as [|n IH]; intros s Hj H; [lia|].
  cbn [cntb]. destruct (N.eq_dec s j) as [->|Hne].
  - rewrite (cntb_ext g f (N.succ j) n) by (intros i Hi; symmetry; apply H; lia).
    unfold b2n. destruct (f j), (g j); lia.
  - rewrite (H s Hne). specialize (IH (N.succ s)). assert (Hr : N.succ s <= j < N.succ s + N.of_nat n) by lia.
    specialize (IH Hr H). lia.
Qed.

Lemma cntb_ge f s n j : s <= j < s + N.of_nat n -> b2n (f j) <= cntb f s n.
Proof.
  revert s; induction n as [|n IH]; intros s Hj; [lia|].
  cbn [cntb]. destruct (N.eq_dec s j) as [->|Hne].
  - unfold b2n. destruct (f j); lia.
  - specialize (IH (N.succ s)). assert (Hr : N.succ s <= j < N.succ s + N.of_nat n) by lia.
    specialize (IH Hr). unfold b2n in *. destruct (f s); lia.
Qed.

Lemma cntb_two f s n i j :
  s <= i < s + N.of_nat n -> s <= j < s + N.of_nat n -> i <> j -> b2n (f i) + b2n (f j) <= cntb f s n.
Proof.
  revert s; induction n as [|n IH]; intros s Hi Hj Hne; [lia|].
  cbn [cntb]. destruct (N.eq_dec s i) as [->|Hi'].
  - pose proof (cntb_ge f (N.succ i) n j ltac:(lia)). unfold b2n in *. destruct (f i); lia.
  - destruct (N.eq_dec s j) as [->|Hj'].
    + pose proof (cntb_ge f (N.succ j) n i ltac:(lia)). unfold b2n in *. destruct (f j); lia.
    + specialize (IH (N.succ s) ltac:(lia) ltac:(lia) Hne). destruct (f s); lia.
Qed.

Lemma cntb_zero f s n : cntb f s n = 0 -> forall i, s <= i < s + N.of_nat n -> f i = false.
Proof.
  intros H i Hi. pose proof (cntb_ge f s n i Hi) as G. rewrite H in G. unfold b2n in G. destruct (f i); [lia|reflexivity].
Qed.

Lemma upd_same {A} (f : N -> A) k v : upd f k v k = v.
Proof. unfold upd. rewrite N.eqb_refl. reflexivity. Qed.

Lemma upd_other {A} (f : N -> A) k v x : x <> k -> upd f k v x = f x.
Proof. unfold upd. intros H. destruct (N.eqb_spec x k); [contradiction|reflexivity]. Qed.

(* ---------- the invariant ---------- *)
Record Inv (c : cfg) (s : st) : Prop := {
  inv_rc : forall h, s_rc s h = drefs c s h;
  inv_one : forall gc h, gc < c_nclu c -> (s_map s gc = CData h \/ s_map s gc = CZeroPre h) -> s_rc s h = 1;
  inv_out : forall gc, c_nclu c <= gc -> s_map s gc = CUn
}.

Definition owns (x : cl) (h : N) : Prop := x = CData h \/ x = CZeroPre h.

Lemma nclu_range c gc : gc < c_nclu c <-> 0 <= gc < 0 + N.of_nat (N.to_nat (c_nclu c)).
Proof. rewrite N2Nat.id. lia. Qed.

Lemma touches_owns x h : owns x h -> touches x h = true.
Proof. intros [->| ->]; cbn; apply N.eqb_refl. Qed.

(* a host cluster with refcount 1 that one guest cluster touches is touched by no other and is not metadata *)
Lemma unique_owner c s gc gc' h :
  Inv c s -> gc < c_nclu c -> s_rc s h = 1 -> touches (s_map s gc) h = true ->
  (gc' <> gc -> touches (s_map s gc') h = false) /\ s_meta s h = false.
Proof.
  intros I Hgc Hrc Ht. pose proof (inv_rc c s I h) as R. unfold drefs in R. rewrite Hrc in R.
  split.
  - intros Hne. destruct (N.lt_ge_cases gc' (c_nclu c)) as [Hlt|Hge].
    + pose proof (cntb_two (fun g => touches (s_map s g) h) 0 (N.to_nat (c_nclu c)) gc gc'
                    (proj1 (nclu_range c gc) Hgc) (proj1 (nclu_range c gc') Hlt) (not_eq_sym Hne)) as T.
      cbv beta in T. rewrite Ht in T. unfold b2n in T. destruct (touches (s_map s gc') h); [|reflexivity].
      destruct (s_meta s h); lia.
    + rewrite (inv_out c s I gc' Hge). reflexivity.
  - pose proof (cntb_ge (fun g => touches (s_map s g) h) 0 (N.to_nat (c_nclu c)) gc (proj1 (nclu_range c gc) Hgc)) as G.
    cbv beta in G. rewrite Ht in G. unfold b2n in G. destruct (s_meta s h); [lia|reflexivity].
Qed.

(* a free host cluster is touched by nobody *)
Lemma free_untouched c s h gc :
  Inv c s -> free s h = true -> touches (s_map s gc) h = false.
Proof.
  intros I F. unfold free in F. apply andb_prop in F as [F1 F2]. apply N.eqb_eq in F1.
  pose proof (inv_rc c s I h) as R. rewrite F1 in R. unfold drefs in R.
  destruct (N.lt_ge_cases gc (c_nclu c)) as [Hlt|Hge].
  - assert (Z : cntb (fun g => touches (s_map s g) h) 0 (N.to_nat (c_nclu c)) = 0) by lia.
    exact (cntb_zero _ _ _ Z gc (proj1 (nclu_range c gc) Hlt)).
  - rewrite (inv_out c s I gc Hge). reflexivity.
Qed.

(* drefs after changing the mapping of one guest cluster *)
Lemma refs_upd_map c s gc x h rc' host' :
  gc < c_nclu c ->
  drefs c {| s_map := upd (s_map s) gc x; s_rc := rc'; s_meta := s_meta s; s_host := host' |} h
    + b2n (touches (s_map s gc) h)
  = drefs c s h + b2n (touches x h).
Proof.
  intros Hgc. unfold drefs. cbn [s_map s_meta].
  pose proof (cntb_upd (fun g => touches (s_map s g) h) (fun g => touches (upd (s_map s) gc x g) h)
                0 (N.to_nat (c_nclu c)) gc (proj1 (nclu_range c gc) Hgc)) as U.
  cbv beta in U. rewrite upd_same in U.
  assert (E : forall i, i <> gc -> touches (s_map s i) h = touches (upd (s_map s) gc x i) h)
    by (intros i Hi; rewrite upd_other by exact Hi; reflexivity).
  specialize (U E). lia.
Qed.

Lemma refs_same_map c s rc' host' h :
  drefs c {| s_map := s_map s; s_rc := rc'; s_meta := s_meta s; s_host := host' |} h = drefs c s h.
Proof. reflexivity. Qed.

Lemma dec_run_spec rc h0 k j :
  dec_run rc h0 k j = if (h0 <=? j) && (j <? h0 + N.of_nat k) then rc j - 1 else rc j.
Proof.
  revert rc h0; induction k as [|k IH]; intros rc h0.
  - cbn [dec_run]. destruct (N.leb_spec h0 j), (N.ltb_spec j (h0 + N.of_nat 0)); cbn; try reflexivity; lia.
  - cbn [dec_run]. rewrite IH.
    destruct (N.leb_spec (N.succ h0) j), (N.ltb_spec j (N.succ h0 + N.of_nat k)),
             (N.leb_spec h0 j), (N.ltb_spec j (h0 + N.of_nat (S k))); cbn [andb]; try lia;
      try (rewrite upd_other by lia; reflexivity).
    assert (j = h0) by lia. subst j. rewrite upd_same. reflexivity.
Qed.

(* ---------- write of one cluster ---------- *)
Ltac eqb_in R :=
  repeat match type of R with
         | context [?a =? ?a] => rewrite (N.eqb_refl a) in R
         | context [?a =? ?b] => replace (a =? b) with false in R by (symmetry; apply N.eqb_neq; assumption)
         end.

Lemma touches_data_zeropre h h' : touches (CData h) h' = touches (CZeroPre h) h'.
Proof. reflexivity. Qed.

Lemma b2n_eqb_refl h : b2n (h =? h) = 1.
Proof. rewrite N.eqb_refl. reflexivity. Qed.

Lemma write_cluster_inv c s gc off len v hn s' :
  Inv c s -> gc < c_nclu c -> write_cluster c s gc off len v hn = Some s' -> Inv c s'.
Proof.
  intros I Hgc W. unfold write_cluster in W.
  destruct (s_map s gc) as [| |h|h|h0 k] eqn:M.
  - (* unallocated: allocate hn *)
    destruct (free s hn) eqn:F; [|discriminate]. injection W as <-.
    pose proof (free_untouched c s hn) as FU.
    assert (Rhn : s_rc s hn = 0) by (unfold free in F; apply andb_prop in F as [F1 _]; apply N.eqb_eq in F1; exact F1).
    constructor.
    + intros h. cbn [s_rc].
      pose proof (refs_upd_map c s gc (CData hn) h (upd (s_rc s) hn 1)
                    (upd (s_host s) hn (fill c gc off len v (fun i => if c_backing c then c_back c (gc * c_bpc c + i) else 0))) Hgc) as R.
      rewrite M in R. cbn [touches b2n] in R. pose proof (inv_rc c s I h) as Rh.
      destruct (N.eq_dec h hn) as [E|Hne]; [subst h|].
      * rewrite upd_same. eqb_in R. cbn [b2n] in R. lia.
      * rewrite upd_other by exact Hne. eqb_in R. cbn [b2n] in R. lia.
    + intros g h Hg Hown. cbn [s_map s_rc] in *. destruct (N.eq_dec g gc) as [->|Hne].
      * rewrite upd_same in Hown. destruct Hown as [E|E]; [|discriminate]. injection E as <-. apply upd_same.
      * rewrite upd_other in Hown by exact Hne.
        assert (h <> hn). { intros ->. pose proof (FU g I F) as T. rewrite (touches_owns _ _ Hown) in T. discriminate. }
        rewrite upd_other by assumption. exact (inv_one c s I g h Hg Hown).
    + intros g Hg. cbn [s_map]. rewrite upd_other by lia. exact (inv_out c s I g Hg).
  - (* zero: allocate hn *)
    destruct (free s hn) eqn:F; [|discriminate]. injection W as <-.
    pose proof (free_untouched c s hn) as FU.
    assert (Rhn : s_rc s hn = 0) by (unfold free in F; apply andb_prop in F as [F1 _]; apply N.eqb_eq in F1; exact F1).
    constructor.
    + intros h. cbn [s_rc].
      pose proof (refs_upd_map c s gc (CData hn) h (upd (s_rc s) hn 1)
                    (upd (s_host s) hn (fill c gc off len v (fun _ => 0))) Hgc) as R.
      rewrite M in R. cbn [touches b2n] in R. pose proof (inv_rc c s I h) as Rh.
      destruct (N.eq_dec h hn) as [E|Hne]; [subst h|].
      * rewrite upd_same. eqb_in R. cbn [b2n] in R. lia.
      * rewrite upd_other by exact Hne. eqb_in R. cbn [b2n] in R. lia.
    + intros g h Hg Hown. cbn [s_map s_rc] in *. destruct (N.eq_dec g gc) as [->|Hne].
      * rewrite upd_same in Hown. destruct Hown as [E|E]; [|discriminate]. injection E as <-. apply upd_same.
      * rewrite upd_other in Hown by exact Hne.
        assert (h <> hn). { intros ->. pose proof (FU g I F) as T. rewrite (touches_owns _ _ Hown) in T. discriminate. }
        rewrite upd_other by assumption. exact (inv_one c s I g h Hg Hown).
    + intros g Hg. cbn [s_map]. rewrite upd_other by lia. exact (inv_out c s I g Hg).
  - (* preallocated zero cluster: reuse h *)
    injection W as <-. constructor.
    + intros h'. cbn [s_rc].
      pose proof (refs_upd_map c s gc (CData h) h' (s_rc s) (upd (s_host s) h (fill c gc off len v (fun _ => 0))) Hgc) as R.
      rewrite M in R. rewrite touches_data_zeropre in R. pose proof (inv_rc c s I h'). lia.
    + intros g h' Hg Hown. cbn [s_map s_rc] in *. destruct (N.eq_dec g gc) as [->|Hne].
      * rewrite upd_same in Hown. destruct Hown as [E|E]; [|discriminate]. injection E as <-.
        apply (inv_one c s I gc h Hgc). right. exact M.
      * rewrite upd_other in Hown by exact Hne. exact (inv_one c s I g h' Hg Hown).
    + intros g Hg. cbn [s_map]. rewrite upd_other by lia. exact (inv_out c s I g Hg).
  - (* data: in place *)
    injection W as <-. constructor.
    + intros h'. exact (inv_rc c s I h').
    + intros g h' Hg Hown. exact (inv_one c s I g h' Hg Hown).
    + intros g Hg. exact (inv_out c s I g Hg).
  - (* compressed: copy to hn, release the run *)
    destruct (free s hn) eqn:F; [|discriminate]. injection W as <-.
    pose proof (free_untouched c s hn) as FU.
    assert (Rhn : s_rc s hn = 0) by (unfold free in F; apply andb_prop in F as [F1 _]; apply N.eqb_eq in F1; exact F1).
    assert (Tn : touches (CComp h0 k) hn = false) by (rewrite <- M; exact (FU gc I F)).
    constructor.
    + intros h. cbn [s_rc]. rewrite dec_run_spec, N2Nat.id.
      pose proof (refs_upd_map c s gc (CData hn) h (dec_run (upd (s_rc s) hn 1) h0 (N.to_nat k))
                    (upd (s_host s) hn (fill c gc off len v (c_comp c gc))) Hgc) as R.
      rewrite M in R. pose proof (inv_rc c s I h) as Rh.
      change ((h0 <=? h) && (h <? h0 + k)) with (touches (CComp h0 k) h) in *.
      destruct (N.eq_dec h hn) as [E|Hne]; [subst h|].
      * rewrite Tn in *. rewrite upd_same. cbn [touches] in R. rewrite N.eqb_refl in R. cbn [b2n] in R. lia.
      * rewrite upd_other by exact Hne.
        replace (touches (CData hn) h) with false in R by (cbn [touches]; symmetry; apply N.eqb_neq; exact Hne).
        destruct (touches (CComp h0 k) h); cbn [b2n] in R; lia.
    + intros g h Hg Hown. cbn [s_map s_rc] in *. rewrite dec_run_spec, N2Nat.id.
      change ((h0 <=? h) && (h <? h0 + k)) with (touches (CComp h0 k) h).
      destruct (N.eq_dec g gc) as [->|Hne].
      * rewrite upd_same in Hown. destruct Hown as [E|E]; [|discriminate]. injection E as <-.
        rewrite Tn. apply upd_same.
      * rewrite upd_other in Hown by exact Hne.
        assert (Hhn : h <> hn). { intros ->. pose proof (FU g I F) as T. rewrite (touches_owns _ _ Hown) in T. discriminate. }
        pose proof (inv_one c s I g h Hg Hown) as R1.
        destruct (unique_owner c s g gc h I Hg R1 (touches_owns _ _ Hown)) as [U _].
        specialize (U (not_eq_sym Hne)). rewrite M in U. rewrite U.
        rewrite upd_other by exact Hhn. exact R1.
    + intros g Hg. cbn [s_map]. rewrite upd_other by lia. exact (inv_out c s I g Hg).
Qed.

Lemma block_split bpc b : 0 < bpc -> b / bpc * bpc + b mod bpc = b.
Proof. intros H. pose proof (N.div_mod' b bpc). lia. Qed.

(* an owned host cluster is not the data cluster of another guest cluster *)
Lemma owned_not_shared c s gc g h h' :
  Inv c s -> gc < c_nclu c -> owns (s_map s gc) h -> g <> gc -> s_map s g = CData h' -> h' <> h.
Proof.
  intros I Hgc Hown Hne Mg ->.
  pose proof (inv_one c s I gc h Hgc Hown) as R1.
  destruct (unique_owner c s gc g h I Hgc R1 (touches_owns _ _ Hown)) as [U _].
  specialize (U Hne). rewrite Mg in U. cbn [touches] in U. rewrite N.eqb_refl in U. discriminate.
Qed.

Lemma free_not_data c s g hn h' :
  Inv c s -> free s hn = true -> s_map s g = CData h' -> h' <> hn.
Proof.
  intros I F Mg ->. pose proof (free_untouched c s hn g I F) as T. rewrite Mg in T.
  cbn [touches] in T. rewrite N.eqb_refl in T. discriminate.
Qed.

Lemma write_cluster_read c s gc off len v hn s' :
  Inv c s -> gc < c_nclu c -> 0 < c_bpc c -> write_cluster c s gc off len v hn = Some s' ->
  forall b, read_block c s' b = if (b / c_bpc c =? gc) && inr off len b then v b else read_block c s b.
Proof.
  intros I Hgc Hb W b. pose proof (block_split (c_bpc c) b Hb) as BS.
  unfold write_cluster in W. unfold read_block.
  destruct (s_map s gc) as [| |h|h|h0 k] eqn:M.
  - destruct (free s hn) eqn:F; [|discriminate]. injection W as <-. cbn [s_map s_host].
    destruct (N.eqb_spec (b / c_bpc c) gc) as [E|E]; cbn [andb].
    + rewrite E in *. rewrite upd_same, upd_same, M. unfold fill. rewrite BS.
      destruct (inr off len b); reflexivity.
    + rewrite upd_other by exact E. destruct (s_map s (b / c_bpc c)) eqn:Mg; try reflexivity.
      rewrite upd_other by (exact (free_not_data c s _ hn _ I F Mg)). reflexivity.
  - destruct (free s hn) eqn:F; [|discriminate]. injection W as <-. cbn [s_map s_host].
    destruct (N.eqb_spec (b / c_bpc c) gc) as [E|E]; cbn [andb].
    + rewrite E in *. rewrite upd_same, upd_same, M. unfold fill. rewrite BS.
      destruct (inr off len b); reflexivity.
    + rewrite upd_other by exact E. destruct (s_map s (b / c_bpc c)) eqn:Mg; try reflexivity.
      rewrite upd_other by (exact (free_not_data c s _ hn _ I F Mg)). reflexivity.
  - injection W as <-. cbn [s_map s_host].
    destruct (N.eqb_spec (b / c_bpc c) gc) as [E|E]; cbn [andb].
    + rewrite E in *. rewrite upd_same, upd_same, M. unfold fill. rewrite BS.
      destruct (inr off len b); reflexivity.
    + rewrite upd_other by exact E. destruct (s_map s (b / c_bpc c)) eqn:Mg; try reflexivity.
      rewrite upd_other by (exact (owned_not_shared c s gc _ h _ I Hgc (or_intror M) E Mg)). reflexivity.
  - injection W as <-. cbn [s_map s_host].
    destruct (N.eqb_spec (b / c_bpc c) gc) as [E|E]; cbn [andb].
    + rewrite E in *. rewrite M, upd_same. unfold fill. rewrite BS.
      destruct (inr off len b); reflexivity.
    + destruct (s_map s (b / c_bpc c)) eqn:Mg; try reflexivity.
      rewrite upd_other by (exact (owned_not_shared c s gc _ h _ I Hgc (or_introl M) E Mg)). reflexivity.
  - destruct (free s hn) eqn:F; [|discriminate]. injection W as <-. cbn [s_map s_host].
    destruct (N.eqb_spec (b / c_bpc c) gc) as [E|E]; cbn [andb].
    + rewrite E in *. rewrite upd_same, upd_same, M. unfold fill. rewrite BS.
      destruct (inr off len b); reflexivity.
    + rewrite upd_other by exact E. destruct (s_map s (b / c_bpc c)) eqn:Mg; try reflexivity.
      rewrite upd_other by (exact (free_not_data c s _ hn _ I F Mg)). reflexivity.
Qed.

(* ---------- write of a block range ---------- *)
Lemma write_clusters_inv c gcs : forall s off len v ch s',
  Inv c s -> Forall (fun gc => gc < c_nclu c) gcs ->
  write_clusters c s gcs off len v ch = Some s' -> Inv c s'.
Proof.
  induction gcs as [|gc r IH]; intros s off len v ch s' I HF W; cbn [write_clusters] in W.
  - injection W as <-. exact I.
  - destruct (write_cluster c s gc off len v (ch gc)) as [s1|] eqn:W1; [|discriminate].
    inversion HF as [|? ? Hgc HF']; subst.
    exact (IH s1 off len v ch s' (write_cluster_inv c s gc off len v (ch gc) s1 I Hgc W1) HF' W).
Qed.

Lemma write_clusters_read c gcs : forall s off len v ch s',
  Inv c s -> 0 < c_bpc c -> Forall (fun gc => gc < c_nclu c) gcs ->
  write_clusters c s gcs off len v ch = Some s' ->
  forall b, read_block c s' b =
            if existsb (N.eqb (b / c_bpc c)) gcs && inr off len b then v b else read_block c s b.
Proof.
  induction gcs as [|gc r IH]; intros s off len v ch s' I Hb HF W b; cbn [write_clusters] in W.
  - injection W as <-. reflexivity.
  - destruct (write_cluster c s gc off len v (ch gc)) as [s1|] eqn:W1; [|discriminate].
    inversion HF as [|? ? Hgc HF']; subst.
    pose proof (write_cluster_inv c s gc off len v (ch gc) s1 I Hgc W1) as I1.
    rewrite (IH s1 off len v ch s' I1 Hb HF' W b).
    rewrite (write_cluster_read c s gc off len v (ch gc) s1 I Hgc Hb W1 b).
    cbn [existsb]. destruct (b / c_bpc c =? gc), (existsb (N.eqb (b / c_bpc c)) r), (inr off len b); reflexivity.
Qed.

Lemma seqN_In s n x : In x (seqN s n) <-> s <= x < s + N.of_nat n.
Proof.
  revert s; induction n as [|n IH]; intros s; cbn [seqN In].
  - lia.
  - rewrite IH. lia.
Qed.

Lemma clusters_of_bound c off len :
  0 < c_bpc c -> off + len <= c_nclu c * c_bpc c ->
  Forall (fun gc => gc < c_nclu c) (clusters_of c off len).
Proof.
  intros Hb Hle. unfold clusters_of. destruct (N.eqb_spec len 0) as [E|E]; [constructor|].
  apply Forall_forall. intros x Hx. apply seqN_In in Hx. rewrite N2Nat.id in Hx.
  assert (D : off / c_bpc c <= (off + len - 1) / c_bpc c) by (apply N.div_le_mono; lia).
  assert (U : (off + len - 1) / c_bpc c < c_nclu c).
  { apply N.div_lt_upper_bound; lia. }
  lia.
Qed.

Lemma clusters_of_cover c off len b :
  0 < c_bpc c -> inr off len b = true -> existsb (N.eqb (b / c_bpc c)) (clusters_of c off len) = true.
Proof.
  intros Hb Hin. unfold inr in Hin. apply andb_prop in Hin as [H1 H2].
  apply N.leb_le in H1. apply N.ltb_lt in H2.
  apply existsb_exists. exists (b / c_bpc c). split; [|apply N.eqb_refl].
  unfold clusters_of. destruct (N.eqb_spec len 0) as [E|E]; [lia|].
  apply seqN_In. rewrite N2Nat.id.
  assert (D1 : off / c_bpc c <= b / c_bpc c) by (apply N.div_le_mono; lia).
  assert (D2 : b / c_bpc c <= (off + len - 1) / c_bpc c) by (apply N.div_le_mono; lia).
  lia.
Qed.

Theorem write_inv c s off len v ch s' :
  Inv c s -> 0 < c_bpc c -> off + len <= c_nclu c * c_bpc c ->
  write c s off len v ch = Some s' -> Inv c s'.
Proof.
  intros I Hb Hle W. unfold write in W.
  exact (write_clusters_inv c _ s off len v ch s' I (clusters_of_bound c off len Hb Hle) W).
Qed.

(* a write changes exactly the written blocks (C01 read-your-writes, C03 frame) *)
Theorem write_read c s off len v ch s' :
  Inv c s -> 0 < c_bpc c -> off + len <= c_nclu c * c_bpc c ->
  write c s off len v ch = Some s' ->
  forall b, read_block c s' b = if inr off len b then v b else read_block c s b.
Proof.
  intros I Hb Hle W b. unfold write in W.
  rewrite (write_clusters_read c _ s off len v ch s' I Hb (clusters_of_bound c off len Hb Hle) W b).
  destruct (inr off len b) eqn:E.
  - rewrite (clusters_of_cover c off len b Hb E). reflexivity.
  - rewrite andb_false_r. reflexivity.
Qed.

(* ---------- discard ---------- *)
Definition owns_b (x : cl) : bool := match x with CData _ | CZeroPre _ => true | _ => false end.

Lemma discard_cluster_map_other c s gc g : g <> gc -> s_map (discard_cluster c s gc) g = s_map s g.
Proof.
  intros H. unfold discard_cluster. destruct (s_map s gc); try reflexivity.
  - cbn [s_map]. apply upd_other. exact H.
  - destruct (c_backing c); [destruct (c_v2 c)|]; cbn [s_map]; try reflexivity; apply upd_other; exact H.
Qed.

(* releasing the only reference of an owned host cluster *)
Lemma release_inv c s gc h x host' :
  Inv c s -> gc < c_nclu c -> owns (s_map s gc) h -> (forall h', touches x h' = false) ->
  Inv c {| s_map := upd (s_map s) gc x; s_rc := upd (s_rc s) h (s_rc s h - 1); s_meta := s_meta s; s_host := host' |}.
Proof.
  intros I Hgc Hown Hx.
  pose proof (inv_one c s I gc h Hgc Hown) as R1.
  constructor.
  - intros h'. cbn [s_rc].
    pose proof (refs_upd_map c s gc x h' (upd (s_rc s) h (s_rc s h - 1)) host' Hgc) as R.
    rewrite Hx in R. cbn [b2n] in R. pose proof (inv_rc c s I h') as Rh.
    destruct (N.eq_dec h' h) as [E|Hne]; [subst h'|].
    + rewrite upd_same. rewrite (touches_owns _ _ Hown) in R. cbn [b2n] in R. lia.
    + rewrite upd_other by exact Hne.
      assert (T : touches (s_map s gc) h' = false).
      { destruct Hown as [E|E]; rewrite E; cbn [touches]; apply N.eqb_neq; exact Hne. }
      rewrite T in R. cbn [b2n] in R. lia.
  - intros g h' Hg Hown'. cbn [s_map s_rc] in *. destruct (N.eq_dec g gc) as [->|Hne].
    + rewrite upd_same in Hown'. destruct Hown' as [E|E]; rewrite E in Hx; specialize (Hx h');
        cbn [touches] in Hx; rewrite N.eqb_refl in Hx; discriminate.
    + rewrite upd_other in Hown' by exact Hne.
      assert (h' <> h).
      { intros ->. destruct (unique_owner c s gc g h I Hgc R1 (touches_owns _ _ Hown)) as [U _].
        specialize (U Hne). rewrite (touches_owns _ _ Hown') in U. discriminate. }
      rewrite upd_other by assumption. exact (inv_one c s I g h' Hg Hown').
  - intros g Hg. cbn [s_map]. rewrite upd_other by lia. exact (inv_out c s I g Hg).
Qed.

Lemma discard_cluster_inv c s gc : Inv c s -> gc < c_nclu c -> Inv c (discard_cluster c s gc).
Proof.
  intros I Hgc. unfold discard_cluster. destruct (s_map s gc) as [| |h|h|h0 k] eqn:M; try exact I.
  - destruct (c_backing c).
    + apply (release_inv c s gc h CZero (s_host s) I Hgc (or_intror M)). reflexivity.
    + apply (release_inv c s gc h CUn (s_host s) I Hgc (or_intror M)). reflexivity.
  - destruct (c_backing c); [destruct (c_v2 c)|].
    + constructor; [exact (inv_rc c s I)|exact (inv_one c s I)|exact (inv_out c s I)].
    + apply (release_inv c s gc h CZero (s_host s) I Hgc (or_introl M)). reflexivity.
    + apply (release_inv c s gc h CUn (s_host s) I Hgc (or_introl M)). reflexivity.
Qed.

Lemma discard_cluster_read c s gc :
  Inv c s -> gc < c_nclu c ->
  forall b, read_block c (discard_cluster c s gc) b =
            if (b / c_bpc c =? gc) && owns_b (s_map s gc) then 0 else read_block c s b.
Proof.
  intros I Hgc b. unfold discard_cluster, read_block.
  destruct (s_map s gc) as [| |h|h|h0 k] eqn:M; cbn [owns_b]; rewrite ?andb_false_r; try reflexivity.
  - (* preallocated zero *)
    destruct (N.eqb_spec (b / c_bpc c) gc) as [E|E]; cbn [andb s_map s_host].
    + rewrite E. rewrite upd_same. destruct (c_backing c) eqn:B; rewrite ?B; reflexivity.
    + rewrite upd_other by exact E. reflexivity.
  - (* data *)
    destruct (c_backing c) eqn:B; [destruct (c_v2 c)|]; cbn [s_map s_host];
      destruct (N.eqb_spec (b / c_bpc c) gc) as [E|E]; cbn [andb].
    + rewrite E, M, upd_same. reflexivity.
    + destruct (s_map s (b / c_bpc c)) eqn:Mg; try reflexivity.
      rewrite upd_other by (exact (owned_not_shared c s gc _ h _ I Hgc (or_introl M) E Mg)). reflexivity.
    + rewrite E, upd_same. reflexivity.
    + rewrite upd_other by exact E. reflexivity.
    + rewrite E, upd_same, ?B. reflexivity.
    + rewrite upd_other by exact E. reflexivity.
Qed.

Lemma discard_list c l : forall s,
  Inv c s -> NoDup l -> Forall (fun gc => gc < c_nclu c) l ->
  Inv c (fold_left (discard_cluster c) l s) /\
  forall b, read_block c (fold_left (discard_cluster c) l s) b =
            if existsb (N.eqb (b / c_bpc c)) l && owns_b (s_map s (b / c_bpc c)) then 0 else read_block c s b.
Proof.
  induction l as [|gc r IH]; intros s I ND HF; cbn [fold_left].
  - split; [exact I|reflexivity].
  - inversion ND as [|? ? Hnin ND']; subst. inversion HF as [|? ? Hgc HF']; subst.
    pose proof (discard_cluster_inv c s gc I Hgc) as I1.
    destruct (IH (discard_cluster c s gc) I1 ND' HF') as [I2 R2]. split; [exact I2|].
    intros b. rewrite R2, (discard_cluster_read c s gc I Hgc b). cbn [existsb].
    destruct (N.eqb_spec (b / c_bpc c) gc) as [E|E].
    + rewrite E. assert (X : existsb (N.eqb gc) r = false).
      { destruct (existsb (N.eqb gc) r) eqn:X; [|reflexivity]. apply existsb_exists in X as [y [Hy Ey]].
        apply N.eqb_eq in Ey. subst y. contradiction. }
      rewrite X. cbn [andb orb]. reflexivity.
    + rewrite (discard_cluster_map_other c s gc _ E). cbn [orb andb].
      destruct (existsb (N.eqb (b / c_bpc c)) r && owns_b (s_map s (b / c_bpc c))); reflexivity.
Qed.

Lemma seqN_NoDup s n : NoDup (seqN s n).
Proof.
  revert s; induction n as [|n IH]; intros s; cbn [seqN]; constructor.
  - rewrite seqN_In. lia.
  - apply IH.
Qed.

Definition in_discard (c : cfg) (off len g : N) : bool :=
  let '(start, stop) := discard_range c off len in negb (len =? 0) && (start <=? g) && (g <? stop).

Theorem discard_inv c s off len :
  Inv c s -> 0 < c_bpc c -> c_vblocks c <= c_nclu c * c_bpc c -> Inv c (discard c s off len).
Proof.
  intros I Hb Hv. unfold discard. destruct (discard_range c off len) as [start stop] eqn:DR.
  destruct ((len =? 0) || (stop <=? start)) eqn:G; [exact I|].
  apply (discard_list c _ s I (seqN_NoDup _ _)).
  apply Forall_forall. intros x Hx. apply seqN_In in Hx. rewrite N2Nat.id in Hx.
  unfold discard_range in DR. injection DR as <- <-.
  apply orb_false_elim in G as [_ G]. apply N.leb_gt in G.
  assert (N.min (off + len) (c_vblocks c) / c_bpc c <= c_nclu c).
  { apply N.div_le_upper_bound; lia. }
  lia.
Qed.

(* discard zeroes exactly the whole clusters inside the clipped range that own an uncompressed host
   cluster; every other block is unchanged (C11) *)
Theorem discard_read c s off len :
  Inv c s -> 0 < c_bpc c -> c_vblocks c <= c_nclu c * c_bpc c ->
  forall b, read_block c (discard c s off len) b =
            if in_discard c off len (b / c_bpc c) && owns_b (s_map s (b / c_bpc c)) then 0 else read_block c s b.
Proof.
  intros I Hb Hv b. unfold discard, in_discard. destruct (discard_range c off len) as [start stop] eqn:DR.
  destruct ((len =? 0) || (stop <=? start)) eqn:G.
  - apply orb_prop in G as [G|G].
    + rewrite G. reflexivity.
    + apply N.leb_le in G.
      destruct (N.leb_spec start (b / c_bpc c)), (N.ltb_spec (b / c_bpc c) stop); cbn [andb]; rewrite ?andb_false_r; try reflexivity; lia.
  - apply orb_false_elim in G as [G0 G]. apply N.leb_gt in G. rewrite G0. cbn [negb andb].
    assert (HF : Forall (fun gc => gc < c_nclu c) (seqN start (N.to_nat (stop - start)))).
    { apply Forall_forall. intros x Hx. apply seqN_In in Hx. rewrite N2Nat.id in Hx.
      unfold discard_range in DR. injection DR as <- <-.
      assert (N.min (off + len) (c_vblocks c) / c_bpc c <= c_nclu c) by (apply N.div_le_upper_bound; lia).
      lia. }
    destruct (discard_list c _ s I (seqN_NoDup start (N.to_nat (stop - start))) HF) as [_ R].
    rewrite R.
    assert (X : existsb (N.eqb (b / c_bpc c)) (seqN start (N.to_nat (stop - start)))
                = (start <=? b / c_bpc c) && (b / c_bpc c <? stop)).
    { destruct (N.leb_spec start (b / c_bpc c)), (N.ltb_spec (b / c_bpc c) stop); cbn [andb].
      - apply existsb_exists. exists (b / c_bpc c). split; [apply seqN_In; rewrite N2Nat.id; lia|apply N.eqb_refl].
      - destruct (existsb _ _) eqn:X; [|reflexivity]. apply existsb_exists in X as [y [Hy Ey]].
        apply N.eqb_eq in Ey. subst y. apply seqN_In in Hy. rewrite N2Nat.id in Hy. lia.
      - destruct (existsb _ _) eqn:X; [|reflexivity]. apply existsb_exists in X as [y [Hy Ey]].
        apply N.eqb_eq in Ey. subst y. apply seqN_In in Hy. rewrite N2Nat.id in Hy. lia.
      - destruct (existsb _ _) eqn:X; [|reflexivity]. apply existsb_exists in X as [y [Hy Ey]].
        apply N.eqb_eq in Ey. subst y. apply seqN_In in Hy. rewrite N2Nat.id in Hy. lia. }
    rewrite X. reflexivity.
Qed.

(* ---------- metadata growth, steps, runs ---------- *)
Lemma grow_inv c s h s' : Inv c s -> grow s h = Some s' -> Inv c s'.
Proof.
  intros I G. unfold grow in G. destruct (free s h) eqn:F; [|discriminate]. injection G as <-.
  pose proof F as F'. unfold free in F'. apply andb_prop in F' as [F1 F2]. apply N.eqb_eq in F1.
  apply negb_true_iff in F2.
  constructor.
  - intros h'. cbn [s_rc]. unfold drefs. cbn [s_map s_meta]. pose proof (inv_rc c s I h') as R. unfold drefs in R.
    destruct (N.eq_dec h' h) as [E|Hne]; [subst h'|].
    + rewrite !upd_same. rewrite F2 in R. lia.
    + rewrite !upd_other by exact Hne. exact R.
  - intros g h' Hg Hown. cbn [s_map s_rc] in *.
    assert (h' <> h).
    { intros ->. pose proof (free_untouched c s h g I F) as T. rewrite (touches_owns _ _ Hown) in T. discriminate. }
    rewrite upd_other by assumption. exact (inv_one c s I g h' Hg Hown).
  - exact (inv_out c s I).
Qed.

Lemma grow_read c s h s' : grow s h = Some s' -> forall b, read_block c s' b = read_block c s b.
Proof. unfold grow. destruct (free s h); [|discriminate]. intros E b. injection E as <-. reflexivity. Qed.

Definition op_ok (c : cfg) (o : op) : Prop :=
  match o with
  | OWrite off len _ _ => off + len <= c_vblocks c
  | _ => True
  end.

Definition cfg_ok (c : cfg) : Prop := 0 < c_bpc c /\ c_vblocks c <= c_nclu c * c_bpc c.

Theorem step_inv c s o s' : cfg_ok c -> Inv c s -> op_ok c o -> step c s o = Some s' -> Inv c s'.
Proof.
  intros [Hb Hv] I Hok S. destruct o as [off len v ch|off len|h]; cbn [step op_ok] in *.
  - apply (write_inv c s off len v ch s' I Hb); [lia|exact S].
  - injection S as <-. exact (discard_inv c s off len I Hb Hv).
  - exact (grow_inv c s h s' I S).
Qed.

(* every state reachable from a state satisfying the invariant satisfies it: refcounts equal the number
   of references, every uncompressed guest cluster is the only owner of its host cluster (C02/C08) *)
Theorem run_inv c ops : forall s s', cfg_ok c -> Inv c s -> Forall (op_ok c) ops -> run c s ops = Some s' -> Inv c s'.
Proof.
  induction ops as [|o r IH]; intros s s' C I HF R; cbn [run] in R.
  - injection R as <-. exact I.
  - destruct (step c s o) as [s1|] eqn:S; [|discriminate]. inversion HF as [|? ? Ho HF']; subst.
    exact (IH s1 s' C (step_inv c s o s1 C I Ho S) HF' R).
Qed.

(* the flat-disk view of one step *)
Definition flat_step (c : cfg) (s : st) (o : op) (f : N -> N) : N -> N :=
  match o with
  | OWrite off len v _ => fun b => if inr off len b then v b else f b
  | ODiscard off len => fun b => if in_discard c off len (b / c_bpc c) && owns_b (s_map s (b / c_bpc c)) then 0 else f b
  | OGrow _ => f
  end.

Theorem step_read c s o s' :
  cfg_ok c -> Inv c s -> op_ok c o -> step c s o = Some s' ->
  forall b, read_block c s' b = flat_step c s o (read_block c s) b.
Proof.
  intros [Hb Hv] I Hok S b. destruct o as [off len v ch|off len|h]; cbn [step op_ok flat_step] in *.
  - apply (write_read c s off len v ch s' I Hb); [lia|exact S].
  - injection S as <-. exact (discard_read c s off len I Hb Hv b).
  - exact (grow_read c s h s' S b).
Qed.

(* a host cluster handed out by an accepted write was free: refcount zero, referenced by nothing *)
Theorem alloc_was_free c s gc off len v hn s' :
  Inv c s -> write_cluster c s gc off len v hn = Some s' ->
  (forall h, s_map s gc <> CData h) -> (forall h, s_map s gc <> CZeroPre h) ->
  s_rc s hn = 0 /\ s_meta s hn = false /\ (forall g, touches (s_map s g) hn = false) /\ s_map s' gc = CData hn.
Proof.
  intros I W ND NZ. unfold write_cluster in W.
  destruct (s_map s gc) as [| |h|h|h0 k] eqn:M; try (exfalso; eapply NZ; reflexivity); try (exfalso; eapply ND; reflexivity);
    (destruct (free s hn) eqn:F; [|discriminate]); injection W as <-;
    pose proof F as F'; unfold free in F'; apply andb_prop in F' as [F1 F2]; apply N.eqb_eq in F1; apply negb_true_iff in F2;
    (split; [exact F1|split; [exact F2|split; [intros g; exact (free_untouched c s hn g I F)|cbn [s_map]; apply upd_same]]]).
Qed.

(* ---------- the invariant is satisfiable: a freshly formatted image ---------- *)
Lemma cntb_false s n : cntb (fun _ => false) s n = 0.
Proof. revert s; induction n as [|n IH]; intros s; cbn [cntb]; [reflexivity|rewrite IH; reflexivity]. Qed.

Lemma inv_fresh c (meta : N -> bool) :
  Inv c {| s_map := fun _ => CUn; s_rc := fun h => if meta h then 1 else 0; s_meta := meta; s_host := fun _ _ => 0 |}.
Proof.
  constructor.
  - intros h. unfold drefs. cbn [s_map s_rc s_meta touches]. rewrite cntb_false. lia.
  - intros g h _ [E|E]; discriminate.
  - reflexivity.
Qed.

(* ---------- the executable invariant check is sound ---------- *)
Lemma nthN_default {A} (l : list A) d i : N.of_nat (length l) <= i -> nthN l d i = d.
Proof. intros H. unfold nthN. apply nth_overflow. lia. Qed.

Lemma nthN_In {A} (l : list A) d i : i < N.of_nat (length l) -> In (nthN l d i) l.
Proof. intros H. unfold nthN. apply nth_In. lia. Qed.

Lemma bound_ok_untouched H x h : bound_ok H x = true -> H <= h -> touches x h = false.
Proof.
  intros B Hh. destruct x as [| |h'|h'|h0 k]; cbn [bound_ok touches] in *; try reflexivity.
  - apply N.ltb_lt in B. apply N.eqb_neq. lia.
  - apply N.ltb_lt in B. apply N.eqb_neq. lia.
  - apply N.leb_le in B. destruct (N.leb_spec h0 h), (N.ltb_spec h (h0 + k)); cbn [andb]; try reflexivity; lia.
Qed.

Theorem invb_sound c maps rcs metas host :
  invb c maps rcs metas = true -> Inv c (mk_state maps rcs metas host).
Proof.
  unfold invb. intros B.
  apply andb_prop in B as [B B5]. apply andb_prop in B as [B B4]. apply andb_prop in B as [B B3].
  apply andb_prop in B as [B1 B2]. apply N.leb_le in B1. apply N.leb_le in B2.
  rewrite forallb_forall in B3, B4, B5.
  set (H := N.of_nat (length rcs)) in *.
  assert (T : forall gc h, H <= h -> touches (nthN maps CUn gc) h = false).
  { intros gc h Hh. destruct (N.lt_ge_cases gc (N.of_nat (length maps))) as [L|G].
    - apply (bound_ok_untouched H); [apply B3; apply nthN_In; exact L|exact Hh].
    - rewrite nthN_default by exact G. reflexivity. }
  constructor.
  - intros h. cbn [mk_state s_rc]. destruct (N.lt_ge_cases h H) as [L|G].
    + specialize (B4 h). rewrite seqN_In in B4. specialize (B4 ltac:(unfold H in L; lia)).
      apply N.eqb_eq in B4. exact B4.
    + rewrite nthN_default by exact G. unfold drefs. cbn [mk_state s_map s_meta].
      rewrite (cntb_ext _ (fun _ => false)) by (intros i _; apply T; exact G).
      rewrite cntb_false, nthN_default by lia. reflexivity.
  - intros gc h Hgc Hown. specialize (B5 gc). rewrite seqN_In in B5. rewrite N2Nat.id in B5.
    specialize (B5 ltac:(lia)). unfold one_ok in B5. cbn [mk_state s_map s_rc] in *.
    destruct Hown as [E|E]; rewrite E in B5; apply N.eqb_eq in B5; exact B5.
  - intros gc Hgc. cbn [mk_state s_map]. apply nthN_default. lia.
Qed.

(* ---------- whole histories: the flat-disk view ---------- *)
Fixpoint flat_run (c : cfg) (s : st) (ops : list op) (f : N -> N) : N -> N :=
  match ops with
  | [] => f
  | o :: r => match step c s o with
              | Some s' => flat_run c s' r (flat_step c s o f)
              | None => f
              end
  end.

Lemma flat_step_ext c s o f g b : f b = g b -> flat_step c s o f b = flat_step c s o g b.
Proof. intros E. destruct o; cbn [flat_step]; rewrite ?E; reflexivity. Qed.

Lemma flat_run_ext c ops : forall s f g, (forall b, f b = g b) -> forall b, flat_run c s ops f b = flat_run c s ops g b.
Proof.
  induction ops as [|o r IH]; intros s f g E b; cbn [flat_run]; [apply E|].
  destruct (step c s o) as [s1|]; [|apply E].
  apply IH. intros b'. apply flat_step_ext. apply E.
Qed.

Theorem run_read c ops : forall s s',
  cfg_ok c -> Inv c s -> Forall (op_ok c) ops -> run c s ops = Some s' ->
  forall b, read_block c s' b = flat_run c s ops (read_block c s) b.
Proof.
  induction ops as [|o r IH]; intros s s' C I HF R b; cbn [run flat_run] in *.
  - injection R as <-. reflexivity.
  - destruct (step c s o) as [s1|] eqn:S; [|discriminate]. inversion HF as [|? ? Ho HF']; subst.
    rewrite (IH s1 s' C (step_inv c s o s1 C I Ho S) HF' R b).
    apply flat_run_ext. intros b'. exact (step_read c s o s1 C I Ho S b').
Qed.
