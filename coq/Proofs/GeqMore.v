From Coq Require Import NArith List Bool Lia.
From Q.Base Require Import RExpr Bits.
From Q.Model Require Import Codec.
From Q.Gen Require Import GenCodec.
From Q.Proofs Require Import Geometry GenEq ArgProps.
From Q.Exec Require Import C13Exec.
Import ListNotations.
Open Scope N_scope.

Lemma shl_small l2e cb : cb <= 21 -> 1 <= l2e <= 2 ^ 18 -> 1 <= N.shiftl l2e cb < 2 ^ 40.
Proof.
  intros Hcb Hl. rewrite N.shiftl_mul_pow2.
  assert (P1 : 1 <= 2 ^ cb) by (apply pow2_ge1).
  assert (P2 : 2 ^ cb <= 2 ^ 21) by (apply N.pow_le_mono_r; lia).
  change (2 ^ 40) with (2 ^ 18 * 2 ^ 21 * 2). change (2 ^ 18) with 262144 in *. change (2 ^ 21) with 2097152 in *. nia.
Qed.

Lemma geq_max_l1_entries size cb l2e :
  cb <= 21 -> 1 <= l2e <= 2 ^ 18 -> size < 2 ^ 64 ->
  call g_Qcow2Info_max_l1_entries [VInt size; VInt cb; VInt l2e] = Ret (VInt (max_l1_entries size cb l2e)).
Proof.
  intros Hcb Hl Hs. pose proof (shl_small l2e cb Hcb Hl) as B.
  assert (M : N.shiftl l2e cb mod 18446744073709551616 = N.shiftl l2e cb)
    by (apply N.mod_small; eapply N.lt_trans; [apply B|reflexivity]).
  unfold g_Qcow2Info_max_l1_entries, max_l1_entries. geq.
  all: rewrite ?M in *; try reflexivity; try lia.
Qed.

Lemma geq_get_max_l1_entries size cb :
  9 <= cb <= 21 -> size < 2 ^ 64 ->
  call g_Qcow2Info_get_max_l1_entries [VInt size; VInt cb] = Ret (VInt (get_max_l1_entries size cb)).
Proof.
  intros Hcb Hs. unfold g_Qcow2Info_get_max_l1_entries, get_max_l1_entries. geq.
  assert (P : 2 ^ cb < 2 ^ 64) by (apply N.pow_lt_mono_r; lia).
  rewrite N.shiftl_1_l. change 18446744073709551616 with (2 ^ 64). rewrite (N.mod_small _ _ P).
  assert (L : 1 <= 2 ^ cb / 8 <= 2 ^ 18).
  { assert (2 ^ 9 <= 2 ^ cb) by (apply N.pow_le_mono_r; lia).
    assert (2 ^ cb <= 2 ^ 21) by (apply N.pow_le_mono_r; lia).
    change (2 ^ 9) with 512 in *. change (2 ^ 21) with 2097152 in *. change (2 ^ 18) with 262144.
    split; [apply N.div_le_lower_bound; lia|apply N.div_le_upper_bound; lia]. }
  apply geq_max_l1_entries; [lia|exact L|exact Hs].
Qed.

Lemma geq_max_l1_size entries bs :
  entries <= 4194304 -> 1 <= bs -> N.land bs (bs - 1) = 0 ->
  call g_Qcow2Info_max_l1_size [VInt entries; VInt bs] =
  match max_l1_size entries bs with Some v => Ret (VInt v) | None => Panic end.
Proof.
  intros He Hb Hp. unfold g_Qcow2Info_max_l1_size, max_l1_size. geq.
  rewrite (geq_align_up (entries * 8) bs Hb Hp). unfold v_optN.
  destruct (align_up (entries * 8) bs); reflexivity.
Qed.

(* cache_geometry of Qcow2Info::new (after the default-slice clamp): slice bits and slice count *)
Definition cache_geom (param : option (N * N)) (default_bytes lo hi : N) : N * N :=
  match param with
  | Some (b, s) => (b, N.shiftr s b)
  | None => let b := N.max (N.min 12 hi) lo in (b, N.max (N.shiftr default_bytes b) 2)
  end.

Definition v_param (p : option (N * N)) : value :=
  VOpt (option_map (fun q => VTup [VInt (fst q); VInt (snd q)]) p).

Definition param_ok (p : option (N * N)) (lo hi : N) : Prop :=
  match p with
  | Some (b, s) => lo <= b <= hi /\ 2 <= N.shiftr s b /\ s < 2 ^ 64
  | None => True
  end.

Lemma geq_cache_geometry p d lo hi :
  param_ok p lo hi -> d < 2 ^ 64 -> lo <= 12 -> hi <= 21 ->
  call g_Qcow2Info_new__cache_geometry [v_param p; VInt d; VInt lo; VInt hi] =
  Ret (VTup [VInt (fst (cache_geom p d lo hi)); VInt (snd (cache_geom p d lo hi))]).
Proof.
  intros Hp Hd Hlo Hhi. unfold g_Qcow2Info_new__cache_geometry, cache_geom, v_param.
  destruct p as [[b s]|]; cbn [option_map fst snd param_ok] in *.
  - destruct Hp as [Hb [Hc Hs]]. geq.
    destruct (N.leb_spec lo b); [|lia]. cbn [bind as_bool]. destruct (N.leb_spec b hi); [|lia].
    destruct (N.leb_spec 2 (N.shiftr s b)); [reflexivity|lia].
  - geq.
Qed.

Definition v_hdrview (cb ro size : N) (hb : bool) : value := VTup [VInt cb; VInt ro; VInt size; VBool hb].
Definition v_params (bs : N) (rbc l2c : option (N * N)) (rdonly backing : bool) : value :=
  VTup [VInt bs; v_param rbc; v_param l2c; VBool rdonly; VBool backing].

Definition info_new2 (cb ro size : N) (hb : bool) (bs : N) (rbc l2c : option (N * N)) (rdonly backing : bool) : info :=
  let l2mb := N.min (N.shiftr size (cb - 3)) 33554432 in
  let g1 := cache_geom l2c l2mb bs cb in
  let g2 := cache_geom rbc 262144 bs cb in
  info_of cb ro size bs (fst g1) (snd g1) (fst g2) (snd g2) (info_flags rdonly hb backing).

Lemma tz_pow2 w k : trailing_zeros w (2 ^ k) = k.
Proof.
  unfold trailing_zeros. destruct (2 ^ k) as [|p] eqn:E; [pose proof (N.pow_nonzero 2 k ltac:(lia)); contradiction|].
  revert p E. induction k as [|k IH] using N.peano_ind; intros p E.
  - cbn in E. injection E as <-. reflexivity.
  - rewrite N.pow_succ_r' in E. destruct (2 ^ k) as [|q] eqn:Q; [discriminate|].
    cbn in E. injection E as <-. cbn [tz_pos]. rewrite (IH q eq_refl). lia.
Qed.

Lemma cache_geom_fst p d lo hi : param_ok p lo hi -> lo <= hi -> lo <= fst (cache_geom p d lo hi) <= hi.
Proof.
  intros Hp Hle. unfold cache_geom. destruct p as [[b s]|]; cbn [fst param_ok] in *; [lia|]. lia.
Qed.

Ltac hd := match goal with |- ?t = _ => let c := head_cond t in lazymatch c with
   | ?a <? ?b => destruct (N.ltb_spec a b); [|exfalso; lia]
   | ?a <=? ?b => destruct (N.leb_spec a b); [|exfalso; lia]
   | ?a =? ?b => destruct (N.eqb_spec a b); [exfalso; try contradiction; lia|] end; rx end.

Lemma geq_info_new cb ro size hb bs rbc l2c rdonly backing :
  9 <= cb <= 21 -> ro <= 6 -> size < 2 ^ 64 -> 9 <= bs <= 12 -> bs <= cb ->
  param_ok rbc bs cb -> param_ok l2c bs cb ->
  snd (cache_geom rbc 262144 bs cb) < 2 ^ 32 -> snd (cache_geom l2c (N.min (N.shiftr size (cb - 3)) 33554432) bs cb) < 2 ^ 32 ->
  (backing = true -> rdonly = true) ->
  call g_Qcow2Info_new [v_hdrview cb ro size hb; v_params bs rbc l2c rdonly backing] =
  Ret (VRes (inl (v_info (info_new2 cb ro size hb bs rbc l2c rdonly backing)))).
Proof.
  intros Hcb Hro Hs Hbs Hbc Hp1 Hp2 Hc1 Hc2 Hback.
  unfold g_Qcow2Info_new, v_hdrview, v_params, info_new2.
  assert (Hcs : 2 ^ cb < 2 ^ 64) by (apply N.pow_lt_mono_r; lia).
  destruct backing; [rewrite (Hback eq_refl)|]; rx.
  all: repeat hd.
  all: assert (Hmb : N.min (N.shiftr size (cb - 3)) 33554432 < 2 ^ 64) by (eapply N.le_lt_trans; [apply N.le_min_r|reflexivity]).
  all: rewrite (geq_cache_geometry l2c _ bs cb Hp2 Hmb ltac:(lia) ltac:(lia)).
  all: rewrite (geq_cache_geometry rbc 262144 bs cb Hp1 ltac:(reflexivity) ltac:(lia) ltac:(lia)).
  all: set (g1 := cache_geom l2c (N.min (N.shiftr size (cb - 3)) 33554432) bs cb) in *.
  all: set (g2 := cache_geom rbc 262144 bs cb) in *.
  all: pose proof (cache_geom_fst l2c (N.min (N.shiftr size (cb - 3)) 33554432) bs cb Hp2 Hbc) as F1; fold g1 in F1.
  all: pose proof (cache_geom_fst rbc 262144 bs cb Hp1 Hbc) as F2; fold g2 in F2.
  all: rewrite !N.shiftl_1_l; lit_pows.
  all: assert (Pcb : 2 ^ cb mod 18446744073709551616 = 2 ^ cb) by (apply N.mod_small; lit_pows; exact Hcs).
  all: assert (Pro : 2 ^ ro mod 18446744073709551616 = 2 ^ ro) by (apply N.mod_small; apply (N.lt_le_trans _ (2 ^ 7)); [apply N.pow_lt_mono_r; lia|discriminate]).
  all: rewrite ?Pcb, ?Pro.
  all: assert (P8 : 2 ^ cb * 8 < 18446744073709551616) by (assert (2 ^ cb <= 2 ^ 21) by (apply N.pow_le_mono_r; lia); change (2 ^ 21) with 2097152 in *; lia).
  all: assert (Pnz : 2 ^ ro <> 0) by (apply N.pow_nonzero; lia).
  all: assert (E1 : 2 ^ cb / 8 = 2 ^ (cb - 3)) by (change 8 with (2 ^ 3); rewrite <- N.pow_sub_r by (try discriminate; lia); reflexivity).
  all: assert (E2 : 2 ^ (cb - 3) mod 4294967296 = 2 ^ (cb - 3)) by (apply N.mod_small; apply (N.lt_le_trans _ (2 ^ 19)); [apply N.pow_lt_mono_r; lia|discriminate]).
  all: assert (E3 : N.shiftr (2 ^ (cb - 3)) (cb - fst g1) = 2 ^ (fst g1 - 3))
         by (rewrite N.shiftr_div_pow2, <- N.pow_sub_r by (try discriminate; lia); f_equal; lia).
  all: assert (E4 : 2 ^ cb * 8 / 2 ^ ro = 2 ^ (cb + 3 - ro))
         by (change 8 with (2 ^ 3); rewrite <- N.pow_add_r, <- N.pow_sub_r by (try discriminate; lia); reflexivity).
  all: assert (E5 : N.shiftl 1 (fst g2 + 3) mod 4294967296 = 2 ^ (fst g2 + 3))
         by (rewrite N.shiftl_1_l; apply N.mod_small; apply (N.lt_le_trans _ (2 ^ 25)); [apply N.pow_lt_mono_r; lia|discriminate]).
  all: assert (E6 : N.shiftr (2 ^ (fst g2 + 3)) ro = 2 ^ (fst g2 + 3 - ro))
         by (rewrite N.shiftr_div_pow2, <- N.pow_sub_r by (try discriminate; lia); reflexivity).
  all: unfold info_of; cbn [v_info block_size_shift cluster_shift l2_index_shift l2_slice_index_shift l2_slice_bits
         refcount_order rb_slice_bits rb_index_shift rb_slice_index_shift flags l2_slice_entries in_cluster_offset_mask
         l2_index_mask rb_index_mask l2_cache_cnt rb_cache_cnt virtual_size].
  all: rewrite ?N.shiftl_1_l.
  all: rx.
  all: rewrite ?E1, ?E2, ?E3, ?E4.
  all: repeat (hd; rewrite ?E1, ?E2, ?E3, ?E4, ?E5, ?E6, ?tz_pow2).
  all: lit_pows.
  all: repeat match goal with |- context [if ?a <? ?b then _ else _] => destruct (N.ltb_spec a b); [|exfalso; lia] end.
  all: assert (Q1 : 1 <= 2 ^ cb) by apply pow2_ge1.
  all: assert (Q2 : 1 <= 2 ^ (cb - 3)) by apply pow2_ge1.
  all: assert (Q3 : 1 <= 2 ^ (cb + 3 - ro)) by apply pow2_ge1.
  all: repeat match goal with |- context [if ?a <=? ?b then _ else _] => destruct (N.leb_spec a b); [|exfalso; lia] end.
  all: destruct hb, rdonly; rx; try reflexivity.
Qed.


(* the geometry Qcow2Info::new (regenerated from the source) computes is in the range all the codec / argument
   theorems assume *)
Theorem info_new_in_range cb ro size hb bs rbc l2c rdonly backing :
  9 <= cb <= 21 -> ro <= 6 -> size < 2 ^ 64 -> 9 <= bs <= 12 -> bs <= cb ->
  param_ok rbc bs cb -> param_ok l2c bs cb ->
  snd (cache_geom rbc 262144 bs cb) < 2 ^ 32 -> snd (cache_geom l2c (N.min (N.shiftr size (cb - 3)) 33554432) bs cb) < 2 ^ 32 ->
  (backing = true -> rdonly = true) ->
  exists i, call g_Qcow2Info_new [v_hdrview cb ro size hb; v_params bs rbc l2c rdonly backing] = Ret (VRes (inl (v_info i)))
            /\ info_rng i /\ virtual_size i = size.
Proof.
  intros Hcb Hro Hs Hbs Hbc Hp1 Hp2 Hc1 Hc2 Hback.
  exists (info_new2 cb ro size hb bs rbc l2c rdonly backing). split; [apply geq_info_new; assumption|].
  pose proof (cache_geom_fst l2c (N.min (N.shiftr size (cb - 3)) 33554432) bs cb Hp2 Hbc) as F1.
  pose proof (cache_geom_fst rbc 262144 bs cb Hp1 Hbc) as F2.
  split; [|reflexivity]. unfold info_new2. apply info_of_rng. constructor; try assumption; lia.
Qed.

(* ---------- top-table offset -> first slice key (flush_meta_generic picks the slices to flush with these) ---------- *)
Definition rb_key_of_rt_off (i : info) (off : N) : N :=
  hc_rb_slice_key i (shl64 (shl64 (N.shiftr off 3) (rb_index_shift i)) (cluster_shift i)).
Definition l2_key_of_l1_off (i : info) (off : N) : N :=
  sg_l2_slice_key i (shl64 (shl64 (N.shiftr off 3) (l2_index_shift i)) (cluster_shift i)).

Lemma geq_rb_slice_key_of_rt_off i off : info_rng i -> off < 2 ^ 64 ->
  call g_rb_slice_key_of_rt_off [dev_of i; VInt off] = Ret (VInt (rb_key_of_rt_off i off)).
Proof.
  intros R0 Ho. pose proof R0 as R1. dR R0. unfold g_rb_slice_key_of_rt_off, rb_key_of_rt_off, dev_of.
  geq.
Qed.

Lemma geq_l2_slice_key_of_l1_off i off : info_rng i -> off < 2 ^ 64 ->
  call g_l2_slice_key_of_l1_off [dev_of i; VInt off] = Ret (VInt (l2_key_of_l1_off i off)).
Proof.
  intros R0 Ho. pose proof R0 as R1. dR R0. unfold g_l2_slice_key_of_l1_off, l2_key_of_l1_off, dev_of.
  geq.
Qed.

(* meaning: the slices of refcount block number idx are exactly the keys in [key(8 idx), key(8 (idx+1))) *)
Lemma div_window a b d idx : 0 < b -> 0 < d ->
  a / (b * d) = idx -> idx * d <= a / b < (idx + 1) * d.
Proof.
  intros Hb Hd E. assert (Pbd : 0 < b * d) by nia.
  pose proof (N.div_mod' a (b * d)) as D1. pose proof (N.mod_lt a (b * d) ltac:(lia)) as M1. rewrite E in D1.
  split.
  - apply N.div_le_lower_bound; [lia|]. nia.
  - apply N.div_lt_upper_bound; [lia|]. nia.
Qed.

Theorem rb_key_window i idx h :
  info_rng i -> idx * 2 ^ (rb_index_shift i + cluster_shift i) < 2 ^ 64 -> (idx + 1) * 2 ^ (rb_index_shift i + cluster_shift i) < 2 ^ 64 ->
  hc_rt_index i h = idx ->
  rb_key_of_rt_off i (8 * idx) <= hc_rb_slice_key i h < rb_key_of_rt_off i (8 * (idx + 1)).
Proof.
  intros R0 B1 B2 E. dR R0.
  set (d := rb_index_shift i - rb_slice_index_shift i).
  assert (Hd : rb_index_shift i = rb_slice_index_shift i + d) by (unfold d; lia).
  assert (K : forall j, j * 2 ^ (rb_index_shift i + cluster_shift i) < 2 ^ 64 -> rb_key_of_rt_off i (8 * j) = j * 2 ^ d).
  { intros j Bj. unfold rb_key_of_rt_off, hc_rb_slice_key, shl64.
    replace (N.shiftr (8 * j) 3) with j by (rewrite N.shiftr_div_pow2; change (2 ^ 3) with 8; rewrite N.mul_comm, N.div_mul by discriminate; reflexivity).
    rewrite !N.shiftl_mul_pow2.
    assert (B0 : j * 2 ^ rb_index_shift i < 2 ^ 64).
    { eapply N.le_lt_trans; [|exact Bj]. rewrite N.pow_add_r. pose proof (pow2_ge1 (cluster_shift i)). nia. }
    rewrite (N.mod_small _ _ B0). rewrite <- N.mul_assoc, <- N.pow_add_r. rewrite (N.mod_small _ _ Bj).
    rewrite N.shiftr_div_pow2. rewrite Hd.
    replace (rb_slice_index_shift i + d + cluster_shift i) with (d + (cluster_shift i + rb_slice_index_shift i)) by lia.
    rewrite N.pow_add_r, N.mul_assoc. apply N.div_mul. apply N.pow_nonzero. lia. }
  rewrite (K idx B1), (K (idx + 1) B2).
  unfold hc_rb_slice_key, hc_rt_index in *. rewrite N.shiftr_div_pow2 in *.
  apply div_window; try (apply N.neq_0_lt_0, N.pow_nonzero; lia).
  rewrite <- N.pow_add_r. replace (cluster_shift i + rb_slice_index_shift i + d) with (rb_index_shift i + cluster_shift i) by lia.
  exact E.
Qed.

Theorem l2_key_window i idx g :
  info_rng i -> idx * 2 ^ (l2_index_shift i + cluster_shift i) < 2 ^ 64 -> (idx + 1) * 2 ^ (l2_index_shift i + cluster_shift i) < 2 ^ 64 ->
  sg_l1_index i g = idx ->
  l2_key_of_l1_off i (8 * idx) <= sg_l2_slice_key i g < l2_key_of_l1_off i (8 * (idx + 1)).
Proof.
  intros R0 B1 B2 E. dR R0.
  set (d := l2_index_shift i - l2_slice_index_shift i).
  assert (Hd : l2_index_shift i = l2_slice_index_shift i + d) by (unfold d; lia).
  assert (K : forall j, j * 2 ^ (l2_index_shift i + cluster_shift i) < 2 ^ 64 -> l2_key_of_l1_off i (8 * j) = j * 2 ^ d).
  { intros j Bj. unfold l2_key_of_l1_off, sg_l2_slice_key, shl64.
    replace (N.shiftr (8 * j) 3) with j by (rewrite N.shiftr_div_pow2; change (2 ^ 3) with 8; rewrite N.mul_comm, N.div_mul by discriminate; reflexivity).
    rewrite !N.shiftl_mul_pow2.
    assert (B0 : j * 2 ^ l2_index_shift i < 2 ^ 64).
    { eapply N.le_lt_trans; [|exact Bj]. rewrite N.pow_add_r. pose proof (pow2_ge1 (cluster_shift i)). nia. }
    rewrite (N.mod_small _ _ B0). rewrite <- N.mul_assoc, <- N.pow_add_r. rewrite (N.mod_small _ _ Bj).
    rewrite N.shiftr_div_pow2. rewrite Hd.
    replace (l2_slice_index_shift i + d + cluster_shift i) with (d + (cluster_shift i + l2_slice_index_shift i)) by lia.
    rewrite N.pow_add_r, N.mul_assoc. apply N.div_mul. apply N.pow_nonzero. lia. }
  rewrite (K idx B1), (K (idx + 1) B2).
  unfold sg_l2_slice_key, sg_l1_index in *. rewrite N.shiftr_div_pow2 in *.
  apply div_window; try (apply N.neq_0_lt_0, N.pow_nonzero; lia).
  rewrite <- N.pow_add_r. replace (cluster_shift i + l2_slice_index_shift i + d) with (cluster_shift i + l2_index_shift i) by lia.
  exact E.
Qed.

Lemma geq_max_refcount_table_size size cb ro bs :
  9 <= cb <= 21 -> ro <= 6 -> size < 2 ^ 64 -> 1 <= bs -> N.land bs (bs - 1) = 0 ->
  call g_Qcow2Info_max_refcount_table_size [VInt size; VInt (2 ^ cb); VInt ro; VInt bs] =
  match max_refcount_table_size size (2 ^ cb) ro bs with Some v => Ret (VInt v) | None => Panic end.
Proof.
  intros Hcb Hro Hs Hb Hp. unfold g_Qcow2Info_max_refcount_table_size, max_refcount_table_size.
  assert (Pcb : 2 ^ cb <= 2 ^ 21) by (apply N.pow_le_mono_r; lia).
  assert (Pc1 : 2 ^ 9 <= 2 ^ cb) by (apply N.pow_le_mono_r; lia).
  assert (Pro : 1 <= 2 ^ ro <= 2 ^ 6) by (split; [apply pow2_ge1|apply N.pow_le_mono_r; lia]).
  change (2 ^ 21) with 2097152 in *. change (2 ^ 9) with 512 in *. change (2 ^ 6) with 64 in *.
  assert (Sro : N.shiftl 1 ro mod 18446744073709551616 = 2 ^ ro) by (rewrite N.shiftl_1_l; apply N.mod_small; lia).
  set (rbe := 2 ^ cb * 8 / 2 ^ ro).
  assert (Rb : 64 <= rbe <= 16777216).
  { unfold rbe. split; [apply N.div_le_lower_bound; lia|apply N.div_le_upper_bound; lia]. }
  assert (Per : 32768 <= rbe * 2 ^ cb < 18446744073709551616) by nia.
  set (per := rbe * 2 ^ cb) in *.
  assert (En : (size + per - 1) / per * 8 < 18446744073709551616).
  { assert ((size + per - 1) / per <= (size + per - 1) / 32768) by (apply N.div_le_compat_l; lia).
    assert ((size + per - 1) / 32768 < 1125899906842624) by (apply N.div_lt_upper_bound; lit_pows; lia). lia. }
  rx. repeat hd. rewrite Sro. rx. repeat hd. fold rbe. rx. repeat hd. fold per. rx. repeat hd. rx.
  destruct (N.ltb_spec ((size + per - 1) / per * 8) 18446744073709551616); [|lia]. rx.
  rewrite (geq_align_up ((size + per - 1) / per * 8) bs Hb Hp). unfold v_optN.
  destruct (align_up ((size + per - 1) / per * 8) bs); reflexivity.
Qed.
