(* C15, address arithmetic: the guest-offset and host-cluster index functions of the model
   partition the address space consistently with the specification's formulas. *)
From Coq Require Import NArith ZArith List Bool Lia.
From Q.Base Require Import Bits.
From Q.Spec Require Import Entries.
From Q.Model Require Import Codec.
From Q.Proofs Require Import Geometry.
Open Scope N_scope.

Arguments N.add : simpl never.
Arguments N.sub : simpl never.
Arguments N.mul : simpl never.
Arguments N.div : simpl never.
Arguments N.modulo : simpl never.
Arguments N.pow : simpl never.

Section Addr.
  Variable i : info.
  Hypothesis R : info_rng i.
  Local Notation cb := (cluster_shift i).

  Lemma div_div_pow2 v a b : v / 2 ^ a / 2 ^ b = v / 2 ^ (a + b).
  Proof. rewrite N.div_div by apply pow2_nz. now rewrite N.pow_add_r. Qed.

  Lemma l2_entries_pow : s_l2_entries cb = 2 ^ (cb - 3).
  Proof.
    pose proof R as R0; dR R0. unfold s_l2_entries. change 8 with (2 ^ 3).
    rewrite <- N.pow_sub_r by (try discriminate; lia). reflexivity.
  Qed.

  Theorem l1_index_spec g : sg_l1_index i g = s_l1_index cb g.
  Proof.
    pose proof R as R0; dR R0. unfold sg_l1_index, s_l1_index. rewrite l2_entries_pow, shiftr_div, r_l2is0. now rewrite div_div_pow2.
  Qed.

  Theorem l2_index_spec g : sg_l2_index i g = s_l2_index cb g.
  Proof.
    pose proof R as R0; dR R0. unfold sg_l2_index, s_l2_index. rewrite l2_entries_pow, shiftr_div, r_l2mask0, land_pow2m1.
    reflexivity.
  Qed.

  (* index composition reproduces the cluster number *)
  Theorem l1_l2_compose g :
    sg_l1_index i g * s_l2_entries cb + sg_l2_index i g = g / 2 ^ cb.
  Proof.
    rewrite l1_index_spec, l2_index_spec. unfold s_l1_index, s_l2_index.
    rewrite N.mul_comm. symmetry. apply N.div_mod.
    rewrite l2_entries_pow. apply pow2_nz.
  Qed.

  Theorem slice_compose g :
    sg_l2_slice_key i g * l2_slice_entries i + sg_l2_slice_index i g = g / 2 ^ cb.
  Proof.
    pose proof R as R0; dR R0. unfold sg_l2_slice_key, sg_l2_slice_index.
    rewrite !shiftr_div, r_l2se0, r_l2sis0, land_pow2m1.
    rewrite <- div_div_pow2. rewrite N.mul_comm. symmetry. apply N.div_mod, pow2_nz.
  Qed.

  Theorem in_cluster_spec g : sg_in_cluster_offset i g = g mod 2 ^ cb.
  Proof. pose proof R as R0; dR R0. unfold sg_in_cluster_offset. rewrite r_mask0, land_pow2m1. reflexivity. Qed.

  Theorem cluster_offset_spec g : g < 2 ^ 64 -> sg_cluster_offset i g = g / 2 ^ cb * 2 ^ cb.
  Proof.
    intros Hg. pose proof R as R0; dR R0.
    unfold sg_cluster_offset, shl64.
    assert (H1 : sg_l1_index i g < 2 ^ (64 - (cb + (cb - 3)))).
    { unfold sg_l1_index. rewrite r_l2is0. apply shiftr_lt.
      replace (64 - (cb + (cb - 3)) + (cb + (cb - 3))) with 64 by lia. assumption. }
    assert (H2 : sg_l2_index i g < 2 ^ (cb - 3)).
    { unfold sg_l2_index. rewrite r_l2mask0. apply land_mask_lt. }
    rewrite !shiftl_mul.
    rewrite (N.mod_small (sg_l1_index i g * 2 ^ (cb - 3))).
    2:{ eapply N.lt_le_trans; [apply N.mul_lt_mono_pos_r; [apply pow2_pos|eassumption]|].
        rewrite <- N.pow_add_r. apply pow2_le_mono. lia. }
    rewrite <- l2_entries_pow, l1_l2_compose.
    apply N.mod_small.
    eapply N.le_lt_trans; [apply div_mul_le, pow2_nz|assumption].
  Qed.

  Theorem cluster_plus_in_cluster g : g < 2 ^ 64 ->
    sg_cluster_offset i g + sg_in_cluster_offset i g = g.
  Proof.
    intros. rewrite cluster_offset_spec, in_cluster_spec by assumption.
    symmetry. apply pow2_div_mod_decomp.
  Qed.

  Theorem slice_off_in_table_spec g :
    sg_l2_slice_off_in_table i g = sg_l2_index i g / l2_slice_entries i * 2 ^ l2_slice_bits i.
  Proof.
    pose proof R as R0; dR R0. unfold sg_l2_slice_off_in_table, shl64.
    rewrite shiftl_mul, shiftr_div, r_l2sis0, r_l2se0. apply N.mod_small.
    assert (H2 : sg_l2_index i g < 2 ^ (cb - 3)).
    { unfold sg_l2_index. rewrite r_l2mask0. apply land_mask_lt. }
    eapply N.le_lt_trans with (m := 2 ^ cb).
    - assert (sg_l2_index i g / 2 ^ (l2_slice_bits i - 3) < 2 ^ (cb - l2_slice_bits i)).
      { apply div_pow2_lt. replace (l2_slice_bits i - 3 + (cb - l2_slice_bits i)) with (cb - 3) by lia.
        assumption. }
      replace (2 ^ cb) with (2 ^ (cb - l2_slice_bits i) * 2 ^ l2_slice_bits i).
      + apply N.lt_le_incl. apply N.mul_lt_mono_pos_r; [apply pow2_pos|assumption].
      + rewrite <- N.pow_add_r. f_equal. lia.
    - apply pow2_lt_mono. lia.
  Qed.

  (* host clusters *)
  Theorem rt_rb_compose h :
    hc_rt_index i h * 2 ^ rb_index_shift i + hc_rb_index i h = h / 2 ^ cb.
  Proof.
    pose proof R as R0; dR R0. unfold hc_rt_index, hc_rb_index. rewrite !shiftr_div, r_rbmask0, <- r_rbis0, land_pow2m1. rewrite (N.add_comm (rb_index_shift i)), <- div_div_pow2.
    rewrite N.mul_comm. symmetry. apply N.div_mod, pow2_nz.
  Qed.

  Theorem rb_entries_spec : rb_entries i = s_rb_entries cb (refcount_order i).
  Proof.
    pose proof R as R0; dR R0. unfold rb_entries, s_rb_entries, cluster_size, shl64.
    rewrite shiftl_1, (pow2_mod_small cb 64) by lia.
    rewrite shiftl_mul, shiftr_div. change (2 ^ 3) with 8.
    rewrite N.mod_small; [reflexivity|].
    change 8 with (2 ^ 3). rewrite <- N.pow_add_r. apply pow2_lt_mono. lia.
  Qed.

  Theorem rb_entries_pow : rb_entries i = 2 ^ rb_index_shift i.
  Proof.
    rewrite rb_entries_spec. pose proof R as R0; dR R0. unfold s_rb_entries. change 8 with (2 ^ 3).
    rewrite <- N.pow_add_r, <- N.pow_sub_r by (try discriminate; lia).
    rewrite r_rbis0. reflexivity.
  Qed.

  Theorem rt_index_spec h : hc_rt_index i h = s_rt_index cb (refcount_order i) h.
  Proof.
    unfold s_rt_index. rewrite <- rb_entries_spec, rb_entries_pow.
    unfold hc_rt_index. rewrite shiftr_div, N.add_comm. now rewrite div_div_pow2.
  Qed.

  Theorem rb_index_spec h : hc_rb_index i h = s_rb_index cb (refcount_order i) h.
  Proof.
    unfold s_rb_index. rewrite <- rb_entries_spec, rb_entries_pow.
    pose proof R as R0; dR R0. unfold hc_rb_index. rewrite shiftr_div, r_rbmask0, <- r_rbis0, land_pow2m1. reflexivity.
  Qed.

  Theorem rbse_pow : rb_slice_entries i = 2 ^ rb_slice_index_shift i.
  Proof.
    pose proof R as R0; dR R0. unfold rb_slice_entries, shl32.
    rewrite shiftl_1, pow2_mod_small by lia. rewrite shiftr_div, <- N.pow_sub_r by (try discriminate; lia).
    now rewrite r_rbsis0.
  Qed.

  Theorem rb_slice_compose h :
    hc_rb_slice_key i h * rb_slice_entries i + hc_rb_slice_index i h = h / 2 ^ cb.
  Proof.
    rewrite rbse_pow. unfold hc_rb_slice_key, hc_rb_slice_index.
    rewrite rbse_pow, !shiftr_div, land_pow2m1.
    rewrite <- div_div_pow2. rewrite N.mul_comm. symmetry. apply N.div_mod, pow2_nz.
  Qed.

  Theorem rb_slice_host_start_spec h : h < 2 ^ 64 ->
    hc_rb_slice_host_start i h = hc_rb_slice_key i h * (rb_slice_entries i * 2 ^ cb).
  Proof.
    intros Hh. pose proof R as R0; dR R0. unfold hc_rb_slice_host_start, hc_rb_slice_key, shl64.
    rewrite shiftl_1, pow2_mod_small by lia.
    rewrite land_not_low by (try assumption; lia).
    rewrite shiftr_div, rbse_pow. rewrite <- N.pow_add_r.
    f_equal. f_equal. lia.
  Qed.
End Addr.
