(* A log accepted by the discipline check has only safe crash states: for every prefix of the log and every subset
   of the writes pending at that point.  (Model/Crash.v) *)
From Coq Require Import NArith List Bool Lia Arith PeanoNat.
From Q.Model Require Import Crash.
Import ListNotations.
Open Scope N_scope.

Lemma sumN_le {A} (f g : A -> N) l : (forall x, In x l -> f x <= g x) -> sumN f l <= sumN g l.
Proof.
  induction l as [|x t IH]; intros H; cbn [sumN]; [lia|].
  pose proof (H x (or_introl eq_refl)). assert (sumN f t <= sumN g t) by (apply IH; intros y Hy; apply H; right; exact Hy). lia.
Qed.

Lemma sumN_ext {A} (f g : A -> N) l : (forall x, In x l -> f x = g x) -> sumN f l = sumN g l.
Proof.
  induction l as [|x t IH]; intros H; cbn [sumN]; [reflexivity|].
  rewrite (H x (or_introl eq_refl)), IH; [reflexivity|]. intros y Hy; apply H; right; exact Hy.
Qed.

Lemma occ_notin h t : ~ In h t -> occ h t = 0.
Proof.
  induction t as [|x t IH]; intros H; cbn [occ]; [reflexivity|].
  destruct (N.eqb_spec x h) as [->|Hne]; [exfalso; apply H; left; reflexivity|].
  rewrite IH; [reflexivity|]. intros Hin; apply H; right; exact Hin.
Qed.

(* ---- folds *)
Definition fmin (h : N) := fun (m : N) (e : ev) => match e with SetRc h' v => if N.eqb h' h then N.min m v else m | _ => m end.
Definition fmax (i h : N) := fun (m : N) (e : ev) => match e with SetSlot i' t => if N.eqb i' i then N.max m (occ h t) else m | _ => m end.

Lemma fold_fmin_mono h P : forall a b, a <= b -> fold_left (fmin h) P a <= fold_left (fmin h) P b.
Proof.
  induction P as [|e P IH]; intros a b Hab; cbn [fold_left]; [exact Hab|].
  apply IH. destruct e as [h' v|i t|]; cbn [fmin]; try exact Hab. destruct (N.eqb h' h); lia.
Qed.

Lemma fold_fmin_le h P : forall a, fold_left (fmin h) P a <= a.
Proof.
  induction P as [|e P IH]; intros a; cbn [fold_left]; [lia|].
  etransitivity; [apply IH|]. destruct e as [h' v|i t|]; cbn [fmin]; try lia. destruct (N.eqb h' h); lia.
Qed.

Lemma fold_fmax_mono i h P : forall a b, a <= b -> fold_left (fmax i h) P a <= fold_left (fmax i h) P b.
Proof.
  induction P as [|e P IH]; intros a b Hab; cbn [fold_left]; [exact Hab|].
  apply IH. destruct e as [h' v|i' t|]; cbn [fmax]; try exact Hab. destruct (N.eqb i' i); lia.
Qed.

Lemma fold_fmax_ge i h P : forall a, a <= fold_left (fmax i h) P a.
Proof.
  induction P as [|e P IH]; intros a; cbn [fold_left]; [lia|].
  etransitivity; [|apply IH]. destruct e as [h' v|i' t|]; cbn [fmax]; try lia. destruct (N.eqb i' i); lia.
Qed.

Lemma get_rc_apply1 s e h : get_rc (apply1 s e) h = match e with SetRc h' v => if N.eqb h h' then v else get_rc s h | _ => get_rc s h end.
Proof. destruct e as [h' v|i t|]; unfold get_rc; cbn [apply1 rcl alookup]; reflexivity. Qed.

Lemma get_sl_apply1 s e i : get_sl (apply1 s e) i = match e with SetSlot i' t => if N.eqb i i' then t else get_sl s i | _ => get_sl s i end.
Proof. destruct e as [h' v|i' t|]; unfold get_sl; cbn [apply1 sll alookup]; reflexivity. Qed.

(* every crash state keeps each refcount above the bound, each slot's references below the bound *)
Lemma masked_rc_ge h P : forall s m, fold_left (fmin h) P (get_rc s h) <= get_rc (apply_masked s P m) h.
Proof.
  induction P as [|e P IH]; intros s m; cbn [fold_left]; [destruct m; cbn [apply_masked]; lia|].
  destruct m as [|b m]; cbn [apply_masked].
  - etransitivity; [apply fold_fmin_le|]. destruct e as [h' v|i t|]; cbn [fmin]; try lia. destruct (N.eqb h' h); lia.
  - destruct b.
    + etransitivity; [|apply IH]. apply fold_fmin_mono. rewrite get_rc_apply1.
      destruct e as [h' v|i t|]; cbn [fmin]; try lia.
      rewrite (N.eqb_sym h h'). destruct (N.eqb h' h); lia.
    + etransitivity; [|apply IH]. apply fold_fmin_mono.
      destruct e as [h' v|i t|]; cbn [fmin]; try lia. destruct (N.eqb h' h); lia.
Qed.

Lemma masked_occ_le i h P : forall s m, occ h (get_sl (apply_masked s P m) i) <= fold_left (fmax i h) P (occ h (get_sl s i)).
Proof.
  induction P as [|e P IH]; intros s m; cbn [fold_left]; [destruct m; cbn [apply_masked]; lia|].
  destruct m as [|b m]; cbn [apply_masked].
  - etransitivity; [|apply fold_fmax_ge]. destruct e as [h' v|i' t|]; cbn [fmax]; try lia. destruct (N.eqb i' i); lia.
  - destruct b.
    + etransitivity; [apply IH|]. apply fold_fmax_mono. rewrite get_sl_apply1.
      destruct e as [h' v|i' t|]; cbn [fmax]; try lia.
      rewrite (N.eqb_sym i i'). destruct (N.eqb i' i); lia.
    + etransitivity; [apply IH|]. apply fold_fmax_mono.
      destruct e as [h' v|i' t|]; cbn [fmax]; try lia. destruct (N.eqb i' i); lia.
Qed.

Section Dom.
  Variable dom : list N.

  Definition Inv (s : fs) (P : list ev) : Prop := forall h, refs_max dom s P h <= rc_min s P h.

  Theorem inv_crash_safe s P : Inv s P -> forall m, safe dom (apply_masked s P m).
  Proof.
    intros I m h. unfold crefs.
    etransitivity; [apply (sumN_le _ (fun i => maxocc s P i h)); intros i _; apply masked_occ_le|].
    etransitivity; [apply (I h)|]. apply masked_rc_ge.
  Qed.

  Lemma apply_all_masked P : forall s, apply_all s P = apply_masked s P (repeat true (length P)).
  Proof.
    induction P as [|e P IH]; intros s; cbn [apply_all fold_left length repeat apply_masked]; [reflexivity|].
    apply IH.
  Qed.

  (* a completed sync: the bounds only get tighter *)
  Lemma inv_sync s P : Inv s P -> Inv (apply_all s P) [].
  Proof.
    intros I h. unfold refs_max, rc_min, maxocc. cbn [fold_left]. rewrite apply_all_masked.
    etransitivity; [apply (sumN_le _ (fun i => maxocc s P i h)); intros i _; apply masked_occ_le|].
    etransitivity; [apply (I h)|]. apply masked_rc_ge.
  Qed.

  Lemma rc_min_app s P e h : rc_min s (P ++ [e]) h = fmin h (rc_min s P h) e.
  Proof. unfold rc_min. rewrite fold_left_app. reflexivity. Qed.

  Lemma maxocc_app s P e i h : maxocc s (P ++ [e]) i h = fmax i h (maxocc s P i h) e.
  Proof. unfold maxocc. rewrite fold_left_app. reflexivity. Qed.

  Lemma inv_step s P e : e <> Sync -> Inv s P -> step_ok dom s P e = true -> Inv s (P ++ [e]).
  Proof.
    intros Hne I Hs h. destruct e as [h0 v|i0 t|]; [| |congruence]; cbn [step_ok] in Hs.
    - destruct (N.eqb_spec h0 h) as [->|Hd].
      + unfold chk in Hs. apply N.leb_le in Hs. exact Hs.
      + rewrite rc_min_app. cbn [fmin]. destruct (N.eqb_spec h0 h) as [E|_]; [congruence|].
        unfold refs_max. etransitivity; [|apply (I h)]. unfold refs_max.
        apply N.eq_le_incl. apply sumN_ext. intros i _. rewrite maxocc_app. reflexivity.
    - destruct (in_dec N.eq_dec h t) as [Hin|Hnin].
      + rewrite forallb_forall in Hs. specialize (Hs h Hin). unfold chk in Hs. apply N.leb_le in Hs. exact Hs.
      + rewrite rc_min_app. cbn [fmin].
        unfold refs_max. etransitivity; [|apply (I h)]. unfold refs_max.
        apply N.eq_le_incl. apply sumN_ext. intros i _. rewrite maxocc_app. cbn [fmax].
        rewrite (occ_notin h t Hnin). destruct (N.eqb i0 i); lia.
  Qed.

  Lemma refs_notin s h : ~ In h (targets dom s) -> crefs dom s h = 0.
  Proof.
    unfold targets, crefs. induction dom as [|i d IH]; intros H; cbn [sumN flat_map]; [reflexivity|].
    cbn [flat_map] in H. rewrite occ_notin; [|intros Hin; apply H; apply in_or_app; left; exact Hin].
    rewrite IH; [reflexivity|]. intros Hin; apply H; apply in_or_app; right; exact Hin.
  Qed.

  Lemma init_inv s : init_ok dom s = true -> Inv s [].
  Proof.
    intros H h. unfold refs_max, rc_min, maxocc. cbn [fold_left]. fold (crefs dom s h).
    destruct (in_dec N.eq_dec h (targets dom s)) as [Hin|Hnin].
    - unfold init_ok in H. rewrite forallb_forall in H. specialize (H h Hin). apply N.leb_le in H. exact H.
    - rewrite refs_notin by exact Hnin. lia.
  Qed.

  Lemma disc_sound evs : forall s P, Inv s P -> disc dom s P evs = true ->
    forall k, Inv (fst (crun s P (firstn k evs))) (snd (crun s P (firstn k evs))).
  Proof.
    induction evs as [|e evs IH]; intros s P I D k.
    - rewrite firstn_nil. exact I.
    - destruct k as [|k]; [exact I|]. cbn [firstn].
      destruct e as [h v|i t|]; cbn [disc crun] in *.
      + apply andb_prop in D as [D1 D2]. apply IH; [|exact D2]. apply inv_step; [discriminate|exact I|exact D1].
      + apply andb_prop in D as [D1 D2]. apply IH; [|exact D2]. apply inv_step; [discriminate|exact I|exact D1].
      + apply IH; [|exact D]. apply inv_sync. exact I.
  Qed.

  (* the statement used by C04: all crash states of all prefixes *)
  Theorem disciplined_all_crash_states_safe s evs :
    disciplined dom s evs = true ->
    forall k m, let st := crun s [] (firstn k evs) in safe dom (apply_masked (fst st) (snd st) m).
  Proof.
    intros H k m st. unfold disciplined in H. apply andb_prop in H as [H1 H2].
    apply inv_crash_safe. apply disc_sound; [apply init_inv; exact H1|exact H2].
  Qed.
End Dom.

(* ---- non-vacuity and sensitivity (evaluated) *)
Example ordered_log_accepted :
  (* allocate cluster 7: refcount first, sync, then the L2 slot; free it in the opposite order *)
  disciplined [100; 101] {| rcl := [(5, 1)]; sll := [(100, [5])] |}
    [SetRc 7 1; Sync; SetSlot 101 [7]; Sync; SetSlot 101 []; Sync; SetRc 7 0] = true.
Proof. vm_compute. reflexivity. Qed.

Example unordered_log_rejected :
  (* the slot write is issued while the refcount increment is not durable yet *)
  disciplined [100; 101] {| rcl := [(5, 1)]; sll := [(100, [5])] |} [SetRc 7 1; SetSlot 101 [7]; Sync] = false.
Proof. vm_compute. reflexivity. Qed.

Example early_release_rejected :
  (* refcount dropped before the cleared slot is durable *)
  disciplined [100; 101] {| rcl := [(5, 1)]; sll := [(100, [5])] |} [SetSlot 100 []; SetRc 5 0; Sync] = false.
Proof. vm_compute. reflexivity. Qed.

Example rejected_log_has_unsafe_crash_state :
  let s := {| rcl := [(5, 1)]; sll := [(100, [5])] |} in
  ~ safe [100; 101] (apply_masked s [SetRc 7 1; SetSlot 101 [7]] [false; true]).
Proof. intros s H. specialize (H 7). vm_compute in H. apply H. reflexivity. Qed.

(* ---- exactness at the level of cells: when the check rejects, some crash state of some prefix is unsafe
   (the bounds are attained simultaneously, because cells are written independently) *)
Lemma apply_masked_app P : forall s m e b, length m = length P ->
  apply_masked s (P ++ [e]) (m ++ [b]) = (if b then apply1 (apply_masked s P m) e else apply_masked s P m).
Proof.
  induction P as [|x P IH]; intros s m e b L.
  - destruct m; [|discriminate]. cbn [app apply_masked]. destruct b; reflexivity.
  - destruct m as [|y m]; [discriminate|]. cbn [app apply_masked]. apply IH. cbn [length] in L. congruence.
Qed.

Lemma extremes_attained h P : forall s,
  exists m, length m = length P /\
    get_rc (apply_masked s P m) h = fold_left (fmin h) P (get_rc s h) /\
    forall i, occ h (get_sl (apply_masked s P m) i) = fold_left (fmax i h) P (occ h (get_sl s i)).
Proof.
  induction P as [|e P IH] using rev_ind; intros s.
  - exists []. cbn [fold_left apply_masked length]. repeat split; reflexivity.
  - destruct (IH s) as [m [L [Hrc Hsl]]].
    destruct e as [h' v|i' t|].
    + (* refcount write *)
      destruct (N.eqb_spec h' h) as [->|Hd].
      * destruct (N.ltb_spec v (fold_left (fmin h) P (get_rc s h))) as [Hlt|Hge].
        -- exists (m ++ [true]). split; [rewrite !app_length; cbn [length]; lia|].
           rewrite apply_masked_app by exact L. split.
           ++ rewrite get_rc_apply1, N.eqb_refl, fold_left_app. cbn [fold_left fmin]. rewrite N.eqb_refl. lia.
           ++ intros i. rewrite get_sl_apply1, fold_left_app. cbn [fold_left fmax]. apply Hsl.
        -- exists (m ++ [false]). split; [rewrite !app_length; cbn [length]; lia|].
           rewrite apply_masked_app by exact L. split.
           ++ rewrite fold_left_app. cbn [fold_left fmin]. rewrite N.eqb_refl. rewrite Hrc. lia.
           ++ intros i. rewrite fold_left_app. cbn [fold_left fmax]. apply Hsl.
      * exists (m ++ [false]). split; [rewrite !app_length; cbn [length]; lia|].
        rewrite apply_masked_app by exact L. split.
        -- rewrite fold_left_app. cbn [fold_left fmin]. destruct (N.eqb_spec h' h); [congruence|]. exact Hrc.
        -- intros i. rewrite fold_left_app. cbn [fold_left fmax]. apply Hsl.
    + (* slot write *)
      destruct (N.ltb_spec (fold_left (fmax i' h) P (occ h (get_sl s i'))) (occ h t)) as [Hlt|Hge].
      * exists (m ++ [true]). split; [rewrite !app_length; cbn [length]; lia|].
        rewrite apply_masked_app by exact L. split.
        -- rewrite get_rc_apply1, fold_left_app. cbn [fold_left fmin]. exact Hrc.
        -- intros i. rewrite get_sl_apply1, fold_left_app. cbn [fold_left fmax].
           rewrite (N.eqb_sym i i'). destruct (N.eqb_spec i' i) as [->|Hd]; [lia|apply Hsl].
      * exists (m ++ [false]). split; [rewrite !app_length; cbn [length]; lia|].
        rewrite apply_masked_app by exact L. split.
        -- rewrite fold_left_app. cbn [fold_left fmin]. exact Hrc.
        -- intros i. rewrite fold_left_app. cbn [fold_left fmax].
           destruct (N.eqb_spec i' i) as [->|Hd]; [rewrite Hsl; lia|apply Hsl].
    + exists (m ++ [false]). split; [rewrite !app_length; cbn [length]; lia|].
      rewrite apply_masked_app by exact L. split.
      * rewrite fold_left_app. cbn [fold_left fmin]. exact Hrc.
      * intros i. rewrite fold_left_app. cbn [fold_left fmax]. apply Hsl.
Qed.

Section Exact.
  Variable dom : list N.

  Lemma chk_false_unsafe s P h : chk dom s P h = false -> exists m, ~ safe dom (apply_masked s P m).
  Proof.
    intros C. unfold chk in C. apply N.leb_gt in C.
    destruct (extremes_attained h P s) as [m [_ [Hrc Hsl]]]. exists m. intros S. specialize (S h).
    unfold crefs in S. rewrite Hrc in S.
    rewrite (sumN_ext _ (fun i => maxocc s P i h)) in S by (intros i _; apply Hsl).
    change (fold_left (fmin h) P (get_rc s h)) with (rc_min s P h) in S. unfold refs_max in C. lia.
  Qed.

  Lemma forallb_false_ex {A} (f : A -> bool) l : forallb f l = false -> exists x, In x l /\ f x = false.
  Proof.
    induction l as [|x t IH]; cbn [forallb]; [discriminate|]. intros H.
    destruct (f x) eqn:F; [|exists x; split; [left; reflexivity|exact F]].
    cbn [andb] in H. destruct (IH H) as [y [Hy Fy]]. exists y. split; [right; exact Hy|exact Fy].
  Qed.

  Lemma disc_false_unsafe evs : forall s P, disc dom s P evs = false ->
    exists k m, ~ safe dom (apply_masked (fst (crun s P (firstn k evs))) (snd (crun s P (firstn k evs))) m).
  Proof.
    induction evs as [|e evs IH]; intros s P D; [discriminate|].
    assert (Step : forall e', e' <> Sync -> e = e' -> step_ok dom s P e' && disc dom s (P ++ [e']) evs = false ->
              exists k m, ~ safe dom (apply_masked (fst (crun s P (firstn k (e' :: evs)))) (snd (crun s P (firstn k (e' :: evs)))) m)).
    { intros e' Hne _ H. destruct (step_ok dom s P e') eqn:St.
      - cbn [andb] in H. destruct (IH s (P ++ [e']) H) as [k [m U]]. exists (S k), m.
        cbn [firstn]. destruct e'; [exact U|exact U|congruence].
      - assert (exists h, chk dom s (P ++ [e']) h = false) as [h C].
        { destruct e' as [h v|i t|]; cbn [step_ok] in St; [exists h; exact St| |congruence].
          destruct (forallb_false_ex _ _ St) as [h [_ C]]. exists h. exact C. }
        destruct (chk_false_unsafe _ _ _ C) as [m U]. exists 1%nat, m. cbn [firstn].
        destruct e'; [exact U|exact U|congruence]. }
    destruct e as [h v|i t|].
    - cbn [disc] in D. apply (Step (SetRc h v)); [discriminate|reflexivity|exact D].
    - cbn [disc] in D. apply (Step (SetSlot i t)); [discriminate|reflexivity|exact D].
    - cbn [disc] in D. destruct (IH _ _ D) as [k [m U]]. exists (S k), m. cbn [firstn crun]. exact U.
  Qed.

  (* the check is exact for the cell model: it rejects only logs that have an unsafe crash state *)
  Theorem disciplined_false_unsafe s evs : disciplined dom s evs = false ->
    exists k m, ~ safe dom (apply_masked (fst (crun s [] (firstn k evs))) (snd (crun s [] (firstn k evs))) m).
  Proof.
    unfold disciplined. intros H. destruct (init_ok dom s) eqn:I.
    - cbn [andb] in H. exact (disc_false_unsafe evs s [] H).
    - exists 0%nat, []. cbn [firstn crun fst snd apply_masked]. unfold init_ok in I.
      destruct (forallb_false_ex _ _ I) as [h [_ C]]. apply N.leb_gt in C. intros S. specialize (S h). lia.
  Qed.
End Exact.

(* ---- the ordered flush protocol, for every batch:
     1. refcount writes that do not lower any refcount (allocations)      2. sync
     3. the slot writes (new mappings, cleared mappings, table links)       4. sync
     5. refcount writes that stay above the references now on disk (releases)
   has only safe crash states, whatever the batch, provided the refcounts after step 1 cover every mixture of old
   and new slot contents. *)
Section Protocol.
  Variable dom : list N.

  Definition rc_evs (l : list (N * N)) : list ev := map (fun p => SetRc (fst p) (snd p)) l.
  Definition sl_evs (l : list (N * list N)) : list ev := map (fun p => SetSlot (fst p) (snd p)) l.

  Definition protocol (incs : list (N * N)) (sets : list (N * list N)) (decs : list (N * N)) : list ev :=
    rc_evs incs ++ [Sync] ++ sl_evs sets ++ [Sync] ++ rc_evs decs.

  Definition InvRun (s : fs) (P : list ev) (evs : list ev) : Prop :=
    forall k, Inv dom (fst (crun s P (firstn k evs))) (snd (crun s P (firstn k evs))).

  Lemma crun_app A : forall s P B, crun s P (A ++ B) = crun (fst (crun s P A)) (snd (crun s P A)) B.
  Proof.
    induction A as [|e A IH]; intros s P B; [reflexivity|].
    destruct e; cbn [app crun]; apply IH.
  Qed.

  Lemma invrun_app s P A B : InvRun s P A -> InvRun (fst (crun s P A)) (snd (crun s P A)) B -> InvRun s P (A ++ B).
  Proof.
    intros HA HB k. destruct (Nat.le_gt_cases k (length A)) as [Hle|Hgt].
    - rewrite firstn_app. replace (k - length A)%nat with 0%nat by lia. rewrite firstn_O, app_nil_r. apply HA.
    - rewrite firstn_app, firstn_all2 by lia. rewrite crun_app. apply HB.
  Qed.

  Lemma crun_no_sync evs : (forall e, In e evs -> e <> Sync) -> forall s P, crun s P evs = (s, P ++ evs).
  Proof.
    induction evs as [|e evs IH]; intros H s P; cbn [crun]; [rewrite app_nil_r; reflexivity|].
    assert (e <> Sync) by (apply H; left; reflexivity).
    destruct e; [| |congruence]; (rewrite IH by (intros x Hx; apply H; right; exact Hx)); rewrite <- app_assoc; reflexivity.
  Qed.

  Lemma rc_evs_no_sync l e : In e (rc_evs l) -> e <> Sync.
  Proof. unfold rc_evs. intros H. apply in_map_iff in H as [p [<- _]]. discriminate. Qed.
  Lemma sl_evs_no_sync l e : In e (sl_evs l) -> e <> Sync.
  Proof. unfold sl_evs. intros H. apply in_map_iff in H as [p [<- _]]. discriminate. Qed.

  Lemma firstn_in {A} (l : list A) k x : In x (firstn k l) -> In x l.
  Proof. revert k; induction l as [|y l IH]; intros [|k]; cbn [firstn]; intros H; try contradiction. destruct H as [->|H]; [left; reflexivity|right; exact (IH _ H)]. Qed.

  (* slot bounds are not touched by refcount writes, refcount bounds not by slot writes *)
  Lemma maxocc_rc_evs s l i h : maxocc s (rc_evs l) i h = occ h (get_sl s i).
  Proof.
    unfold maxocc. generalize (occ h (get_sl s i)) as a. induction l as [|p l IH]; intros a; cbn [rc_evs map fold_left]; [reflexivity|]. apply IH.
  Qed.

  Lemma rc_min_sl_evs s l h : rc_min s (sl_evs l) h = get_rc s h.
  Proof.
    unfold rc_min. generalize (get_rc s h) as a. induction l as [|p l IH]; intros a; cbn [sl_evs map fold_left]; [reflexivity|]. apply IH.
  Qed.

  Lemma rc_min_ge_all s l h b : b <= get_rc s h -> (forall p, In p l -> fst p = h -> b <= snd p) -> b <= rc_min s (rc_evs l) h.
  Proof.
    unfold rc_min. generalize (get_rc s h) as a. induction l as [|p l IH]; intros a Ha H; cbn [rc_evs map fold_left]; [exact Ha|].
    apply IH.
    - destruct (N.eqb_spec (fst p) h) as [E|_]; [|exact Ha]. pose proof (H p (or_introl eq_refl) E). lia.
    - intros q Hq. apply H. right. exact Hq.
  Qed.

  Lemma maxocc_prefix_le s l k i h : maxocc s (firstn k (sl_evs l)) i h <= maxocc s (sl_evs l) i h.
  Proof.
    unfold maxocc. rewrite <- (firstn_skipn k (sl_evs l)) at 2. rewrite fold_left_app.
    apply (fold_fmax_ge i h).
  Qed.

  (* phase 1 / phase 5: refcount writes over a state that satisfies the invariant *)
  Lemma invrun_rc s l : Inv dom s [] ->
    (forall p, In p l -> crefs dom s (fst p) <= snd p) -> InvRun s [] (rc_evs l).
  Proof.
    intros I H k h.
    rewrite crun_no_sync by (intros e He; apply (rc_evs_no_sync l); exact (firstn_in _ _ _ He)).
    cbn [fst snd app]. unfold rc_evs. rewrite firstn_map. fold (rc_evs (firstn k l)).
    unfold refs_max. rewrite (sumN_ext _ (fun i => occ h (get_sl s i))) by (intros i _; apply maxocc_rc_evs).
    fold (crefs dom s h). apply rc_min_ge_all.
    - specialize (I h). unfold refs_max, rc_min, maxocc in I. cbn [fold_left] in I. exact I.
    - intros p Hp <-. apply H. exact (firstn_in _ _ _ Hp).
  Qed.

  (* phase 3: slot writes, when the refcounts cover every mixture of old and new contents *)
  Lemma invrun_sl s l : (forall h, refs_max dom s (sl_evs l) h <= get_rc s h) -> InvRun s [] (sl_evs l).
  Proof.
    intros H k h.
    rewrite crun_no_sync by (intros e He; apply (sl_evs_no_sync l); exact (firstn_in _ _ _ He)).
    cbn [fst snd app]. etransitivity; [|etransitivity; [apply (H h)|]].
    - unfold refs_max. apply sumN_le. intros i _. apply maxocc_prefix_le.
    - unfold sl_evs. rewrite firstn_map. fold (sl_evs (firstn k l)). rewrite rc_min_sl_evs. lia.
  Qed.

  Lemma invrun_sync s P evs : Inv dom s P -> InvRun (apply_all s P) [] evs -> InvRun s P (Sync :: evs).
  Proof. intros I H [|k]; cbn [firstn crun]; [exact I|apply H]. Qed.

  Lemma invrun_last s P evs : InvRun s P evs -> Inv dom (fst (crun s P evs)) (snd (crun s P evs)).
  Proof. intros H. specialize (H (length evs)). rewrite firstn_all in H. exact H. Qed.

  Theorem protocol_every_crash_state_safe s incs sets decs :
    Inv dom s [] ->
    (* 1: allocations only raise refcounts (stated against the references on disk) *)
    (forall p, In p incs -> crefs dom s (fst p) <= snd p) ->
    (* 3: after them, the refcounts cover any mixture of old and new slot contents *)
    (forall h, refs_max dom (apply_all s (rc_evs incs)) (sl_evs sets) h <= get_rc (apply_all s (rc_evs incs)) h) ->
    (* 5: releases stay above the references that are on disk after step 4 *)
    (forall p, In p decs -> crefs dom (apply_all (apply_all s (rc_evs incs)) (sl_evs sets)) (fst p) <= snd p) ->
    forall k m, let st := crun s [] (firstn k (protocol incs sets decs)) in
    safe dom (apply_masked (fst st) (snd st) m).
  Proof.
    intros I H1 H3 H5 k m st. apply inv_crash_safe. subst st.
    assert (R : InvRun s [] (protocol incs sets decs)); [|apply R].
    unfold protocol. apply invrun_app; [apply invrun_rc; assumption|].
    rewrite crun_no_sync by (apply rc_evs_no_sync). cbn [fst snd app].
    pose proof (invrun_last _ _ _ (invrun_rc s incs I H1)) as I1.
    rewrite crun_no_sync in I1 by (apply rc_evs_no_sync). cbn [fst snd app] in I1.
    apply invrun_sync; [exact I1|].
    apply invrun_app; [apply invrun_sl; exact H3|].
    rewrite crun_no_sync by (apply sl_evs_no_sync). cbn [fst snd app].
    pose proof (invrun_last _ _ _ (invrun_sl _ sets H3)) as I3.
    rewrite crun_no_sync in I3 by (apply sl_evs_no_sync). cbn [fst snd app] in I3.
    apply invrun_sync; [exact I3|].
    apply invrun_rc; [apply inv_sync; exact I3|exact H5].
  Qed.
End Protocol.

Example protocol_instance :
  (* cluster 7 is allocated and mapped at slot 101 while the mapping of cluster 5 at slot 100 is dropped *)
  let s := {| rcl := [(5, 1)]; sll := [(100, [5])] |} in
  disciplined [100; 101] s (protocol [(7, 1)] [(101, [7]); (100, [])] [(5, 0)]) = true.
Proof. vm_compute. reflexivity. Qed.

(* ---- frame: a cell that no later event writes keeps its value in every later crash state (C05 at the level of
   cells: a synced mapping / refcount survives whatever else is in flight) *)
Definition writes_slot (i : N) (e : ev) : bool := match e with SetSlot i' _ => N.eqb i' i | _ => false end.
Definition writes_rc (h : N) (e : ev) : bool := match e with SetRc h' _ => N.eqb h' h | _ => false end.

Lemma masked_slot_frame i P : forall s m, forallb (fun e => negb (writes_slot i e)) P = true ->
  get_sl (apply_masked s P m) i = get_sl s i.
Proof.
  induction P as [|e P IH]; intros s m H; [destruct m; reflexivity|].
  cbn [forallb] in H. apply andb_prop in H as [He HP].
  destruct m as [|b m]; [reflexivity|]. cbn [apply_masked]. destruct b; [|apply IH; exact HP].
  rewrite IH by exact HP. rewrite get_sl_apply1. destruct e as [h v|i' t|]; try reflexivity.
  cbn [writes_slot] in He. rewrite (N.eqb_sym i i'). destruct (N.eqb i' i); [discriminate|reflexivity].
Qed.

Lemma masked_rc_frame h P : forall s m, forallb (fun e => negb (writes_rc h e)) P = true ->
  get_rc (apply_masked s P m) h = get_rc s h.
Proof.
  induction P as [|e P IH]; intros s m H; [destruct m; reflexivity|].
  cbn [forallb] in H. apply andb_prop in H as [He HP].
  destruct m as [|b m]; [reflexivity|]. cbn [apply_masked]. destruct b; [|apply IH; exact HP].
  rewrite IH by exact HP. rewrite get_rc_apply1. destruct e as [h' v|i t|]; try reflexivity.
  cbn [writes_rc] in He. rewrite (N.eqb_sym h h'). destruct (N.eqb h' h); [discriminate|reflexivity].
Qed.

Lemma apply_all_slot_frame i P s : forallb (fun e => negb (writes_slot i e)) P = true -> get_sl (apply_all s P) i = get_sl s i.
Proof. intros H. rewrite apply_all_masked. apply masked_slot_frame. exact H. Qed.

Lemma forallb_app_inv {A} (f : A -> bool) l1 l2 : forallb f (l1 ++ l2) = true -> forallb f l1 = true /\ forallb f l2 = true.
Proof. rewrite forallb_app. intros H. apply andb_prop in H. exact H. Qed.

Lemma firstn_forallb {A} (f : A -> bool) k l : forallb f l = true -> forallb f (firstn k l) = true.
Proof.
  revert k; induction l as [|x l IH]; intros [|k] H; cbn [firstn forallb]; try reflexivity.
  cbn [forallb] in H. apply andb_prop in H as [Hx Hl]. rewrite Hx, (IH k Hl). reflexivity.
Qed.

(* the durable part and the pending part after any prefix, when nothing in the log writes slot i *)
Lemma crun_slot_frame i evs : forall s P,
  forallb (fun e => negb (writes_slot i e)) P = true ->
  forallb (fun e => negb (writes_slot i e)) evs = true ->
  get_sl (fst (crun s P evs)) i = get_sl s i /\
  forallb (fun e => negb (writes_slot i e)) (snd (crun s P evs)) = true.
Proof.
  induction evs as [|e evs IH]; intros s P HP H; [split; [reflexivity|exact HP]|].
  cbn [forallb] in H. apply andb_prop in H as [He Hr].
  destruct e as [h v|i' t|]; cbn [crun].
  - apply IH; [|exact Hr]. rewrite forallb_app, HP. cbn [forallb]. rewrite He. reflexivity.
  - apply IH; [|exact Hr]. rewrite forallb_app, HP. cbn [forallb]. rewrite He. reflexivity.
  - destruct (IH (apply_all s P) [] eq_refl Hr) as [A B]. split; [|exact B].
    rewrite A. apply apply_all_slot_frame. exact HP.
Qed.

Theorem synced_slot_survives i s evs :
  forallb (fun e => negb (writes_slot i e)) evs = true ->
  forall k m, let st := crun s [] (firstn k evs) in
  get_sl (apply_masked (fst st) (snd st) m) i = get_sl s i.
Proof.
  intros H k m st. subst st.
  destruct (crun_slot_frame i (firstn k evs) s [] eq_refl (firstn_forallb _ k evs H)) as [A B].
  rewrite masked_slot_frame by exact B. exact A.
Qed.
