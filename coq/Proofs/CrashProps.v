(* A log accepted by the discipline check has only safe crash states: for every prefix of the log and every subset
   of the writes pending at that point.  (Model/Crash.v) *)
From Coq Require Import NArith List Bool Lia.
From Q.Model Require Import Crash.
Import ListNotations.
Open Scope N_scope.

Lemma sumN_le {A} (f g : A -> N) l : (forall x, In x l -> f x <= g x) -> sumN f l <= sumN g l.
Proof.
  induction l as [|x t IH]; intros H; cbn [sumN]; [lia|].
  pose proof (H x (or_introl eq_refl)). assert (sumN f t <= sumN g t) by (apply IH; intros y Hy; apply H; right; exact Hy). lia.
Qed.

Lemma sumN_ext {A} (f g : A -> N) l : (forall x, In x l -> f x = g x) -> sumN f l = sumN g l.
Proof.
  induction l as [|x t IH]; intros H; cbn [sumN]; [reflexivity|].
  rewrite (H x (or_introl eq_refl)), IH; [reflexivity|]. intros y Hy; apply H; right; exact Hy.
Qed.

Lemma occ_notin h t : ~ In h t -> occ h t = 0.
Proof.
  induction t as [|x t IH]; intros H; cbn [occ]; [reflexivity|].
  destruct (N.eqb_spec x h) as [->|Hne]; [exfalso; apply H; left; reflexivity|].
  rewrite IH; [reflexivity|]. intros Hin; apply H; right; exact Hin.
Qed.

(* ---- folds *)
Definition fmin (h : N) := fun (m : N) (e : ev) => match e with SetRc h' v => if N.eqb h' h then N.min m v else m | _ => m end.
Definition fmax (i h : N) := fun (m : N) (e : ev) => match e with SetSlot i' t => if N.eqb i' i then N.max m (occ h t) else m | _ => m end.

Lemma fold_fmin_mono h P : forall a b, a <= b -> fold_left (fmin h) P a <= fold_left (fmin h) P b.
Proof.
  induction P as [|e P IH]; intros a b Hab; cbn [fold_left]; [exact Hab|].
  apply IH. destruct e as [h' v|i t|]; cbn [fmin]; try exact Hab. destruct (N.eqb h' h); lia.
Qed.

Lemma fold_fmin_le h P : forall a, fold_left (fmin h) P a <= a.
Proof.
  induction P as [|e P IH]; intros a; cbn [fold_left]; [lia|].
  etransitivity; [apply IH|]. destruct e as [h' v|i t|]; cbn [fmin]; try lia. destruct (N.eqb h' h); lia.
Qed.

Lemma fold_fmax_mono i h P : forall a b, a <= b -> fold_left (fmax i h) P a <= fold_left (fmax i h) P b.
Proof.
  induction P as [|e P IH]; intros a b Hab; cbn [fold_left]; [exact Hab|].
  apply IH. destruct e as [h' v|i' t|]; cbn [fmax]; try exact Hab. destruct (N.eqb i' i); lia.
Qed.

Lemma fold_fmax_ge i h P : forall a, a <= fold_left (fmax i h) P a.
Proof.
  induction P as [|e P IH]; intros a; cbn [fold_left]; [lia|].
  etransitivity; [|apply IH]. destruct e as [h' v|i' t|]; cbn [fmax]; try lia. destruct (N.eqb i' i); lia.
Qed.

Lemma get_rc_apply1 s e h : get_rc (apply1 s e) h = match e with SetRc h' v => if N.eqb h h' then v else get_rc s h | _ => get_rc s h end.
Proof. destruct e as [h' v|i t|]; unfold get_rc; cbn [apply1 rcl alookup]; reflexivity. Qed.

Lemma get_sl_apply1 s e i : get_sl (apply1 s e) i = match e with SetSlot i' t => if N.eqb i i' then t else get_sl s i | _ => get_sl s i end.
Proof. destruct e as [h' v|i' t|]; unfold get_sl; cbn [apply1 sll alookup]; reflexivity. Qed.

(* every crash state keeps each refcount above the bound, each slot's references below the bound *)
Lemma masked_rc_ge h P : forall s m, fold_left (fmin h) P (get_rc s h) <= get_rc (apply_masked s P m) h.
Proof.
  induction P as [|e P IH]; intros s m; cbn [fold_left]; [destruct m; cbn [apply_masked]; lia|].
  destruct m as [|b m]; cbn [apply_masked].
  - etransitivity; [apply fold_fmin_le|]. destruct e as [h' v|i t|]; cbn [fmin]; try lia. destruct (N.eqb h' h); lia.
  - destruct b.
    + etransitivity; [|apply IH]. apply fold_fmin_mono. rewrite get_rc_apply1.
      destruct e as [h' v|i t|]; cbn [fmin]; try lia.
      rewrite (N.eqb_sym h h'). destruct (N.eqb h' h); lia.
    + etransitivity; [|apply IH]. apply fold_fmin_mono.
      destruct e as [h' v|i t|]; cbn [fmin]; try lia. destruct (N.eqb h' h); lia.
Qed.

Lemma masked_occ_le i h P : forall s m, occ h (get_sl (apply_masked s P m) i) <= fold_left (fmax i h) P (occ h (get_sl s i)).
Proof.
  induction P as [|e P IH]; intros s m; cbn [fold_left]; [destruct m; cbn [apply_masked]; lia|].
  destruct m as [|b m]; cbn [apply_masked].
  - etransitivity; [|apply fold_fmax_ge]. destruct e as [h' v|i' t|]; cbn [fmax]; try lia. destruct (N.eqb i' i); lia.
  - destruct b.
    + etransitivity; [apply IH|]. apply fold_fmax_mono. rewrite get_sl_apply1.
      destruct e as [h' v|i' t|]; cbn [fmax]; try lia.
      rewrite (N.eqb_sym i i'). destruct (N.eqb i' i); lia.
    + etransitivity; [apply IH|]. apply fold_fmax_mono.
      destruct e as [h' v|i' t|]; cbn [fmax]; try lia. destruct (N.eqb i' i); lia.
Qed.

Section Dom.
  Variable dom : list N.

  Definition Inv (s : fs) (P : list ev) : Prop := forall h, refs_max dom s P h <= rc_min s P h.

  Theorem inv_crash_safe s P : Inv s P -> forall m, safe dom (apply_masked s P m).
  Proof.
    intros I m h. unfold crefs.
    etransitivity; [apply (sumN_le _ (fun i => maxocc s P i h)); intros i _; apply masked_occ_le|].
    etransitivity; [apply (I h)|]. apply masked_rc_ge.
  Qed.

  Lemma apply_all_masked P : forall s, apply_all s P = apply_masked s P (repeat true (length P)).
  Proof.
    induction P as [|e P IH]; intros s; cbn [apply_all fold_left length repeat apply_masked]; [reflexivity|].
    apply IH.
  Qed.

  (* a completed sync: the bounds only get tighter *)
  Lemma inv_sync s P : Inv s P -> Inv (apply_all s P) [].
  Proof.
    intros I h. unfold refs_max, rc_min, maxocc. cbn [fold_left]. rewrite apply_all_masked.
    etransitivity; [apply (sumN_le _ (fun i => maxocc s P i h)); intros i _; apply masked_occ_le|].
    etransitivity; [apply (I h)|]. apply masked_rc_ge.
  Qed.

  Lemma rc_min_app s P e h : rc_min s (P ++ [e]) h = fmin h (rc_min s P h) e.
  Proof. unfold rc_min. rewrite fold_left_app. reflexivity. Qed.

  Lemma maxocc_app s P e i h : maxocc s (P ++ [e]) i h = fmax i h (maxocc s P i h) e.
  Proof. unfold maxocc. rewrite fold_left_app. reflexivity. Qed.

  Lemma inv_step s P e : e <> Sync -> Inv s P -> step_ok dom s P e = true -> Inv s (P ++ [e]).
  Proof.
    intros Hne I Hs h. destruct e as [h0 v|i0 t|]; [| |congruence]; cbn [step_ok] in Hs.
    - destruct (N.eqb_spec h0 h) as [->|Hd].
      + unfold chk in Hs. apply N.leb_le in Hs. exact Hs.
      + rewrite rc_min_app. cbn [fmin]. destruct (N.eqb_spec h0 h) as [E|_]; [congruence|].
        unfold refs_max. etransitivity; [|apply (I h)]. unfold refs_max.
        apply N.eq_le_incl. apply sumN_ext. intros i _. rewrite maxocc_app. reflexivity.
    - destruct (in_dec N.eq_dec h t) as [Hin|Hnin].
      + rewrite forallb_forall in Hs. specialize (Hs h Hin). unfold chk in Hs. apply N.leb_le in Hs. exact Hs.
      + rewrite rc_min_app. cbn [fmin].
        unfold refs_max. etransitivity; [|apply (I h)]. unfold refs_max.
        apply N.eq_le_incl. apply sumN_ext. intros i _. rewrite maxocc_app. cbn [fmax].
        rewrite (occ_notin h t Hnin). destruct (N.eqb i0 i); lia.
  Qed.

  Lemma refs_notin s h : ~ In h (targets dom s) -> crefs dom s h = 0.
  Proof.
    unfold targets, crefs. induction dom as [|i d IH]; intros H; cbn [sumN flat_map]; [reflexivity|].
    cbn [flat_map] in H. rewrite occ_notin; [|intros Hin; apply H; apply in_or_app; left; exact Hin].
    rewrite IH; [reflexivity|]. intros Hin; apply H; apply in_or_app; right; exact Hin.
  Qed.

  Lemma init_inv s : init_ok dom s = true -> Inv s [].
  Proof.
    intros H h. unfold refs_max, rc_min, maxocc. cbn [fold_left]. fold (crefs dom s h).
    destruct (in_dec N.eq_dec h (targets dom s)) as [Hin|Hnin].
    - unfold init_ok in H. rewrite forallb_forall in H. specialize (H h Hin). apply N.leb_le in H. exact H.
    - rewrite refs_notin by exact Hnin. lia.
  Qed.

  Lemma disc_sound evs : forall s P, Inv s P -> disc dom s P evs = true ->
    forall k, Inv (fst (crun s P (firstn k evs))) (snd (crun s P (firstn k evs))).
  Proof.
    induction evs as [|e evs IH]; intros s P I D k.
    - rewrite firstn_nil. exact I.
    - destruct k as [|k]; [exact I|]. cbn [firstn].
      destruct e as [h v|i t|]; cbn [disc crun] in *.
      + apply andb_prop in D as [D1 D2]. apply IH; [|exact D2]. apply inv_step; [discriminate|exact I|exact D1].
      + apply andb_prop in D as [D1 D2]. apply IH; [|exact D2]. apply inv_step; [discriminate|exact I|exact D1].
      + apply IH; [|exact D]. apply inv_sync. exact I.
  Qed.

  (* the statement used by C04: all crash states of all prefixes *)
  Theorem disciplined_all_crash_states_safe s evs :
    disciplined dom s evs = true ->
    forall k m, let st := crun s [] (firstn k evs) in safe dom (apply_masked (fst st) (snd st) m).
  Proof.
    intros H k m st. unfold disciplined in H. apply andb_prop in H as [H1 H2].
    apply inv_crash_safe. apply disc_sound; [apply init_inv; exact H1|exact H2].
  Qed.
End Dom.

(* ---- non-vacuity and sensitivity (evaluated) *)
Example ordered_log_accepted :
  (* allocate cluster 7: refcount first, sync, then the L2 slot; free it in the opposite order *)
  disciplined [100; 101] {| rcl := [(5, 1)]; sll := [(100, [5])] |}
    [SetRc 7 1; Sync; SetSlot 101 [7]; Sync; SetSlot 101 []; Sync; SetRc 7 0] = true.
Proof. vm_compute. reflexivity. Qed.

Example unordered_log_rejected :
  (* the slot write is issued while the refcount increment is not durable yet *)
  disciplined [100; 101] {| rcl := [(5, 1)]; sll := [(100, [5])] |} [SetRc 7 1; SetSlot 101 [7]; Sync] = false.
Proof. vm_compute. reflexivity. Qed.

Example early_release_rejected :
  (* refcount dropped before the cleared slot is durable *)
  disciplined [100; 101] {| rcl := [(5, 1)]; sll := [(100, [5])] |} [SetSlot 100 []; SetRc 5 0; Sync] = false.
Proof. vm_compute. reflexivity. Qed.

Example rejected_log_has_unsafe_crash_state :
  let s := {| rcl := [(5, 1)]; sll := [(100, [5])] |} in
  ~ safe [100; 101] (apply_masked s [SetRc 7 1; SetSlot 101 [7]] [false; true]).
Proof. intros s H. specialize (H 7). vm_compute in H. apply H. reflexivity. Qed.
