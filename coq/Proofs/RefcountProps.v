(* C15, refcount blocks: get/set of every width touches only the addressed entry, uses
   big-endian words / LSB-first sub-byte packing, refuses values that do not fit. *)
From Coq Require Import NArith ZArith List Bool Lia.
From Q.Base Require Import Bits.
From Q.Spec Require Import Entries.
From Q.Model Require Import Codec.
From Q.Proofs Require Import Geometry.
Import ListNotations.
Open Scope N_scope.

Ltac Zify.zify_post_hook ::= Z.div_mod_to_equations.
Arguments N.add : simpl never.
Arguments N.sub : simpl never.
Arguments N.mul : simpl never.
Arguments N.div : simpl never.
Arguments N.modulo : simpl never.
Arguments N.pow : simpl never.
Arguments N.shiftl : simpl never.
Arguments N.shiftr : simpl never.
Arguments N.land : simpl never.
Arguments N.lor : simpl never.


(* ---------- lists of bytes ---------- *)
Lemma upd_nat_length l n v : length (upd_nat l n v) = length l.
Proof. revert n; induction l as [|a l IH]; intros [|n]; cbn; auto. Qed.

Lemma upd_length l i v : length (upd l i v) = length l.
Proof. apply upd_nat_length. Qed.

Lemma nth_upd_nat_same l n v : (n < length l)%nat -> nth n (upd_nat l n v) 0 = v.
Proof. revert n; induction l as [|a l IH]; intros [|n] H; cbn in *; try lia; auto. apply IH. lia. Qed.

Lemma nth_upd_nat_other l n m v : n <> m -> nth m (upd_nat l n v) 0 = nth m l 0.
Proof.
  revert n m; induction l as [|a l IH]; intros [|n] [|m] H; cbn; auto; try congruence.
Qed.

Lemma byte_at_upd_same l i v : i < N.of_nat (length l) -> byte_at (upd l i v) i = v.
Proof. intros. unfold byte_at, upd. apply nth_upd_nat_same. lia. Qed.

Lemma byte_at_upd_other l i j v : i <> j -> byte_at (upd l i v) j = byte_at l j.
Proof. intros. unfold byte_at, upd. apply nth_upd_nat_other. lia. Qed.

Lemma byte_at_lt l i : bytes_ok l -> byte_at l i < 256.
Proof.
  intros H. unfold byte_at.
  destruct (Nat.lt_ge_cases (N.to_nat i) (length l)) as [Hl|Hg].
  - unfold bytes_ok in H. rewrite Forall_forall in H. apply H, nth_In. assumption.
  - rewrite nth_overflow by assumption. lia.
Qed.

Lemma upd_nat_ok l n v : bytes_ok l -> v < 256 -> bytes_ok (upd_nat l n v).
Proof.
  unfold bytes_ok. revert n; induction l as [|a l IH]; intros [|n] H Hv; cbn; auto;
    inversion H; subst; constructor; auto.
Qed.

Lemma upd_ok l i v : bytes_ok l -> v < 256 -> bytes_ok (upd l i v).
Proof. apply upd_nat_ok. Qed.

(* ---------- sub-byte fields: a finite sweep over (byte, slot, slot', value) ---------- *)
Definition sb_get (b w sh : N) : N := N.land (N.shiftr b sh) (2 ^ w - 1).
Definition nrange (n : N) : list N := map N.of_nat (seq 0 (N.to_nat n)).

Definition sub_ok (w : N) : bool :=
  forallb (fun b =>
   forallb (fun k =>
    forallb (fun v =>
      let nb := sub_set b v w (k * w) in
      (nb <? 256) && (sb_get nb w (k * w) =? v) &&
      forallb (fun k' => (k' =? k) || (sb_get nb w (k' * w) =? sb_get b w (k' * w)))
              (nrange (8 / w)))
    (nrange (2 ^ w)))
   (nrange (8 / w)))
  (nrange 256).

Lemma sub_ok_1 : sub_ok 1 = true. Proof. vm_compute. reflexivity. Qed.
Lemma sub_ok_2 : sub_ok 2 = true. Proof. vm_compute. reflexivity. Qed.
Lemma sub_ok_4 : sub_ok 4 = true. Proof. vm_compute. reflexivity. Qed.

Lemma in_nrange n x : x < n -> In x (nrange n).
Proof.
  intros H. unfold nrange. apply in_map_iff. exists (N.to_nat x). split; [apply N2Nat.id|].
  apply in_seq. split; [apply Nat.le_0_l|]. cbn.
  apply N.compare_lt_iff in H. rewrite <- (N2Nat.id x), <- (N2Nat.id n), <- Nat2N.inj_compare in H.
  apply Nat.compare_lt_iff in H. exact H.
Qed.

Lemma sub_ok_elim w : sub_ok w = true -> forall b k v, b < 256 -> k < 8 / w -> v < 2 ^ w ->
  sub_set b v w (k * w) < 256 /\
  sb_get (sub_set b v w (k * w)) w (k * w) = v /\
  forall k', k' < 8 / w -> k' <> k ->
    sb_get (sub_set b v w (k * w)) w (k' * w) = sb_get b w (k' * w).
Proof.
  intros H b k v Hb Hk Hv. unfold sub_ok in H.
  rewrite forallb_forall in H. specialize (H b (in_nrange 256 b Hb)).
  rewrite forallb_forall in H. specialize (H k (in_nrange _ k Hk)).
  rewrite forallb_forall in H. specialize (H v (in_nrange _ v Hv)).
  cbv zeta in H. apply andb_prop in H as [H H3]. apply andb_prop in H as [H1 H2].
  apply N.ltb_lt in H1. apply N.eqb_eq in H2. repeat split; auto.
  intros k' Hk' Hne. rewrite forallb_forall in H3. specialize (H3 k' (in_nrange _ k' Hk')).
  apply orb_prop in H3 as [E|E]; [apply N.eqb_eq in E; congruence|apply N.eqb_eq in E; exact E].
Qed.

(* ---------- entries ---------- *)

Lemma rb_set_refuses ro l i v : ro < 6 -> 2 ^ (2 ^ ro) <= v -> rb_set ro l i v = None.
Proof.
  intros Hro Hv. unfold rb_set, rb_fits.
  destruct (N.leb_spec 6 ro); [lia|]. destruct (N.ltb_spec v (2 ^ 2 ^ ro)); [lia|]. reflexivity.
Qed.

Lemma rb_set_accepts ro l i v : ro <= 6 -> v < 2 ^ (2 ^ ro) -> exists l', rb_set ro l i v = Some l'.
Proof.
  intros Hro Hv. unfold rb_set, rb_fits.
  destruct (N.ltb_spec v (2 ^ 2 ^ ro)); [|lia]. rewrite orb_true_r. cbn [negb]. eexists; reflexivity.
Qed.

(* sub-byte widths, generic in (ro, w = 2^ro, per = 8/w) *)
Section SubByte.
  Variables (ro w per : N).
  Hypothesis Hok : sub_ok w = true.
  Hypothesis Hper : per = 8 / w.
  Hypothesis Hper0 : per <> 0.
  Hypothesis Hget : forall l i, rb_get ro l i = sb_get (byte_at l (i / per)) w (i mod per * w).
  Hypothesis Hset : forall l i v, v < 2 ^ w ->
    rb_set ro l i v = Some (upd l (i / per) (sub_set (byte_at l (i / per)) v w (i mod per * w))).

  Lemma sub_get_set l i v : bytes_ok l -> i / per < N.of_nat (length l) -> v < 2 ^ w ->
    exists l', rb_set ro l i v = Some l' /\ length l' = length l /\ bytes_ok l' /\
      rb_get ro l' i = v /\
      (forall j, j <> i -> rb_get ro l' j = rb_get ro l j) /\
      (forall b, b <> i / per -> byte_at l' b = byte_at l b).
  Proof.
    intros Hb Hi Hv. eexists. split; [apply Hset; assumption|].
    pose proof (byte_at_lt l (i / per) Hb) as Hlt.
    assert (Hk : i mod per < 8 / w) by (rewrite <- Hper; apply N.mod_lt; assumption).
    destruct (sub_ok_elim w Hok _ _ _ Hlt Hk Hv) as (A & B & C).
    split; [apply upd_length|]. split; [apply upd_ok; assumption|].
    split; [rewrite Hget, byte_at_upd_same by assumption; exact B|].
    split.
    - intros j Hj. rewrite !Hget.
      destruct (N.eq_dec (j / per) (i / per)) as [E|E].
      + rewrite E, byte_at_upd_same by assumption.
        apply C.
        * rewrite <- Hper. apply N.mod_lt. assumption.
        * intro E2. apply Hj.
          rewrite (N.div_mod j per), (N.div_mod i per) by assumption. rewrite E, E2. reflexivity.
      + rewrite byte_at_upd_other by congruence. reflexivity.
    - intros b Hne. apply byte_at_upd_other. congruence.
  Qed.
End SubByte.

Definition entry_law (ro : N) : Prop :=
  forall l i v, bytes_ok l -> rb_in_range ro (N.of_nat (length l)) i -> v < 2 ^ (2 ^ ro) ->
  exists l', rb_set ro l i v = Some l' /\ length l' = length l /\ bytes_ok l' /\
    rb_get ro l' i = v /\
    (forall j, j <> i -> rb_get ro l' j = rb_get ro l j) /\
    (forall b, (b < i * 2 ^ ro / 8 \/ i * 2 ^ ro / 8 + N.max 1 (2 ^ ro / 8) <= b) -> byte_at l' b = byte_at l b).

Lemma set_fits_eq ro v (H : v < 2 ^ (2 ^ ro)) (body : list N) :
  (if negb (rb_fits ro v) then None else Some body) = Some body.
Proof.
  unfold rb_fits. destruct (N.ltb_spec v (2 ^ 2 ^ ro)); [|lia]. rewrite orb_true_r. reflexivity.
Qed.

Lemma entry_law_0 : entry_law 0.
Proof.
  intros l i v Hb Hr Hv. cbn [rb_in_range] in Hr. change (2 ^ 2 ^ 0) with 2 in Hv.
  destruct (sub_get_set 0 1 8 sub_ok_1 eq_refl ltac:(discriminate)) with (l := l) (i := i) (v := v)
    as (l' & A & B & C & D & E & F); try assumption.
  - intros. unfold rb_get, sb_get. rewrite N.mul_1_r. reflexivity.
  - intros l0 i0 v0 H0. unfold rb_set. rewrite set_fits_eq by exact H0. rewrite N.mul_1_r. reflexivity.
  - exists l'. repeat split; try assumption.
    intros b Hbb. apply F. change (2 ^ 0) with 1 in Hbb. rewrite N.mul_1_r in Hbb.
    change (1 / 8) with 0 in Hbb. change (N.max 1 0) with 1 in Hbb. lia.
Qed.

Lemma entry_law_1 : entry_law 1.
Proof.
  intros l i v Hb Hr Hv. cbn [rb_in_range] in Hr. change (2 ^ 2 ^ 1) with 4 in Hv.
  destruct (sub_get_set 1 2 4 sub_ok_2 eq_refl ltac:(discriminate)) with (l := l) (i := i) (v := v)
    as (l' & A & B & C & D & E & F); try assumption.
  - intros. reflexivity.
  - intros l0 i0 v0 H0. unfold rb_set. rewrite set_fits_eq by exact H0. reflexivity.
  - exists l'. repeat split; try assumption.
    intros b Hbb. apply F. change (2 ^ 1) with 2 in Hbb. change (2 / 8) with 0 in Hbb.
    change (N.max 1 0) with 1 in Hbb. lia.
Qed.

Lemma entry_law_2 : entry_law 2.
Proof.
  intros l i v Hb Hr Hv. cbn [rb_in_range] in Hr. change (2 ^ 2 ^ 2) with 16 in Hv.
  destruct (sub_get_set 2 4 2 sub_ok_4 eq_refl ltac:(discriminate)) with (l := l) (i := i) (v := v)
    as (l' & A & B & C & D & E & F); try assumption.
  - intros. reflexivity.
  - intros l0 i0 v0 H0. unfold rb_set. rewrite set_fits_eq by exact H0. reflexivity.
  - exists l'. repeat split; try assumption.
    intros b Hbb. apply F. change (2 ^ 2) with 4 in Hbb. change (4 / 8) with 0 in Hbb.
    change (N.max 1 0) with 1 in Hbb. lia.
Qed.

Ltac bupd :=
  repeat first
    [ rewrite byte_at_upd_same by (rewrite ?upd_length; lia)
    | rewrite byte_at_upd_other by lia ].

Lemma entry_law_3 : entry_law 3.
Proof.
  intros l i v Hb Hr Hv. cbn [rb_in_range] in Hr. change (2 ^ 2 ^ 3) with 256 in Hv.
  unfold rb_set. rewrite set_fits_eq by exact Hv.
  eexists. split; [reflexivity|]. rewrite N.mod_small by assumption.
  split; [apply upd_length|]. split; [apply upd_ok; assumption|].
  unfold rb_get. split; [bupd; reflexivity|]. split.
  - intros j Hj. bupd. reflexivity.
  - intros b Hbb. change (2 ^ 3) with 8 in Hbb. change (8 / 8) with 1 in Hbb. change (N.max 1 1) with 1 in Hbb.
    rewrite N.div_mul in Hbb by discriminate. bupd. reflexivity.
Qed.

Lemma entry_law_4 : entry_law 4.
Proof.
  intros l i v Hb Hr Hv. cbn [rb_in_range] in Hr. change (2 ^ 2 ^ 4) with 65536 in Hv.
  unfold rb_set. rewrite set_fits_eq by exact Hv.
  eexists. split; [reflexivity|].
  assert (B0 : v / 256 mod 256 < 256) by (apply N.mod_lt; discriminate).
  assert (B1 : v mod 256 < 256) by (apply N.mod_lt; discriminate).
  split; [rewrite !upd_length; reflexivity|]. split; [repeat apply upd_ok; assumption|].
  unfold rb_get. split; [bupd; apply bytes2; assumption|]. split.
  - intros j Hj. bupd. reflexivity.
  - intros b Hbb. change (2 ^ 4) with 16 in Hbb. change (16 / 8) with 2 in Hbb. change (N.max 1 2) with 2 in Hbb.
    assert (i * 16 / 8 = i * 2) by lia. bupd. reflexivity.
Qed.

Lemma entry_law_5 : entry_law 5.
Proof.
  intros l i v Hb Hr Hv. cbn [rb_in_range] in Hr. change (2 ^ 2 ^ 5) with 4294967296 in Hv.
  unfold rb_set. rewrite set_fits_eq by exact Hv.
  eexists. split; [reflexivity|].
  assert (B : forall x, x mod 256 < 256) by (intro; apply N.mod_lt; discriminate).
  split; [rewrite !upd_length; reflexivity|]. split; [repeat apply upd_ok; auto|].
  unfold rb_get. split; [bupd; apply bytes4; assumption|]. split.
  - intros j Hj. bupd. reflexivity.
  - intros b Hbb. change (2 ^ 5) with 32 in Hbb. change (32 / 8) with 4 in Hbb. change (N.max 1 4) with 4 in Hbb.
    assert (i * 32 / 8 = i * 4) by lia. bupd. reflexivity.
Qed.

Lemma entry_law_6 : entry_law 6.
Proof.
  intros l i v Hb Hr Hv. cbn [rb_in_range] in Hr. change (2 ^ 2 ^ 6) with 18446744073709551616 in Hv.
  unfold rb_set. rewrite set_fits_eq by exact Hv.
  eexists. split; [reflexivity|].
  assert (B : forall x, x mod 256 < 256) by (intro; apply N.mod_lt; discriminate).
  split; [rewrite !upd_length; reflexivity|]. split; [repeat apply upd_ok; auto|].
  unfold rb_get. split; [bupd; apply bytes8; assumption|]. split.
  - intros j Hj. bupd. reflexivity.
  - intros b Hbb. change (2 ^ 6) with 64 in Hbb. change (64 / 8) with 8 in Hbb. change (N.max 1 8) with 8 in Hbb.
    assert (i * 64 / 8 = i * 8) by lia. bupd. reflexivity.
Qed.

Theorem refcount_entry_laws ro : ro <= 6 -> entry_law ro.
Proof.
  intros H.
  assert (C : ro = 0 \/ ro = 1 \/ ro = 2 \/ ro = 3 \/ ro = 4 \/ ro = 5 \/ ro = 6) by lia.
  destruct C as [->|[->|[->|[->|[->|[->| ->]]]]]];
    [apply entry_law_0|apply entry_law_1|apply entry_law_2|apply entry_law_3
    |apply entry_law_4|apply entry_law_5|apply entry_law_6].
Qed.

Lemma land_1 x : N.land x 1 = x mod 2 ^ 1. Proof. apply (land_pow2m1 x 1). Qed.
Lemma land_3 x : N.land x 3 = x mod 2 ^ 2. Proof. apply (land_pow2m1 x 2). Qed.
Lemma land_15 x : N.land x 15 = x mod 2 ^ 4. Proof. apply (land_pow2m1 x 4). Qed.

(* the model's get is the specification's read: big-endian words, LSB-first sub-byte fields *)
Theorem rb_get_spec ro l i : ro <= 6 -> rb_get ro l i = s_refcount_read ro (byte_at l) i.
Proof.
  intros H.
  assert (C : ro = 0 \/ ro = 1 \/ ro = 2 \/ ro = 3 \/ ro = 4 \/ ro = 5 \/ ro = 6) by lia.
  destruct C as [->|[->|[->|[->|[->|[->| ->]]]]]]; unfold s_refcount_read, rb_get, bits.
  - change (0 <? 3) with true. cbv iota. change (2 ^ 0) with 1. change (8 / 1) with 8. rewrite N.mul_1_r.
    rewrite land_1, shiftr_div. reflexivity.
  - change (1 <? 3) with true. cbv iota. change (2 ^ 1) with 2. change (8 / 2) with 4.
    rewrite land_3, shiftr_div. reflexivity.
  - change (2 <? 3) with true. cbv iota. change (2 ^ 2) with 4. change (8 / 4) with 2.
    rewrite land_15, shiftr_div. reflexivity.
  - change (3 <? 3) with false. cbv iota. change (2 ^ 3 / 8) with 1.
    cbv [N.recursion N.peano_rect Pos.peano_rect N.succ_pos N.succ Pos.succ]. rewrite ?N.add_0_r, ?N.mul_1_r. lia.
  - change (4 <? 3) with false. cbv iota. change (2 ^ 4 / 8) with 2.
    cbv [N.recursion N.peano_rect Pos.peano_rect N.succ_pos N.succ Pos.succ]. rewrite ?N.add_0_r, ?N.mul_1_r. lia.
  - change (5 <? 3) with false. cbv iota. change (2 ^ 5 / 8) with 4.
    cbv [N.recursion N.peano_rect Pos.peano_rect N.succ_pos N.succ Pos.succ]. rewrite ?N.add_0_r, ?N.mul_1_r. lia.
  - change (6 <? 3) with false. cbv iota. change (2 ^ 6 / 8) with 8.
    cbv [N.recursion N.peano_rect Pos.peano_rect N.succ_pos N.succ Pos.succ]. rewrite ?N.add_0_r, ?N.mul_1_r. lia.
Qed.
