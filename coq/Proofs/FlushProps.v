From Coq Require Import NArith List Bool.
From Q.Model Require Import Flush.
Import ListNotations.
Open Scope N_scope.

Record FInv (s : fst_) : Prop := {
  i1 : forall k, unsynced s k = true -> dirty s k = true;
  i2 : forall k, dirty s k = true -> flag s = true
}.

Lemma finit_inv : FInv finit.
Proof. constructor; intros k H; discriminate. Qed.

Lemma fstep_inv s o : FInv s -> FInv (fstep s o).
Proof.
  intros [I1 I2]. destruct o as [k| |w|k|k]; constructor; cbn [fstep unsynced dirty flag]; unfold setb; intros x H.
  - destruct (x =? k); [reflexivity|apply I1; exact H].
  - reflexivity.
  - destruct (dirty s x) eqn:D; [discriminate|]. rewrite (I1 x H) in D. discriminate.
  - discriminate.
  - destruct (existsb (N.eqb x) w) eqn:E.
    + rewrite andb_true_r in H. destruct (dirty s x) eqn:D; [discriminate|]. rewrite (I1 x H) in D. discriminate.
    + rewrite andb_false_r in H. apply I1. exact H.
  - reflexivity.
  - destruct (dirty s k) eqn:D.
    + destruct (N.eqb_spec x k) as [->|Hne]; [discriminate|]. apply I1. exact H.
    + destruct (N.eqb_spec x k) as [->|Hne]; [rewrite (I1 k H) in D; discriminate|apply I1; exact H].
  - destruct (x =? k); [discriminate|]. apply (I2 x). exact H.
  - apply I1. exact H.
  - destruct (dirty s k); [reflexivity|]. apply (I2 x). exact H.
Qed.

Theorem frun_inv ops : forall s, FInv s -> FInv (frun s ops).
Proof.
  induction ops as [|o r IH]; intros s I; [exact I|]. cbn [frun fold_left]. apply IH. apply fstep_inv. exact I.
Qed.

(* C18, sequential form: when the flag is false, no cached slice differs from the file *)
Theorem flag_false_clean ops k :
  flag (frun finit ops) = false -> unsynced (frun finit ops) k = false.
Proof.
  intros F. destruct (frun_inv ops finit finit_inv) as [I1 I2].
  destruct (unsynced (frun finit ops) k) eqn:U; [|reflexivity].
  rewrite (I2 k (I1 k U)) in F. discriminate.
Qed.

(* C02 / C17: right after a successful flush_meta (also one that follows failed ones) nothing differs from the file *)
Theorem flush_ok_clean ops k : unsynced (frun finit (ops ++ [FFlushOk])) k = false.
Proof.
  unfold frun. rewrite fold_left_app. cbn [fold_left fstep unsynced].
  destruct (frun_inv ops finit finit_inv) as [I1 _]. unfold frun in I1.
  destruct (dirty (fold_left fstep ops finit) k) eqn:D; [reflexivity|].
  destruct (unsynced (fold_left fstep ops finit) k) eqn:U; [|reflexivity]. rewrite (I1 k U) in D. discriminate.
Qed.

(* the marks a failed write keeps: after a failed flush every slice that still differs from the file is still dirty
   and the flag is set, so the retry writes it *)
Theorem failed_flush_keeps_marks ops w k :
  unsynced (frun finit (ops ++ [FFlushFail w])) k = true ->
  dirty (frun finit (ops ++ [FFlushFail w])) k = true /\ flag (frun finit (ops ++ [FFlushFail w])) = true.
Proof.
  intros U. destruct (frun_inv (ops ++ [FFlushFail w]) finit finit_inv) as [I1 I2].
  split; [exact (I1 k U)|exact (I2 k (I1 k U))].
Qed.

(* ---- content-carrying model (C02) ---- *)
Record CInv (s : cst) : Prop := {
  c1 : forall k, mem s k <> file s k -> cdirty s k = true;
  c2 : forall k, cdirty s k = true -> cflag s = true
}.

Lemma cinit_inv f : CInv (cinit f).
Proof. constructor; cbn [cinit mem file cdirty cflag]; intros k H; [exfalso; apply H; reflexivity|discriminate]. Qed.

Lemma cstep_inv s o : CInv s -> CInv (cstep s o).
Proof.
  intros [I1 I2]. destruct o as [k v| |w|k|k]; constructor; cbn [cstep mem file cdirty cflag]; unfold setb, setn; intros x H.
  - destruct (x =? k) eqn:E; [reflexivity|apply I1; exact H].
  - reflexivity.
  - destruct (cdirty s x) eqn:D; [exfalso; apply H; reflexivity|]. rewrite (I1 x H) in D. discriminate.
  - discriminate.
  - destruct (existsb (N.eqb x) w) eqn:E.
    + rewrite andb_true_r in H. destruct (cdirty s x) eqn:D; [exfalso; apply H; reflexivity|].
      rewrite (I1 x H) in D. discriminate.
    + rewrite andb_false_r in H. apply I1. exact H.
  - reflexivity.
  - destruct (cdirty s k) eqn:D.
    + destruct (N.eqb_spec x k) as [->|Hne]; [exfalso; apply H; reflexivity|]. apply I1. exact H.
    + destruct (N.eqb_spec x k) as [->|Hne]; [rewrite (I1 k H) in D; discriminate|apply I1; exact H].
  - destruct (x =? k); [discriminate|]. apply (I2 x). exact H.
  - apply I1. exact H.
  - destruct (cdirty s k); [reflexivity|]. apply (I2 x). exact H.
Qed.

Theorem crun_inv ops : forall s, CInv s -> CInv (crun_ s ops).
Proof.
  induction ops as [|o r IH]; intros s I; [exact I|]. cbn [crun_ fold_left]. apply IH. apply cstep_inv. exact I.
Qed.

(* what the running device reads is the flat reference: only updates change it (flushes and evictions, failed or
   not, never do) *)
Lemma cstep_mem s o : mem (cstep s o) = match o with CUpdate k v => setn (mem s) k v | _ => mem s end.
Proof. destruct o; reflexivity. Qed.

Theorem crun_mem ops : forall s, mem (crun_ s ops) = cref (mem s) ops.
Proof.
  induction ops as [|o r IH]; intros s; [reflexivity|]. cbn [crun_ fold_left]. fold (crun_ (cstep s o) r).
  rewrite IH, cstep_mem. destruct o; reflexivity.
Qed.

(* C02: right after a successful flush_meta the file alone determines the content: for every slice the file holds
   exactly what the running device reads, which is the flat reference of the whole history *)
Theorem flush_ok_file_is_reference f ops k :
  file (crun_ (cinit f) (ops ++ [CFlushOk])) k = cref f ops k /\
  mem (crun_ (cinit f) (ops ++ [CFlushOk])) k = cref f ops k.
Proof.
  unfold crun_. rewrite fold_left_app. cbn [fold_left cstep file mem]. fold (crun_ (cinit f) ops).
  pose proof (crun_mem ops (cinit f)) as M. cbn [cinit mem] in M.
  destruct (crun_inv ops (cinit f) (cinit_inv f)) as [I1 _].
  split; [|rewrite M; reflexivity].
  destruct (cdirty (crun_ (cinit f) ops) k) eqn:D; [rewrite M; reflexivity|].
  destruct (N.eq_dec (mem (crun_ (cinit f) ops) k) (file (crun_ (cinit f) ops) k)) as [E|NE].
  - rewrite <- E, M. reflexivity.
  - rewrite (I1 k NE) in D. discriminate.
Qed.

(* whenever the flag is false the same holds without a flush (C18 in content form) *)
Theorem cflag_false_file_is_reference f ops k :
  cflag (crun_ (cinit f) ops) = false -> file (crun_ (cinit f) ops) k = cref f ops k.
Proof.
  intros F. destruct (crun_inv ops (cinit f) (cinit_inv f)) as [I1 I2].
  pose proof (crun_mem ops (cinit f)) as M. cbn [cinit mem] in M.
  destruct (N.eq_dec (mem (crun_ (cinit f) ops) k) (file (crun_ (cinit f) ops) k)) as [E|NE].
  - rewrite <- E, M. reflexivity.
  - rewrite (I2 k (I1 k NE)) in F. discriminate.
Qed.

(* ---- the boolean model is a sound abstraction of the content-carrying one ---- *)
Definition cabs (o : cop) : fop :=
  match o with
  | CUpdate k _ => FUpdate k | CFlushOk => FFlushOk | CFlushFail w => FFlushFail w
  | CEvictOk k => FEvictOk k | CEvictFail k => FEvictFail k
  end.

Record Sim (c : cst) (a : fst_) : Prop := {
  s_un : forall k, mem c k <> file c k -> unsynced a k = true;
  s_di : forall k, dirty a k = cdirty c k;
  s_fl : flag a = cflag c
}.

Lemma sim_init f : Sim (cinit f) finit.
Proof. constructor; cbn; intros; [exfalso; auto|reflexivity..]. Qed.

Lemma sim_step c a o : Sim c a -> Sim (cstep c o) (fstep a (cabs o)).
Proof.
  intros [U D F]. destruct o as [k v| |w|k|k]; constructor;
    cbn [cabs cstep fstep mem file cdirty cflag unsynced dirty flag]; unfold setb, setn; try intros x H; try intros x.
  - destruct (x =? k); [reflexivity|apply U; exact H].
  - rewrite D. reflexivity.
  - reflexivity.
  - rewrite D. destruct (cdirty c x); [exfalso; apply H; reflexivity|apply U; exact H].
  - reflexivity.
  - reflexivity.
  - rewrite D. destruct (cdirty c x && existsb (N.eqb x) w); [exfalso; apply H; reflexivity|apply U; exact H].
  - rewrite D. reflexivity.
  - reflexivity.
  - rewrite D. destruct (cdirty c k).
    + destruct (N.eq_dec x k) as [E|NE].
      * subst x. rewrite N.eqb_refl in H. exfalso. apply H. reflexivity.
      * apply N.eqb_neq in NE. rewrite NE in H |- *. apply U. exact H.
    + apply U. exact H.
  - rewrite D. reflexivity.
  - exact F.
  - apply U. exact H.
  - apply D.
  - rewrite D, F. reflexivity.
Qed.

Theorem sim_run ops : forall c a, Sim c a -> Sim (crun_ c ops) (frun a (map cabs ops)).
Proof.
  induction ops as [|o r IH]; intros c a S; [exact S|]. cbn [crun_ frun fold_left map]. apply IH. apply sim_step. exact S.
Qed.

(* so every statement about `unsynced` of the boolean model is a statement about file <> running view *)
Corollary abstract_clean_means_equal f ops k :
  unsynced (frun finit (map cabs ops)) k = false -> file (crun_ (cinit f) ops) k = mem (crun_ (cinit f) ops) k.
Proof.
  intros H. destruct (sim_run ops _ _ (sim_init f)) as [U _ _].
  destruct (N.eq_dec (mem (crun_ (cinit f) ops) k) (file (crun_ (cinit f) ops) k)) as [E|NE]; [symmetry; exact E|].
  rewrite (U k NE) in H. discriminate.
Qed.

(* C17: whatever a step does (failed or not), the file holds for every slice either what it held before or what the
   running device reads - a failed flush or eviction never puts anything else there, and never touches `mem` *)
Theorem cstep_file_old_or_current s o k :
  file (cstep s o) k = file s k \/ file (cstep s o) k = mem (cstep s o) k.
Proof.
  destruct o as [k0 v| |w|k0|k0]; cbn [cstep file mem]; unfold setn.
  - left. reflexivity.
  - destruct (cdirty s k); [right|left]; reflexivity.
  - destruct (cdirty s k && existsb (N.eqb k) w); [right|left]; reflexivity.
  - destruct (cdirty s k0); [|left; reflexivity]. unfold setn.
    destruct (N.eqb_spec k k0) as [->|Hne]; [right|left]; reflexivity.
  - left. reflexivity.
Qed.
