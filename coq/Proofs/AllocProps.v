(* The allocator's slice scans hand out only entries whose refcount is zero, inside the slice, the first such
   window at or after the start; alloc_range increments exactly the entries of the range. *)
From Coq Require Import NArith List Bool Arith Lia.
From Q.Model Require Import Alloc.
Import ListNotations.

Lemma find_nz_none l n : forall i, find_nz l i n = None -> forall j, i <= j < i + n -> zero_at l j = true.
Proof.
  induction n as [|n IH]; intros i H j Hj; [lia|]. cbn [find_nz] in H.
  destruct (zero_at l i) eqn:Z; [|discriminate].
  destruct (Nat.eq_dec j i) as [->|Hne]; [exact Z|]. apply (IH (S i) H). lia.
Qed.

Lemma find_nz_some l n : forall i j, find_nz l i n = Some j ->
  i <= j < i + n /\ zero_at l j = false /\ forall k, i <= k < j -> zero_at l k = true.
Proof.
  induction n as [|n IH]; intros i j H; [discriminate|]. cbn [find_nz] in H.
  destruct (zero_at l i) eqn:Z.
  - destruct (IH (S i) j H) as [R [Nz Bef]]. split; [lia|]. split; [exact Nz|].
    intros k Hk. destruct (Nat.eq_dec k i) as [->|Hne]; [exact Z|]. apply Bef. lia.
  - injection H as <-. split; [lia|]. split; [exact Z|]. intros k Hk. lia.
Qed.

(* soundness + minimality of the window search *)
Lemma gfr_loop_sound fuel l count ms : forall i a b,
  gfr_loop fuel l i count ms = Some (a, b) ->
  b = a + count /\ i <= a <= ms /\ (forall j, a <= j < b -> zero_at l j = true) /\
  (* no window starting in [i, a) is free *)
  (forall s, i <= s < a -> exists j, s <= j < s + count /\ zero_at l j = false).
Proof.
  induction fuel as [|f IH]; intros i a b H; [discriminate|]. cbn [gfr_loop] in H.
  destruct (Nat.leb_spec i ms) as [Hle|Hgt]; [|discriminate].
  destruct (find_nz l i count) as [j|] eqn:F.
  - destruct (find_nz_some l count i j F) as [Rj [Nz _]].
    destruct (IH (S j) a b H) as [E [R [Zs Min]]]. split; [exact E|]. split; [lia|]. split; [exact Zs|].
    intros s Hs. destruct (Nat.le_gt_cases s j) as [Hsj|Hsj].
    + exists j. split; [lia|exact Nz].
    + apply Min. lia.
  - injection H as <- <-. split; [reflexivity|]. split; [lia|]. split.
    + intros j Hj. exact (find_nz_none l count i F j Hj).
    + intros s Hs. lia.
Qed.

Theorem get_free_range_sound l start count a b :
  start + count <= length l ->
  get_free_range l start count = Some (a, b) ->
  b = a + count /\ start <= a /\ b <= length l /\
  (forall j, a <= j < b -> rc_at l j = 0%N) /\
  (forall s, start <= s < a -> exists j, s <= j < s + count /\ rc_at l j <> 0%N).
Proof.
  intros Hb H. unfold get_free_range in H.
  destruct (gfr_loop_sound _ _ _ _ _ _ _ H) as [E [R [Zs Min]]].
  split; [exact E|]. split; [lia|]. split; [lia|]. split.
  - intros j Hj. specialize (Zs j Hj). unfold zero_at in Zs. apply N.eqb_eq. exact Zs.
  - intros s Hs. destruct (Min s Hs) as [j [Hj Nz]]. exists j. split; [exact Hj|].
    unfold zero_at in Nz. apply N.eqb_neq. exact Nz.
Qed.

(* completeness: with enough fuel, None means no free window at or after start *)
Lemma gfr_loop_complete fuel l count ms : forall i,
  ms + 1 - i <= fuel ->
  gfr_loop fuel l i count ms = None ->
  forall s, i <= s <= ms -> exists j, s <= j < s + count /\ zero_at l j = false.
Proof.
  induction fuel as [|f IH]; intros i Hf H s Hs; [lia|]. cbn [gfr_loop] in H.
  destruct (Nat.leb_spec i ms) as [Hle|Hgt]; [|lia].
  destruct (find_nz l i count) as [j|] eqn:F; [|discriminate].
  destruct (find_nz_some l count i j F) as [Rj [Nz _]].
  destruct (Nat.le_gt_cases s j) as [Hsj|Hsj].
  - exists j. split; [lia|exact Nz].
  - apply (IH (S j)); [lia|exact H|lia].
Qed.

Theorem get_free_range_complete l start count :
  start + count <= length l ->
  get_free_range l start count = None ->
  forall s, start <= s -> s + count <= length l -> exists j, s <= j < s + count /\ rc_at l j <> 0%N.
Proof.
  intros Hb H s Hs Hs2. unfold get_free_range in H.
  assert (Hf : length l - count + 1 - start <= S (length l)) by lia.
  assert (Hr : start <= s <= length l - count) by lia.
  destruct (gfr_loop_complete (S (length l)) l count (length l - count) start Hf H s Hr) as [j [Hj Nz]].
  exists j. split; [exact Hj|]. unfold zero_at in Nz. apply N.eqb_neq. exact Nz.
Qed.

Lemma last_nz_spec l n : match last_nz l n with
  | None => forall j, j < n -> zero_at l j = true
  | Some i => i < n /\ zero_at l i = false /\ forall j, i < j < n -> zero_at l j = true
  end.
Proof.
  induction n as [|n IH]; cbn [last_nz]; [intros j Hj; lia|].
  destruct (zero_at l n) eqn:Z.
  - destruct (last_nz l n) as [i|].
    + destruct IH as [Hi [Nz Aft]]. split; [lia|]. split; [exact Nz|].
      intros j Hj. destruct (Nat.eq_dec j n) as [->|Hne]; [exact Z|]. apply Aft. lia.
    + intros j Hj. destruct (Nat.eq_dec j n) as [->|Hne]; [exact Z|]. apply IH. lia.
  - split; [lia|]. split; [exact Z|]. intros j Hj. lia.
Qed.

Theorem get_tail_free_range_sound l a b :
  get_tail_free_range l = Some (a, b) ->
  b = length l /\ 0 < a < b /\ rc_at l (a - 1) <> 0%N /\ forall j, a <= j < b -> rc_at l j = 0%N.
Proof.
  unfold get_tail_free_range. pose proof (last_nz_spec l (length l)) as S.
  destruct (last_nz l (length l)) as [i|]; [|discriminate].
  destruct S as [Hi [Nz Aft]]. destruct (Nat.eqb_spec i (length l - 1)); [discriminate|].
  intros H. injection H as <- <-. split; [reflexivity|]. split; [lia|]. split.
  - replace (S i - 1) with i by lia. unfold zero_at in Nz. apply N.eqb_neq. exact Nz.
  - intros j Hj. specialize (Aft j ltac:(lia)). unfold zero_at in Aft. apply N.eqb_eq. exact Aft.
Qed.

Lemma upd_nth_length l i v : length (upd_nth l i v) = length l.
Proof. revert i; induction l as [|x t IH]; intros [|i]; cbn [upd_nth length]; try reflexivity. rewrite IH. reflexivity. Qed.

Lemma upd_nth_get l i v j : i < length l -> rc_at (upd_nth l i v) j = if j =? i then v else rc_at l j.
Proof.
  revert i j; induction l as [|x t IH]; intros i j Hi; [cbn in Hi; lia|].
  destruct i as [|i], j as [|j]; cbn [upd_nth rc_at nth Nat.eqb]; try reflexivity.
  cbn [length] in Hi. unfold rc_at in IH. rewrite (IH i j ltac:(lia)). reflexivity.
Qed.

Theorem alloc_range_spec n : forall l s j,
  s + n <= length l ->
  rc_at (alloc_range l s n) j = if (s <=? j) && (j <? s + n) then (rc_at l j + 1)%N else rc_at l j.
Proof.
  induction n as [|n IH]; intros l s j Hb; cbn [alloc_range].
  - destruct (s <=? j) eqn:A, (j <? s + 0) eqn:B; cbn [andb]; try reflexivity.
    apply Nat.leb_le in A. apply Nat.ltb_lt in B. lia.
  - rewrite IH by (rewrite upd_nth_length; lia). rewrite upd_nth_get by lia.
    destruct (Nat.leb_spec (S s) j), (Nat.ltb_spec j (S s + n)), (Nat.leb_spec s j), (Nat.ltb_spec j (s + S n)),
             (Nat.eqb_spec j s); cbn [andb]; try lia; try reflexivity.
    subst j. reflexivity.
Qed.

Lemma alloc_range_length n : forall l s, length (alloc_range l s n) = length l.
Proof. induction n as [|n IH]; intros l s; cbn [alloc_range]; [reflexivity|]. rewrite IH, upd_nth_length. reflexivity. Qed.
