(* Geometry facts about the model's [info] record shared by the proofs. *)
From Coq Require Import NArith ZArith List Bool Lia.
From Q.Base Require Import Bits.
From Q.Model Require Import Codec.
Open Scope N_scope.

(* ranges of the u8/u32 fields of Qcow2Info that keep the evaluator's checks quiet *)
Record info_rng (i : info) : Prop := {
  r_cs : 9 <= cluster_shift i <= 21;
  r_ro : refcount_order i <= 6;
  r_bs : 9 <= block_size_shift i <= 12;
  r_l2sb : 9 <= l2_slice_bits i <= cluster_shift i;
  r_rbsb : 9 <= rb_slice_bits i <= cluster_shift i;
  r_l2is : l2_index_shift i = cluster_shift i - 3;
  r_l2sis : l2_slice_index_shift i = l2_slice_bits i - 3;
  r_rbis : rb_index_shift i = cluster_shift i + 3 - refcount_order i;
  r_rbsis : rb_slice_index_shift i = rb_slice_bits i + 3 - refcount_order i;
  r_l2se : l2_slice_entries i = 2 ^ (l2_slice_bits i - 3);
  r_mask : in_cluster_offset_mask i = 2 ^ cluster_shift i - 1;
  r_l2mask : l2_index_mask i = 2 ^ (cluster_shift i - 3) - 1;
  r_rbmask : rb_index_mask i = 2 ^ (cluster_shift i + 3 - refcount_order i) - 1;
  r_vs : virtual_size i < 2 ^ 64;
}.

Ltac dR H :=
  destruct H as [r_cs0 r_ro0 r_bs0 r_l2sb0 r_rbsb0 r_l2is0 r_l2sis0 r_rbis0 r_rbsis0 r_l2se0
                 r_mask0 r_l2mask0 r_rbmask0 r_vs0].

Lemma pow2_ge1 n : 1 <= 2 ^ n.
Proof. pose proof (pow2_pos n). lia. Qed.


(* the geometry the device accepts *)
Record geom_ok (cb ro bs l2sb rbsb size : N) : Prop := {
  g_cb : 9 <= cb <= 21;
  g_ro : ro <= 6;
  g_bs : 9 <= bs <= 12;
  g_l2sb : bs <= l2sb <= cb;
  g_rbsb : bs <= rbsb <= cb;
  g_size : size < 2 ^ 64;
}.

Lemma info_of_rng cb ro size bs l2sb l2cnt rbsb rbcnt fl :
  geom_ok cb ro bs l2sb rbsb size -> info_rng (info_of cb ro size bs l2sb l2cnt rbsb rbcnt fl).
Proof.
  intros []. constructor; cbn [info_of block_size_shift cluster_shift l2_index_shift l2_slice_index_shift
    l2_slice_bits refcount_order rb_slice_bits rb_index_shift rb_slice_index_shift flags l2_slice_entries
    in_cluster_offset_mask l2_index_mask rb_index_mask l2_cache_cnt rb_cache_cnt virtual_size]; try lia.
  - (* l2 slice entries *)
    change 8 with (2 ^ 3). rewrite <- N.pow_sub_r by (try discriminate; lia).
    rewrite shiftr_div, <- N.pow_sub_r by (try discriminate; lia). f_equal. lia.
  - change 8 with (2 ^ 3). rewrite <- N.pow_sub_r by (try discriminate; lia). reflexivity.
  - change 8 with (2 ^ 3). rewrite <- N.pow_add_r, <- N.pow_sub_r by (try discriminate; lia). reflexivity.
Qed.

(* the mappings on which L2Entry::from_mapping does not panic *)
Definition from_mapping_pre (cb : N) (m : mapping) : Prop :=
  match m_offset m with Some o => o <= 72057594037927935 | None => True end /\
  l2_reserved_bits (l2_from_mapping cb m) = 0 /\
  ((m_source m = SRC_DATA /\ m_clen m = None /\ m_offset m <> None) \/
   (m_source m = SRC_BACKING /\ m_clen m = None /\ m_copied m = false) \/
   (m_source m = SRC_ZERO /\ m_clen m = None /\ (m_copied m = true -> m_offset m <> None)) \/
   (m_source m = SRC_COMPRESSED /\ m_copied m = false /\
      exists o len, m_offset m = Some o /\ m_clen m = Some len /\ 1 <= len <= 2 ^ 23 /\
        (len - 1 + N.land o 511) / 512 < 2 ^ (cb - 8)) \/
   m_source m = SRC_UNALLOC).


(* refcount slices as lists of bytes *)
Definition bytes_ok (l : list N) : Prop := Forall (fun b => b < 256) l.
Definition rb_in_range (ro len idx : N) : Prop :=
  match ro with
  | 0 => idx / 8 < len | 1 => idx / 4 < len | 2 => idx / 2 < len | 3 => idx < len
  | 4 => idx * 2 + 2 <= len | 5 => idx * 4 + 4 <= len | _ => idx * 8 + 8 <= len
  end.
