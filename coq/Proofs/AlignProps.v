(* Alignment provenance (C16): host offsets the device computes for data and slice I/O are multiples of the block
   size whenever the guest offset is, over the model of the address arithmetic (Model/Codec.v, proved equal to the
   regenerated Rust functions in Proofs/GenEq.v). *)
From Coq Require Import NArith List Bool Lia.
From Q.Base Require Import Bits.
From Q.Model Require Import Codec.
From Q.Proofs Require Import Geometry.
Open Scope N_scope.

Lemma mod_pow2_of_mod_pow2 a m n : n <= m -> a mod 2 ^ m = 0 -> a mod 2 ^ n = 0.
Proof.
  intros Hle H. pose proof (mod_pow2_min a m n) as M. rewrite N.min_r in M by exact Hle.
  rewrite <- M, H. apply N.mod_0_l. apply N.pow_nonzero. lia.
Qed.

Lemma add_mod_zero a b n : a mod 2 ^ n = 0 -> b mod 2 ^ n = 0 -> (a + b) mod 2 ^ n = 0.
Proof.
  intros Ha Hb. assert (P : 2 ^ n <> 0) by (apply N.pow_nonzero; lia).
  rewrite (N.add_mod a b (2 ^ n) P), Ha, Hb, N.add_0_l, (N.mod_0_l (2 ^ n) P). exact (N.mod_0_l (2 ^ n) P).
Qed.

Lemma in_cluster_aligned i g :
  info_rng i -> block_size_shift i <= cluster_shift i -> g mod 2 ^ block_size_shift i = 0 ->
  sg_in_cluster_offset i g mod 2 ^ block_size_shift i = 0.
Proof.
  intros R Hle Hg. dR R. unfold sg_in_cluster_offset. rewrite r_mask0.
  rewrite <- N.pred_sub, <- N.ones_equiv, land_ones.
  rewrite mod_pow2_min, N.min_r by exact Hle. exact Hg.
Qed.

(* data I/O: host offset = cluster offset of the (specification-valid, i.e. cluster aligned) entry + offset in cluster *)
Theorem data_offset_aligned i v g h :
  info_rng i -> block_size_shift i <= cluster_shift i ->
  g mod 2 ^ block_size_shift i = 0 ->
  l2_cluster_offset v mod 2 ^ cluster_shift i = 0 ->
  m_plain_offset (l2_into_mapping i v g) (sg_in_cluster_offset i g) = Some h ->
  h mod 2 ^ block_size_shift i = 0.
Proof.
  intros R Hle Hg Hv M.
  pose proof (in_cluster_aligned i g R Hle Hg) as A.
  pose proof (mod_pow2_of_mod_pow2 _ _ _ Hle Hv) as B.
  unfold m_plain_offset, l2_into_mapping in M.
  destruct (l2_compressed_range (cluster_shift i) v) as [[o l]|]; [cbn in M; discriminate|].
  destruct (l2_is_zero v); [cbn in M; discriminate|].
  destruct (l2_cluster_offset v =? 0) eqn:Z.
  - destruct (l2_is_copied v || has_back_file i); cbn in M; discriminate.
  - cbn [m_source m_copied m_offset] in M. change (SRC_DATA =? SRC_DATA) with true in M. cbn [andb] in M.
    destruct (l2_is_copied v); [|discriminate]. injection M as <-. apply add_mod_zero; assumption.
Qed.

(* slice I/O: the offset of a slice inside its table is a multiple of the slice size, hence of the block size *)
Lemma shl64_aligned x m n : n <= m -> n <= 64 -> shl64 x m mod 2 ^ n = 0.
Proof.
  intros Hnm Hn. unfold shl64. rewrite mod_pow2_min, N.min_r by exact Hn.
  rewrite N.shiftl_mul_pow2. replace m with ((m - n) + n) by lia. rewrite N.pow_add_r, N.mul_assoc.
  apply N.mod_mul. apply N.pow_nonzero. lia.
Qed.

Theorem l2_slice_offset_aligned i g tbl :
  info_rng i -> block_size_shift i <= l2_slice_bits i ->
  tbl mod 2 ^ cluster_shift i = 0 ->
  (tbl + sg_l2_slice_off_in_table i g) mod 2 ^ block_size_shift i = 0.
Proof.
  intros R Hle Ht. dR R.
  apply add_mod_zero; [apply (mod_pow2_of_mod_pow2 _ (cluster_shift i)); [lia|exact Ht]|].
  unfold sg_l2_slice_off_in_table. apply shl64_aligned; lia.
Qed.

Theorem rb_slice_offset_aligned i hc tbl :
  info_rng i -> block_size_shift i <= rb_slice_bits i ->
  tbl mod 2 ^ cluster_shift i = 0 ->
  (tbl + hc_rb_slice_off_in_table i hc) mod 2 ^ block_size_shift i = 0.
Proof.
  intros R Hle Ht. dR R.
  apply add_mod_zero; [apply (mod_pow2_of_mod_pow2 _ (cluster_shift i)); [lia|exact Ht]|].
  unfold hc_rb_slice_off_in_table. apply shl64_aligned; lia.
Qed.

(* slice I/O lengths: a slice is 2^slice_bits bytes, a multiple of the block size, and it lies inside its table
   cluster (offset in table + slice size <= cluster size), so slice I/O never leaves the table it belongs to *)
Lemma slice_len_aligned n b : b <= n -> 2 ^ n mod 2 ^ b = 0.
Proof.
  intros H. replace n with ((n - b) + b) by lia. rewrite N.pow_add_r. apply N.mod_mul. apply N.pow_nonzero. lia.
Qed.

Lemma slice_in_table idx cs sb : sb <= cs -> cs <= 21 -> idx < 2 ^ (cs - 3) -> 3 <= sb ->
  shl64 (N.shiftr idx (sb - 3)) sb + 2 ^ sb <= 2 ^ cs.
Proof.
  intros Hle Hcs Hidx H3.
  assert (Q : N.shiftr idx (sb - 3) < 2 ^ (cs - sb)).
  { apply shiftr_lt. replace (cs - sb + (sb - 3)) with (cs - 3) by lia. exact Hidx. }
  assert (E : 2 ^ cs = 2 ^ (cs - sb) * 2 ^ sb) by (rewrite <- N.pow_add_r; f_equal; lia).
  assert (B : N.shiftr idx (sb - 3) * 2 ^ sb + 2 ^ sb <= 2 ^ cs) by (rewrite E; nia).
  assert (C : 2 ^ cs < 2 ^ 64) by (apply pow2_lt_mono; lia).
  unfold shl64. rewrite N.shiftl_mul_pow2, N.mod_small; [exact B|]. pose proof (pow2_pos sb). lia.
Qed.

Theorem l2_slice_inside_table i g :
  info_rng i -> sg_l2_slice_off_in_table i g + 2 ^ l2_slice_bits i <= 2 ^ cluster_shift i.
Proof.
  intros R. dR R. unfold sg_l2_slice_off_in_table. rewrite r_l2sis0.
  apply slice_in_table; try lia. unfold sg_l2_index. rewrite r_l2mask0. apply land_mask_lt.
Qed.

Theorem l2_slice_len_aligned i :
  info_rng i -> block_size_shift i <= l2_slice_bits i -> 2 ^ l2_slice_bits i mod 2 ^ block_size_shift i = 0.
Proof. intros _ H. apply slice_len_aligned. exact H. Qed.

Theorem rb_slice_len_aligned i :
  info_rng i -> block_size_shift i <= rb_slice_bits i -> 2 ^ rb_slice_bits i mod 2 ^ block_size_shift i = 0.
Proof. intros _ H. apply slice_len_aligned. exact H. Qed.

Lemma slice_in_table_gen idx cs sb e s : sb <= cs -> cs <= 21 -> s <= e -> e - s = cs - sb -> idx < 2 ^ e ->
  shl64 (N.shiftr idx s) sb + 2 ^ sb <= 2 ^ cs.
Proof.
  intros Hle Hcs Hse He Hidx.
  assert (Q : N.shiftr idx s < 2 ^ (cs - sb)).
  { apply shiftr_lt. replace (cs - sb + s) with e by lia. exact Hidx. }
  assert (E : 2 ^ cs = 2 ^ (cs - sb) * 2 ^ sb) by (rewrite <- N.pow_add_r; f_equal; lia).
  assert (B : N.shiftr idx s * 2 ^ sb + 2 ^ sb <= 2 ^ cs) by (rewrite E; nia).
  assert (C : 2 ^ cs < 2 ^ 64) by (apply pow2_lt_mono; lia).
  unfold shl64. rewrite N.shiftl_mul_pow2, N.mod_small; [exact B|]. pose proof (pow2_pos sb). lia.
Qed.

Theorem rb_slice_inside_table i h :
  info_rng i -> hc_rb_slice_off_in_table i h + 2 ^ rb_slice_bits i <= 2 ^ cluster_shift i.
Proof.
  intros R. dR R. unfold hc_rb_slice_off_in_table. rewrite r_rbsis0.
  apply (slice_in_table_gen _ _ _ (cluster_shift i + 3 - refcount_order i)); try lia.
  unfold hc_rb_index. rewrite r_rbmask0. apply land_mask_lt.
Qed.
