(* Bit-level lemmas: masks and shifts as div/mod by powers of two, so that [lia]
   (with Z.div_mod_to_equations) can finish codec goals. *)
From Coq Require Import NArith ZArith Lia Bool.
Open Scope N_scope.

Ltac Zify.zify_post_hook ::= Z.div_mod_to_equations.

Lemma pow2_pos n : 0 < 2 ^ n.
Proof. apply N.neq_0_lt_0, N.pow_nonzero; discriminate. Qed.

Lemma pow2_nz n : 2 ^ n <> 0.
Proof. apply N.pow_nonzero; discriminate. Qed.

Lemma pow2_split a b : 2 ^ (a + b) = 2 ^ a * 2 ^ b.
Proof. apply N.pow_add_r. Qed.

Lemma pow2_le_mono a b : a <= b -> 2 ^ a <= 2 ^ b.
Proof. intros; apply N.pow_le_mono_r; [discriminate|assumption]. Qed.

Lemma pow2_lt_mono a b : a < b -> 2 ^ a < 2 ^ b.
Proof. intros; apply N.pow_lt_mono_r; [reflexivity|assumption]. Qed.

Lemma shiftr_div v n : N.shiftr v n = v / 2 ^ n.
Proof. apply N.shiftr_div_pow2. Qed.

Lemma shiftl_mul v n : N.shiftl v n = v * 2 ^ n.
Proof. apply N.shiftl_mul_pow2. Qed.

Lemma land_ones v n : N.land v (N.ones n) = v mod 2 ^ n.
Proof. apply N.land_ones. Qed.

Lemma ones_eq n : N.ones n = 2 ^ n - 1.
Proof. rewrite N.ones_equiv. lia. Qed.

Lemma land_pow2m1 v n : N.land v (2 ^ n - 1) = v mod 2 ^ n.
Proof. rewrite <- ones_eq. apply N.land_ones. Qed.

(* a field of n bits at position k *)
Lemma land_ones_shiftl v n k :
  N.land v (N.shiftl (N.ones n) k) = ((v / 2 ^ k) mod 2 ^ n) * 2 ^ k.
Proof.
  apply N.bits_inj; intro i.
  rewrite N.land_spec.
  destruct (N.lt_ge_cases i k) as [Hlt|Hge].
  - rewrite N.shiftl_spec_low by assumption. rewrite andb_false_r.
    rewrite N.mul_pow2_bits_low by assumption. reflexivity.
  - rewrite N.shiftl_spec_high' by assumption.
    rewrite N.mul_pow2_bits_high by assumption.
    destruct (N.lt_ge_cases (i - k) n) as [Hl|Hg].
    + rewrite N.ones_spec_low by assumption. rewrite andb_true_r.
      rewrite N.mod_pow2_bits_low by assumption.
      rewrite N.div_pow2_bits. f_equal. lia.
    + rewrite N.ones_spec_high by assumption. rewrite andb_false_r.
      rewrite N.mod_pow2_bits_high by assumption. reflexivity.
Qed.

Lemma mask_range_eq n k : N.shiftl (N.ones n) k = 2 ^ (n + k) - 2 ^ k.
Proof.
  rewrite shiftl_mul, ones_eq, N.mul_sub_distr_r, <- N.pow_add_r. lia.
Qed.

(* v & (2^hi - 2^lo): bits lo..hi-1 kept in place *)
Lemma land_range v lo hi : lo <= hi ->
  N.land v (2 ^ hi - 2 ^ lo) = ((v / 2 ^ lo) mod 2 ^ (hi - lo)) * 2 ^ lo.
Proof.
  intros H. replace (2 ^ hi - 2 ^ lo) with (N.shiftl (N.ones (hi - lo)) lo).
  - apply land_ones_shiftl.
  - rewrite mask_range_eq. f_equal. f_equal. lia.
Qed.

(* single-bit test *)
Lemma land_bit v k : N.land v (2 ^ k) = (if N.testbit v k then 2 ^ k else 0).
Proof.
  apply N.bits_inj; intro i. rewrite N.land_spec.
  destruct (N.eq_dec i k) as [->|Hne].
  - rewrite N.pow2_bits_true, andb_true_r.
    destruct (N.testbit v k) eqn:E.
    + now rewrite N.pow2_bits_true.
    + now rewrite N.bits_0.
  - rewrite N.pow2_bits_false by (intro; subst; congruence). rewrite andb_false_r.
    destruct (N.testbit v k).
    + rewrite N.pow2_bits_false by (intro; subst; congruence). reflexivity.
    + now rewrite N.bits_0.
Qed.

Lemma testbit_div v k : N.testbit v k = negb (((v / 2 ^ k) mod 2) =? 0).
Proof.
  rewrite N.testbit_eqb, <- shiftr_div.
  assert (H : N.shiftr v k mod 2 < 2) by (apply N.mod_lt; discriminate).
  remember (N.shiftr v k mod 2) as x eqn:Ex. clear Ex.
  destruct (N.eqb_spec x 1) as [E|E]; destruct (N.eqb_spec x 0) as [E0|E0]; try reflexivity; lia.
Qed.

Lemma land_bit_ne0 v k : negb (N.land v (2 ^ k) =? 0) = N.testbit v k.
Proof.
  rewrite land_bit. destruct (N.testbit v k).
  - destruct (N.eqb_spec (2 ^ k) 0) as [E|E]; [exfalso; revert E; apply pow2_nz|reflexivity].
  - reflexivity.
Qed.

(* disjoint or = plus *)
Lemma lor_disjoint_add a b : N.land a b = 0 -> N.lor a b = a + b.
Proof.
  intros H. rewrite <- N.lxor_lor by assumption. symmetry. apply N.add_nocarry_lxor. assumption.
Qed.

Lemma land_low_high a b k : a < 2 ^ k -> N.land (b * 2 ^ k) a = 0.
Proof.
  intros H. apply N.bits_inj; intro i. rewrite N.land_spec, N.bits_0.
  destruct (N.lt_ge_cases i k).
  - rewrite N.mul_pow2_bits_low by assumption. reflexivity.
  - replace (N.testbit a i) with false; [apply andb_false_r|].
    symmetry. destruct (N.eq_dec a 0) as [->|Hn]; [apply N.bits_0|].
    apply N.bits_above_log2. apply N.log2_lt_pow2; [lia|].
    eapply N.lt_le_trans; [eassumption|]. apply pow2_le_mono. assumption.
Qed.

Lemma lor_high_low a b k : a < 2 ^ k -> N.lor (b * 2 ^ k) a = b * 2 ^ k + a.
Proof. intros. apply lor_disjoint_add, land_low_high. assumption. Qed.

Lemma lor_low_high a b k : a < 2 ^ k -> N.lor a (b * 2 ^ k) = b * 2 ^ k + a.
Proof. intros. rewrite N.lor_comm. apply lor_high_low. assumption. Qed.

(* round down to a multiple of 2^k inside a w-bit word *)
Lemma land_not_low v k w : k <= w -> v < 2 ^ w ->
  N.land v (2 ^ w - 1 - (2 ^ k - 1)) = v / 2 ^ k * 2 ^ k.
Proof.
  intros Hk Hv.
  replace (2 ^ w - 1 - (2 ^ k - 1)) with (2 ^ w - 2 ^ k).
  2:{ pose proof (pow2_pos k). pose proof (pow2_le_mono k w Hk). lia. }
  rewrite land_range by assumption.
  rewrite N.mod_small; [reflexivity|].
  apply N.div_lt_upper_bound; [apply pow2_nz|].
  rewrite <- N.pow_add_r. replace (k + (w - k)) with w by lia. assumption.
Qed.

Lemma div_mul_le v d : d <> 0 -> v / d * d <= v.
Proof. intros. rewrite N.mul_comm. apply N.mul_div_le. assumption. Qed.

Lemma mod_pow2_lt v n : v mod 2 ^ n < 2 ^ n.
Proof. apply N.mod_lt, pow2_nz. Qed.

Lemma div_pow2_lt v a b : v < 2 ^ (a + b) -> v / 2 ^ a < 2 ^ b.
Proof.
  intros. apply N.div_lt_upper_bound; [apply pow2_nz|]. rewrite <- N.pow_add_r. assumption.
Qed.

Lemma pow2_div_mod_decomp v k : v = v / 2 ^ k * 2 ^ k + v mod 2 ^ k.
Proof. rewrite N.mul_comm. apply N.div_mod, pow2_nz. Qed.

Lemma shiftr_lt x a b : x < 2 ^ (a + b) -> N.shiftr x b < 2 ^ a.
Proof.
  intros. rewrite shiftr_div. apply N.div_lt_upper_bound; [apply pow2_nz|].
  rewrite <- N.pow_add_r. rewrite N.add_comm. assumption.
Qed.

Lemma shiftl_lt x a b : x < 2 ^ a -> N.shiftl x b < 2 ^ (a + b).
Proof.
  intros. rewrite shiftl_mul, N.pow_add_r. apply N.mul_lt_mono_pos_r; [apply pow2_pos|assumption].
Qed.

Lemma land_mask_lt x a : N.land x (2 ^ a - 1) < 2 ^ a.
Proof. rewrite land_pow2m1. apply mod_pow2_lt. Qed.

Lemma shiftl_1 n : N.shiftl 1 n = 2 ^ n.
Proof. rewrite shiftl_mul. lia. Qed.

Lemma pow2_mod_small a w : a < w -> 2 ^ a mod 2 ^ w = 2 ^ a.
Proof. intros. apply N.mod_small, pow2_lt_mono. assumption. Qed.

Lemma mod_pow2_mod_le a m n : n <= m -> (a mod 2 ^ m) mod 2 ^ n = a mod 2 ^ n.
Proof.
  intros H. replace m with (n + (m - n)) by lia. rewrite N.pow_add_r.
  rewrite N.mod_mul_r by apply pow2_nz.
  rewrite (N.mul_comm (2 ^ n)), N.mod_add by apply pow2_nz.
  apply N.mod_mod, pow2_nz.
Qed.

Lemma mod_pow2_mod_ge a m n : m <= n -> (a mod 2 ^ m) mod 2 ^ n = a mod 2 ^ m.
Proof.
  intros H. apply N.mod_small. eapply N.lt_le_trans; [apply mod_pow2_lt|apply pow2_le_mono; assumption].
Qed.

Lemma mod_pow2_min a m n : (a mod 2 ^ m) mod 2 ^ n = a mod 2 ^ (N.min m n).
Proof.
  destruct (N.le_ge_cases n m).
  - rewrite N.min_r by assumption. apply mod_pow2_mod_le. assumption.
  - rewrite N.min_l by assumption. apply mod_pow2_mod_ge. assumption.
Qed.

(* (a mod 2^m) / 2^k = (a / 2^k) mod 2^(m-k) *)
Lemma mod_div_pow2 a m k : k <= m -> (a mod 2 ^ m) / 2 ^ k = (a / 2 ^ k) mod 2 ^ (m - k).
Proof.
  intros H. replace m with (k + (m - k)) at 1 by lia. rewrite N.pow_add_r.
  rewrite N.mod_mul_r by apply pow2_nz.
  rewrite (N.mul_comm (2 ^ k)), N.div_add by apply pow2_nz.
  rewrite N.div_small by apply mod_pow2_lt. reflexivity.
Qed.

Lemma lor_aligned_add x a k : x mod 2 ^ k = 0 -> a < 2 ^ k -> N.lor x a = x + a.
Proof.
  intros Hx Ha. rewrite (pow2_div_mod_decomp x k), Hx, N.add_0_r.
  apply lor_high_low. assumption.
Qed.

Lemma bits_lt v lo n : (v / 2 ^ lo) mod 2 ^ n < 2 ^ n.
Proof. apply mod_pow2_lt. Qed.

Lemma div_step v lo n : v / 2 ^ lo = (v / 2 ^ lo) mod 2 ^ n + 2 ^ n * (v / 2 ^ (lo + n)).
Proof.
  rewrite N.pow_add_r, <- N.div_div by apply pow2_nz.
  rewrite N.add_comm. apply N.div_mod, pow2_nz.
Qed.

Lemma bytes2 v : v < 65536 -> (v / 256) mod 256 * 256 + v mod 256 = v.
Proof.
  intros H.
  pose proof (div_step v 0 8) as E0. pose proof (div_step v 8 8) as E1.
  assert (E2 : v / 2 ^ 16 = 0) by (apply N.div_small; exact H).
  change (0 + 8) with 8 in *. change (8 + 8) with 16 in *.
  change (2 ^ 0) with 1 in *. rewrite !N.div_1_r in E0. change (2 ^ 8) with 256 in *.
  rewrite E2 in E1. remember (v / 256) as q. remember (q mod 256) as r1. remember (v mod 256) as r0. lia.
Qed.

Lemma bytes4 v : v < 4294967296 ->
  (v / 16777216) mod 256 * 16777216 + (v / 65536) mod 256 * 65536 + (v / 256) mod 256 * 256 + v mod 256 = v.
Proof.
  intros H.
  pose proof (div_step v 0 8) as E0. pose proof (div_step v 8 8) as E1.
  pose proof (div_step v 16 8) as E2. pose proof (div_step v 24 8) as E3.
  assert (E4 : v / 2 ^ 32 = 0) by (apply N.div_small; exact H).
  change (0 + 8) with 8 in *. change (8 + 8) with 16 in *. change (16 + 8) with 24 in *. change (24 + 8) with 32 in *.
  change (2 ^ 0) with 1 in *. rewrite !N.div_1_r in E0. change (2 ^ 8) with 256 in *.
  change (2 ^ 16) with 65536 in *. change (2 ^ 24) with 16777216 in *.
  rewrite E4 in E3.
  remember (v / 256) as q1. remember (v / 65536) as q2. remember (v / 16777216) as q3.
  remember (q1 mod 256) as r1. remember (q2 mod 256) as r2. remember (q3 mod 256) as r3. remember (v mod 256) as r0.
  lia.
Qed.

Lemma bytes8 v : v < 18446744073709551616 ->
  (v / 72057594037927936) mod 256 * 72057594037927936 + (v / 281474976710656) mod 256 * 281474976710656
  + (v / 1099511627776) mod 256 * 1099511627776 + (v / 4294967296) mod 256 * 4294967296
  + (v / 16777216) mod 256 * 16777216 + (v / 65536) mod 256 * 65536 + (v / 256) mod 256 * 256 + v mod 256 = v.
Proof.
  intros H.
  pose proof (div_step v 0 8) as E0. pose proof (div_step v 8 8) as E1.
  pose proof (div_step v 16 8) as E2. pose proof (div_step v 24 8) as E3.
  pose proof (div_step v 32 8) as E4. pose proof (div_step v 40 8) as E5.
  pose proof (div_step v 48 8) as E6. pose proof (div_step v 56 8) as E7.
  assert (E8 : v / 2 ^ 64 = 0) by (apply N.div_small; exact H).
  change (0 + 8) with 8 in *. change (8 + 8) with 16 in *. change (16 + 8) with 24 in *. change (24 + 8) with 32 in *.
  change (32 + 8) with 40 in *. change (40 + 8) with 48 in *. change (48 + 8) with 56 in *. change (56 + 8) with 64 in *.
  change (2 ^ 0) with 1 in *. rewrite !N.div_1_r in E0. change (2 ^ 8) with 256 in *.
  change (2 ^ 16) with 65536 in *. change (2 ^ 24) with 16777216 in *. change (2 ^ 32) with 4294967296 in *.
  change (2 ^ 40) with 1099511627776 in *. change (2 ^ 48) with 281474976710656 in *.
  change (2 ^ 56) with 72057594037927936 in *.
  rewrite E8 in E7.
  remember (v / 256) as q1. remember (v / 65536) as q2. remember (v / 16777216) as q3.
  remember (v / 4294967296) as q4. remember (v / 1099511627776) as q5. remember (v / 281474976710656) as q6.
  remember (v / 72057594037927936) as q7.
  remember (q1 mod 256) as r1. remember (q2 mod 256) as r2. remember (q3 mod 256) as r3.
  remember (q4 mod 256) as r4. remember (q5 mod 256) as r5. remember (q6 mod 256) as r6.
  remember (q7 mod 256) as r7. remember (v mod 256) as r0.
  lia.
Qed.
