(* Deep embedding of the pure Rust subset that gen/rs2v.py emits, with its semantics.
   The translator only parses and prints; every semantic decision (integer widths,
   checked arithmetic, shift-amount checks, casts, unwrap) is made here, inside Coq. *)
From Coq Require Import NArith List Bool.
Import ListNotations.
Open Scope N_scope.

Inductive binop := Add | Sub | Mul | Div | Rem | BAnd | BOr | BXor | Shl | Shr.
Inductive cmpop := CEq | CNe | CLt | CLe | CGt | CGe.

Inductive expr :=
| EVar (x : nat)
| EInt (n : N)
| EBool (b : bool)
| EBin (op : binop) (w : N) (a b : expr)     (* arithmetic at an integer type of w bits *)
| ECmp (op : cmpop) (a b : expr)
| EBNot (w : N) (a : expr)                   (* !x on an integer of w bits *)
| ENot (a : expr)                            (* !b on bool *)
| EAndB (a b : expr)
| EOrB (a b : expr)
| ECast (w : N) (a : expr)                   (* `as` to an unsigned type of w bits; bool as int too *)
| EFit (w : N) (a : expr)                    (* try_into().unwrap(): panic unless it fits w bits *)
| EIf (c a b : expr)
| ELet (x : nat) (a b : expr)
| ENone
| ESome (a : expr)
| EIfSome (s : expr) (x : nat) (a b : expr)    (* match s { Some(x) => a, None => b } *)
| EUnwrap (a : expr)                         (* Option::unwrap / Result::unwrap *)
| EUnwrapOr (a d : expr)
| EIsSome (a : expr)
| ETup (l : list expr)
| EProj (i : nat) (a : expr)
| EPanic
| EErr (code : N)
| EOk (a : expr)
| ETry (a : expr) (x : nat) (b : expr)         (* let x = a?; b   (Result) *)
| ECheckedAdd (w : N) (a b : expr)           (* checked_add -> Option *)
| ECheckedSub (a b : expr)
| ECheckedShl (w : N) (a b : expr)           (* 1usize.checked_shl(n) *)
| ESatAdd (w : N) (a b : expr)
| EMin (a b : expr)
| EMax (a b : expr)
| EDivCeil (a b : expr)
| ETrailingZeros (w : N) (a : expr)
| EIndex (a i : expr)                        (* a[i], panics out of range *)
| EUpd (a i v : expr)                        (* functional a[i] = v, panics out of range *)
| EFromBE (n : nat) (a i : expr)             (* uN::from_be_bytes(a[i..i+n]) *)
| EToBE (n : nat) (a i v : expr)             (* a[i..i+n] = v.to_be_bytes() *)
| ECall (body : expr) (args : list expr).    (* call of another translated function: parameter k is variable k *)

Inductive value :=
| VInt (n : N)
| VBool (b : bool)
| VOpt (o : option value)
| VTup (l : list value)
| VRes (r : value + N)
| VList (l : list N).

Inductive res :=
| Ret (v : value)
| Panic                 (* unwrap on None/Err, assert, index out of range, explicit panic *)
| Overflow              (* arithmetic overflow / shift amount out of range *)
| TypeErr.              (* ill-typed program: translator bug, never an outcome of real code *)

Definition env := nat -> value.
Definition env_set (e : env) (x : nat) (v : value) : env :=
  fun y => if Nat.eqb y x then v else e y.
Definition env0 : env := fun _ => VTup [].

Definition bind (r : res) (k : value -> res) : res :=
  match r with Ret v => k v | Panic => Panic | Overflow => Overflow | TypeErr => TypeErr end.

Definition as_int (v : value) (k : N -> res) : res :=
  match v with VInt n => k n | VBool b => k (if b then 1 else 0) | _ => TypeErr end.
Definition as_bool (v : value) (k : bool -> res) : res :=
  match v with VBool b => k b | _ => TypeErr end.

Definition pow2 (w : N) : N := 2 ^ w.

Definition bin (op : binop) (w a b : N) : res :=
  match op with
  | Add => if a + b <? pow2 w then Ret (VInt (a + b)) else Overflow
  | Sub => if b <=? a then Ret (VInt (a - b)) else Overflow
  | Mul => if a * b <? pow2 w then Ret (VInt (a * b)) else Overflow
  | Div => if b =? 0 then Panic else Ret (VInt (a / b))
  | Rem => if b =? 0 then Panic else Ret (VInt (a mod b))
  | BAnd => Ret (VInt (N.land a b))
  | BOr => Ret (VInt (N.lor a b))
  | BXor => Ret (VInt (N.lxor a b))
  | Shl => if b <? w then Ret (VInt (N.shiftl a b mod pow2 w)) else Overflow
  | Shr => if b <? w then Ret (VInt (N.shiftr a b)) else Overflow
  end.

Definition cmp (op : cmpop) (a b : N) : bool :=
  match op with
  | CEq => a =? b | CNe => negb (a =? b)
  | CLt => a <? b | CLe => a <=? b | CGt => b <? a | CGe => b <=? a
  end.

Fixpoint tz_pos (p : positive) : N :=
  match p with xO q => 1 + tz_pos q | _ => 0 end.
Definition trailing_zeros (w n : N) : N :=
  match n with 0 => w | Npos p => tz_pos p end.

Fixpoint be_val (l : list N) : N :=
  match l with [] => 0 | b :: t => b * 256 ^ N.of_nat (length t) + be_val t end.
Fixpoint be_bytes (n : nat) (v : N) : list N :=
  match n with O => [] | S k => (v / 256 ^ N.of_nat k) mod 256 :: be_bytes k v end.
Fixpoint list_upd (l : list N) (i : nat) (v : N) : list N :=
  match l, i with
  | [], _ => []
  | _ :: t, O => v :: t
  | h :: t, S k => h :: list_upd t k v
  end.
Fixpoint list_upds (l : list N) (i : nat) (vs : list N) : list N :=
  match vs with [] => l | v :: t => list_upds (list_upd l i v) (S i) t end.

(* calling convention: parameter i of a translated function is variable i *)
Fixpoint env_of (args : list value) (i : nat) : env :=
  match args with
  | [] => env0
  | v :: t => env_set (env_of t (S i)) i v
  end.
(* same function under a second name: the evaluator uses it for callees, so that the
   reduction tactic below leaves [eval (env_of_c vs 0) callee] = [call callee vs] folded *)
Definition env_of_c := env_of.

Fixpoint eval (e : env) (x : expr) {struct x} : res :=
  let eval_list := fix eval_list (l : list expr) : option (list value) + res :=
    match l with
    | [] => inl (Some [])
    | a :: t =>
        match eval e a with
        | Ret v => match eval_list t with
                   | inl (Some vs) => inl (Some (v :: vs))
                   | other => other
                   end
        | r => inr r
        end
    end in
  match x with
  | EVar v => Ret (e v)
  | EInt n => Ret (VInt n)
  | EBool b => Ret (VBool b)
  | EBin op w a b =>
      bind (eval e a) (fun va => bind (eval e b) (fun vb =>
        as_int va (fun na => as_int vb (fun nb => bin op w na nb))))
  | ECmp op a b =>
      bind (eval e a) (fun va => bind (eval e b) (fun vb =>
        as_int va (fun na => as_int vb (fun nb => Ret (VBool (cmp op na nb))))))
  | EBNot w a => bind (eval e a) (fun va => as_int va (fun n => Ret (VInt (pow2 w - 1 - n))))
  | ENot a => bind (eval e a) (fun va => as_bool va (fun b => Ret (VBool (negb b))))
  | EAndB a b => bind (eval e a) (fun va => as_bool va (fun ba =>
      if ba then eval e b else Ret (VBool false)))
  | EOrB a b => bind (eval e a) (fun va => as_bool va (fun ba =>
      if ba then Ret (VBool true) else eval e b))
  | ECast w a => bind (eval e a) (fun va => as_int va (fun n => Ret (VInt (n mod pow2 w))))
  | EFit w a => bind (eval e a) (fun va => as_int va (fun n =>
      if n <? pow2 w then Ret (VInt n) else Panic))
  | EIf c a b => bind (eval e c) (fun vc => as_bool vc (fun bc => if bc then eval e a else eval e b))
  | ELet v a b => bind (eval e a) (fun va => eval (env_set e v va) b)
  | ENone => Ret (VOpt None)
  | ESome a => bind (eval e a) (fun va => Ret (VOpt (Some va)))
  | EIfSome s v a b => bind (eval e s) (fun vs =>
      match vs with
      | VOpt (Some y) => eval (env_set e v y) a
      | VOpt None => eval e b
      | _ => TypeErr
      end)
  | EUnwrap a => bind (eval e a) (fun va =>
      match va with
      | VOpt (Some y) => Ret y | VOpt None => Panic
      | VRes (inl y) => Ret y | VRes (inr _) => Panic
      | _ => TypeErr end)
  | EUnwrapOr a d => bind (eval e a) (fun va =>
      match va with
      | VOpt (Some y) => Ret y | VOpt None => eval e d
      | _ => TypeErr end)
  | EIsSome a => bind (eval e a) (fun va =>
      match va with VOpt (Some _) => Ret (VBool true) | VOpt None => Ret (VBool false) | _ => TypeErr end)
  | ETup l => match eval_list l with
              | inl (Some vs) => Ret (VTup vs)
              | inl None => TypeErr
              | inr r => r
              end
  | EProj i a => bind (eval e a) (fun va =>
      match va with VTup l => match nth_error l i with Some y => Ret y | None => TypeErr end
      | _ => TypeErr end)
  | EPanic => Panic
  | EErr c => Ret (VRes (inr c))
  | EOk a => bind (eval e a) (fun va => Ret (VRes (inl va)))
  | ETry a v b => bind (eval e a) (fun va =>
      match va with
      | VRes (inl y) => eval (env_set e v y) b
      | VRes (inr c) => Ret (VRes (inr c))
      | _ => TypeErr end)
  | ECheckedAdd w a b =>
      bind (eval e a) (fun va => bind (eval e b) (fun vb =>
        as_int va (fun na => as_int vb (fun nb =>
          Ret (VOpt (if na + nb <? pow2 w then Some (VInt (na + nb)) else None))))))
  | ECheckedSub a b =>
      bind (eval e a) (fun va => bind (eval e b) (fun vb =>
        as_int va (fun na => as_int vb (fun nb =>
          Ret (VOpt (if nb <=? na then Some (VInt (na - nb)) else None))))))
  | ECheckedShl w a b =>
      bind (eval e a) (fun va => bind (eval e b) (fun vb =>
        as_int va (fun na => as_int vb (fun nb =>
          Ret (VOpt (if nb <? w then Some (VInt (N.shiftl na nb mod pow2 w)) else None))))))
  | ESatAdd w a b =>
      bind (eval e a) (fun va => bind (eval e b) (fun vb =>
        as_int va (fun na => as_int vb (fun nb =>
          Ret (VInt (N.min (na + nb) (pow2 w - 1)))))))
  | EMin a b =>
      bind (eval e a) (fun va => bind (eval e b) (fun vb =>
        as_int va (fun na => as_int vb (fun nb => Ret (VInt (N.min na nb))))))
  | EMax a b =>
      bind (eval e a) (fun va => bind (eval e b) (fun vb =>
        as_int va (fun na => as_int vb (fun nb => Ret (VInt (N.max na nb))))))
  | EDivCeil a b =>
      bind (eval e a) (fun va => bind (eval e b) (fun vb =>
        as_int va (fun na => as_int vb (fun nb =>
          if nb =? 0 then Panic else Ret (VInt ((na + nb - 1) / nb))))))
  | ETrailingZeros w a => bind (eval e a) (fun va => as_int va (fun n => Ret (VInt (trailing_zeros w n))))
  | EIndex a i =>
      bind (eval e a) (fun va => bind (eval e i) (fun vi =>
        match va with
        | VList l => as_int vi (fun n => match nth_error l (N.to_nat n) with
                                         | Some y => Ret (VInt y) | None => Panic end)
        | _ => TypeErr end))
  | EUpd a i v =>
      bind (eval e a) (fun va => bind (eval e i) (fun vi => bind (eval e v) (fun vv =>
        match va with
        | VList l => as_int vi (fun n => as_int vv (fun y =>
            if n <? N.of_nat (length l) then Ret (VList (list_upd l (N.to_nat n) y)) else Panic))
        | _ => TypeErr end)))
  | EFromBE k a i =>
      bind (eval e a) (fun va => bind (eval e i) (fun vi =>
        match va with
        | VList l => as_int vi (fun n =>
            if n + N.of_nat k <=? N.of_nat (length l)
            then Ret (VInt (be_val (firstn k (skipn (N.to_nat n) l)))) else Panic)
        | _ => TypeErr end))
  | EToBE k a i v =>
      bind (eval e a) (fun va => bind (eval e i) (fun vi => bind (eval e v) (fun vv =>
        match va with
        | VList l => as_int vi (fun n => as_int vv (fun y =>
            if n + N.of_nat k <=? N.of_nat (length l)
            then Ret (VList (list_upds l (N.to_nat n) (be_bytes k y))) else Panic))
        | _ => TypeErr end)))
  | ECall body args =>
      match eval_list args with
      | inl (Some vs) => eval (env_of_c vs O) body
      | inl None => TypeErr
      | inr r => r
      end
  end.

Definition call (body : expr) (args : list value) : res := eval (env_of args O) body.

(* the reduction used to turn [call ast args] into a closed arithmetic term: cbn unfolds
   [eval] only on constructors, so a symbolic overflow test simply stays in the term *)
Ltac rexpr_cbn :=
  cbn [call eval env_of env_set env0 bind as_int as_bool bin cmp Nat.eqb nth_error negb andb orb option_map].

(* closed-literal folding: the evaluator leaves tests such as [62 <? 64] and constants such
   as [N.shiftl 1 62 mod 2 ^ 64] in the term; fold them without touching symbolic parts *)
Ltac is_pos_lit p :=
  lazymatch p with
  | xH => idtac
  | xO ?q => is_pos_lit q
  | xI ?q => is_pos_lit q
  end.
Ltac is_N_lit n :=
  lazymatch n with
  | N0 => idtac
  | Npos ?p => is_pos_lit p
  end.
Ltac fold_lit2 f a b :=
  is_N_lit a; is_N_lit b;
  let r := eval vm_compute in (f a b) in change (f a b) with r.
Ltac fold_lits :=
  repeat match goal with
  | |- context [N.ltb ?a ?b] => fold_lit2 N.ltb a b
  | |- context [N.leb ?a ?b] => fold_lit2 N.leb a b
  | |- context [N.eqb ?a ?b] => fold_lit2 N.eqb a b
  | |- context [N.shiftl ?a ?b] => fold_lit2 N.shiftl a b
  | |- context [N.shiftr ?a ?b] => fold_lit2 N.shiftr a b
  | |- context [N.pow ?a ?b] => fold_lit2 N.pow a b
  | |- context [N.modulo ?a ?b] => fold_lit2 N.modulo a b
  | |- context [N.div ?a ?b] => fold_lit2 N.div a b
  | |- context [N.add ?a ?b] => fold_lit2 N.add a b
  | |- context [N.sub ?a ?b] => fold_lit2 N.sub a b
  | |- context [N.mul ?a ?b] => fold_lit2 N.mul a b
  end.
Ltac fold_calls :=
  repeat match goal with
  | |- context [eval (env_of_c ?vs O) ?g] => change (eval (env_of_c vs O) g) with (call g vs)
  end.
Ltac rx := repeat (progress (rexpr_cbn; unfold pow2; fold_lits)); fold_calls.

(* decidable equality on values/results: used by the correspondence check to compare what the
   evaluator computes with what the real code returned *)
Fixpoint list_N_eqb (a b : list N) : bool :=
  match a, b with
  | [], [] => true
  | x :: s, y :: t => N.eqb x y && list_N_eqb s t
  | _, _ => false
  end.

Fixpoint value_eqb (a b : value) {struct a} : bool :=
  let fix vl (l1 l2 : list value) {struct l1} : bool :=
    match l1, l2 with
    | [], [] => true
    | x :: s, y :: t => value_eqb x y && vl s t
    | _, _ => false
    end in
  match a, b with
  | VInt x, VInt y => N.eqb x y
  | VBool x, VBool y => Bool.eqb x y
  | VOpt None, VOpt None => true
  | VOpt (Some x), VOpt (Some y) => value_eqb x y
  | VTup l1, VTup l2 => vl l1 l2
  | VRes (inl x), VRes (inl y) => value_eqb x y
  | VRes (inr x), VRes (inr y) => true      (* error codes are site numbers: not compared *)
  | VList l1, VList l2 => list_N_eqb l1 l2
  | _, _ => false
  end.

Definition res_eqb (a b : res) : bool :=
  match a, b with
  | Ret x, Ret y => value_eqb x y
  | Panic, Panic => true
  | Overflow, Overflow => true
  | Overflow, Panic => true     (* a debug build turns overflow into a panic *)
  | TypeErr, TypeErr => true
  | _, _ => false
  end.

(* indices of the cases on which evaluator and implementation disagree *)
Fixpoint mismatches (k : N) (l : list (res * res)) : list N :=
  match l with
  | [] => []
  | (a, b) :: t => if res_eqb a b then mismatches (k + 1) t else k :: mismatches (k + 1) t
  end.
