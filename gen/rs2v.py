#!/usr/bin/env python3
"""rs2v: regenerate coq/Gen/GenCodec.v from /repo's sources (tie A).

For every function in TARGETS the Rust body is parsed (rsparse.py) and printed as a term of
the deep embedding Q.Base.RExpr.expr.  No semantics is decided here beyond
  * the static integer type (hence width) at which each arithmetic node operates,
  * inlining of calls to other translated functions,
  * SSA-renaming of `let mut` variables.
Overflow checks, shift checks, casts, unwrap: all in RExpr.eval (Coq)."""
import sys, os, json, re, hashlib
sys.path.insert(0, os.path.dirname(os.path.abspath(__file__)))
from rsparse import *

REPO = os.environ.get('QCOW2_REPO', '/repo')

INT = {'u8': 8, 'u16': 16, 'u32': 32, 'u64': 64, 'usize': 64, 'i32': 32, 'i64': 64}


class Untranslatable(Exception):
    pass


def width(t):
    if isinstance(t, tuple) and t[0] == 'nt':
        t = t[2]
    if t in INT:
        return INT[t]
    return None


def is_int(t):
    return t == 'lit' or width(t) is not None


class World:
    def __init__(self):
        self.src = {}
        for f in ['meta/l1.rs', 'meta/l2.rs', 'meta/refcount.rs', 'meta/addr.rs', 'meta/table.rs',
                  'dev/info.rs', 'dev/alloc.rs', 'dev/cache.rs', 'helpers.rs', 'dev/read.rs',
                  'dev/write.rs', 'dev/discard.rs', 'meta/header.rs']:
            self.src[f] = open(os.path.join(REPO, 'src', f)).read()
        self.fn_cache = {}
        self.defined = {}
        self.in_progress = set()
        self.defs = []
        # struct layouts, parsed from the source
        self.structs = {}
        self.structs['Qcow2Info'] = [(n, self.norm_type(t)) for n, t in parse_struct_fields(self.src['dev/info.rs'], 'Qcow2Info')]
        self.structs['Mapping'] = [(n, self.norm_type(t)) for n, t in parse_struct_fields(self.src['meta/l2.rs'], 'Mapping')]
        # views of foreign objects (only the observations the translated code makes)
        self.structs['HeaderView'] = [('cluster_bits', 'u32'), ('refcount_order', 'u32'), ('size', 'u64'), ('has_backing', 'bool')]
        self.structs['ParamsView'] = [('bs_shift', 'u8'), ('rb_cache', ('opt', ('tup', ('u8', 'usize')))),
                                      ('l2_cache', ('opt', ('tup', ('u8', 'usize')))), ('read_only', 'bool'), ('backing', 'bool')]
        self.structs['RefBlock'] = [('raw_data', 'bytes'), ('refcount_order', 'u8')]
        self.enums = {'MappingSource': self.parse_enum(self.src['meta/l2.rs'], 'MappingSource')}
        self.consts = {
            ('Qcow2Info', 'READ_ONLY'): (1, 'u16'), ('Qcow2Info', 'HAS_BACK_FILE'): (2, 'u16'), ('Qcow2Info', 'BACK_FILE'): (4, 'u16'),
            ('Qcow2Header', 'MAX_L1_SIZE'): (32 << 20, 'u32'), ('Qcow2Header', 'MAX_CLUSTER_SIZE'): (2 << 20, 'u32'),
            ('Qcow2Header', 'MAX_REFCOUNT_TABLE_SIZE'): (8 << 20, 'u32'),
        }
        self.check_consts()
        self.newtypes = {'L1Entry': 'u64', 'L2Entry': 'u64', 'RefTableEntry': 'u64', 'RefBlockEntry': 'u64',
                         'SplitGuestOffset': 'u64', 'HostCluster': 'u64'}
        self.impl_file = {'L1Entry': 'meta/l1.rs', 'L2Entry': 'meta/l2.rs', 'Mapping': 'meta/l2.rs',
                          'RefTableEntry': 'meta/refcount.rs', 'RefBlock': 'meta/refcount.rs', 'RefBlockEntry': 'meta/refcount.rs',
                          'SplitGuestOffset': 'meta/addr.rs', 'HostCluster': 'dev/alloc.rs',
                          'Qcow2Info': 'dev/info.rs', 'IntAlignment': 'helpers.rs', 'Qcow2Dev': 'dev/cache.rs'}
        self.impl_marker = {'L1Entry': 'impl L1Entry', 'L2Entry': 'impl L2Entry', 'Mapping': 'impl Mapping {',
                            'RefTableEntry': 'impl RefTableEntry', 'RefBlock': 'impl RefBlock {', 'RefBlockEntry': 'impl RefBlockEntry',
                            'SplitGuestOffset': 'impl SplitGuestOffset', 'HostCluster': 'impl HostCluster',
                            'Qcow2Info': 'impl Qcow2Info', 'IntAlignment': 'macro_rules! impl_int_alignment_for_primitive',
                            'Qcow2Dev': 'impl<T: Qcow2IoOps> Qcow2Dev<T>'}

    def check_consts(self):
        s = self.src['dev/info.rs']
        for nm, (v, _) in [('READ_ONLY', (1, 0)), ('HAS_BACK_FILE', (2, 0)), ('BACK_FILE', (4, 0))]:
            m = re.search(r'const %s: u16 = 1 << (\d+);' % nm, s)
            if not m or (1 << int(m.group(1))) != v:
                raise Untranslatable('flag constant %s changed' % nm)
            self.consts[('Qcow2Info', nm)] = (1 << int(m.group(1)), 'u16')
        h = self.src['meta/header.rs']
        for nm in ['MAX_CLUSTER_SIZE', 'MAX_L1_SIZE', 'MAX_REFCOUNT_TABLE_SIZE']:
            m = re.search(r'pub const %s: u32 = (\d+)_u32 << (\d+);' % nm, h)
            if not m:
                raise Untranslatable('constant %s not found' % nm)
            self.consts[('Qcow2Header', nm)] = (int(m.group(1)) << int(m.group(2)), 'u32')

    def parse_enum(self, src, name):
        m = re.search(r'enum\s+' + name + r'\s*\{(.*?)\n\}', src, re.S)
        body = re.sub(r'//[^\n]*', '', m.group(1))
        return [x.strip() for x in body.split(',') if x.strip()]

    def norm_type(self, t):
        if isinstance(t, tuple):
            return t
        t = t.strip()
        t = t.lstrip('&').strip()
        if t.startswith('mut '):
            t = t[4:].strip()
        t = re.sub(r'^(crate::meta::|crate::dev::|super::|Self::)', '', t)
        if t in INT or t == 'bool':
            return t
        m = re.match(r'^Option<(.*)>$', t)
        if m:
            return ('opt', self.norm_type(m.group(1)))
        m = re.match(r'^Qcow2Result<(.*)>$', t)
        if m:
            return ('res', self.norm_type(m.group(1)))
        if t.startswith('(') and t.endswith(')'):
            inner = t[1:-1]
            if inner.strip() == '':
                return 'unit'
            return ('tup', tuple(self.norm_type(x) for x in split_top(inner, ',') if x.strip()))
        if t in ('L1Entry', 'L2Entry', 'RefTableEntry', 'RefBlockEntry', 'SplitGuestOffset', 'HostCluster'):
            return ('nt', t, 'u64')
        if t in ('Qcow2Info', 'Mapping', 'RefBlock'):
            return ('struct', t)
        if t == 'MappingSource':
            return ('enum', t)
        if t == 'Qcow2Header':
            return ('struct', 'HeaderView')
        if t == 'Qcow2DevParams':
            return ('struct', 'ParamsView')
        if t in ('[u8]', 'mut[u8]', 'mut [u8]'):
            return 'slice'
        if t == 'Self':
            return 'Self'
        if t == 'T':
            return 'Self'
        raise Untranslatable('type ' + t)

    def define(self, owner, name, outvars=None):
        key = (owner, name)
        if key in self.defined:
            return self.defined[key]
        if key in self.in_progress:
            raise Untranslatable('recursive call %s::%s' % key)
        self.in_progress.add(key)
        try:
            fn = self.get_fn(owner, name)
            cname = 'g_%s_%s' % (owner, name.strip('_'))
            if outvars is None and key == ('RefBlock', '__set'):
                outvars = [('raw_data', ('field', ('path', ['self']), 'raw_data'))]
            ast, args, ret = tr_fn(self, fn, owner, cname, outvars=outvars)
        finally:
            self.in_progress.discard(key)
        self.defs.append((cname, '%s::%s' % (owner, name), args, ret, ast, fn['text']))
        self.defined[key] = (cname, args, ret)
        return self.defined[key]

    def define_local(self, fn, owner, top_name):
        key = ('local', top_name, fn['name'])
        if key in self.defined:
            return self.defined[key]
        cname = '%s__%s' % (top_name, fn['name'])
        ast, args, ret = tr_fn(self, fn, owner, cname)
        self.defs.append((cname, '%s (nested fn %s)' % (top_name, fn['name']), args, ret, ast, ''))
        self.defined[key] = (cname, args, ret)
        return self.defined[key]

    def get_fn(self, owner, name):
        key = (owner, name)
        if key in self.fn_cache:
            return self.fn_cache[key]
        f = self.impl_file[owner]
        text = find_fn_source(self.src[f], name, after=self.impl_marker[owner])
        if owner == 'IntAlignment':
            text = text.replace('$type', 'u64')
        fn = parse_fn_text(text)
        fn['owner'] = owner
        fn['text'] = text
        self.fn_cache[key] = fn
        return fn


class Tr:
    """translation of one top-level function (with inlined callees)"""

    def __init__(self, world):
        self.w = world
        self.next_id = 0
        self.depth = 0
        self.err_sites = 0

    def fresh(self):
        i = self.next_id
        self.next_id += 1
        return i

    # ---------- types of receivers ----------
    def owner_of(self, t):
        if isinstance(t, tuple):
            if t[0] == 'nt':
                return t[1]
            if t[0] == 'struct':
                return t[1]
        return None

    # ---------- expressions ----------
    def lit_check(self, n, t):
        w = width(t)
        if w is not None and n >= (1 << w):
            raise Untranslatable('literal %d does not fit %s' % (n, t))

    def coerce_lit(self, ast, t, want):
        """a literal adopts the type the context wants"""
        if t == 'lit' and want is not None and is_int(want) and want != 'lit':
            return ast, want
        return ast, t

    def expr(self, e, env, want=None):
        """returns (ast, type)"""
        k = e[0]
        if k == 'paren':
            return self.expr(e[1], env, want)
        if k == 'int':
            n, ty = e[1], e[2]
            if ty:
                self.lit_check(n, ty)
                return ('EInt', n), ty
            if want is not None and is_int(want) and want != 'lit':
                self.lit_check(n, want)
                return ('EInt', n), want
            return ('EInt', n), 'lit'
        if k == 'path':
            p = e[1]
            if len(p) == 1:
                nm = p[0]
                if nm in env:
                    b = env[nm]
                    if b[0] == 'var':
                        return ('EVar', b[1]), b[2]
                    if b[0] == 'alias':
                        return b[1], b[2]
                if nm == 'true':
                    return ('EBool', True), 'bool'
                if nm == 'false':
                    return ('EBool', False), 'bool'
                if nm == 'None':
                    return ('ENone',), ('opt', want[1] if isinstance(want, tuple) and want[0] == 'opt' else 'lit')
                raise Untranslatable('unbound ' + nm)
            if len(p) == 2 and p[0] in self.w.enums:
                return ('EInt', self.w.enums[p[0]].index(p[1])), ('enum', p[0])
            if len(p) == 2 and p[0] == 'Self' and env.get('$Self'):
                p = [env['$Self'], p[1]]
            if len(p) == 2 and (p[0], p[1]) in self.w.consts:
                n, ty = self.w.consts[(p[0], p[1])]
                return ('EInt', n), ty
            if p[-1] == 'MAX' and p[0] in INT:
                return ('EInt', (1 << INT[p[0]]) - 1), p[0]
            raise Untranslatable('path ' + '::'.join(p))
        if k == 'tuple':
            if not e[1]:
                return ('ETup', []), 'unit'
            wants = want[1] if isinstance(want, tuple) and want[0] == 'tup' else [None] * len(e[1])
            parts = [self.expr(x, env, w_) for x, w_ in zip(e[1], wants)]
            return ('ETup', [a for a, _ in parts]), ('tup', tuple(t for _, t in parts))
        if k == 'not':
            a, t = self.expr(e[1], env, want)
            if t == 'bool':
                return ('ENot', a), 'bool'
            if t == 'lit':
                raise Untranslatable('bitwise not of an untyped literal')
            return ('EBNot', width(t), a), t
        if k == 'cast':
            tgt = self.w.norm_type(e[1])
            a, t = self.expr(e[2], env, None)
            if t == 'lit':
                self.lit_check(a[1] if a[0] == 'EInt' else 0, tgt)
                return a, tgt
            if isinstance(t, tuple) and t[0] == 'enum':
                t = 'u8'
            if not (is_int(t) or t == 'bool'):
                raise Untranslatable('cast of %s' % (t,))
            if t != 'bool' and width(t) <= width(tgt):
                return a, tgt  # widening: value unchanged
            return ('ECast', width(tgt), a), tgt
        if k == 'bin':
            return self.binop(e, env, want)
        if k == 'field':
            return self.field(e, env)
        if k == 'mcall':
            return self.mcall(e, env, want)
        if k == 'call':
            return self.call(e, env, want)
        if k == 'if':
            return self.if_expr(e, env, want)
        if k == 'iflet':
            return self.iflet_expr(e, env, want)
        if k == 'match':
            return self.match_expr(e, env, want)
        if k == 'block':
            return self.block_value(e, env, want)
        if k == 'struct':
            name = e[1][-1]
            if name == 'Self':
                name = env['$Self']
            fields = dict(e[2])
            layout = self.w.structs[name]
            parts = []
            for fn_, ft in layout:
                if fn_ not in fields:
                    raise Untranslatable('struct literal %s lacks %s' % (name, fn_))
                a, t = self.expr(fields[fn_], env, ft)
                a, t = self.conv(a, t, ft)
                parts.append(a)
            if set(fields) - set(n for n, _ in layout):
                raise Untranslatable('struct literal %s: unknown fields' % name)
            return ('ETup', parts), ('struct', name)
        if k == 'index':
            a, t = self.expr(e[1], env)
            i, ti = self.expr(e[2], env, 'usize')
            if t != 'bytes':
                raise Untranslatable('index into %s' % (t,))
            return ('EIndex', a, i), 'u8'
        if k == 'macro':
            nm = e[1][-1]
            if nm in ('unreachable', 'panic', 'unimplemented', 'todo'):
                return ('EPanic',), want or 'never'
            if nm == 'format':
                return ('EInt', 0), 'str'
            raise Untranslatable('macro ' + nm)
        if k == 'str':
            return ('EInt', 0), 'str'
        if k == 'try':
            raise Untranslatable('`?` in expression position')
        if k == 'return':
            raise Untranslatable('return in expression position')
        raise Untranslatable('expr kind ' + k)

    def conv(self, a, t, want):
        """adapt literal / newtype to expected type; no checks otherwise"""
        if t == 'lit' and is_int(want):
            if a[0] == 'EInt':
                self.lit_check(a[1], want)
            return a, want
        return a, t

    def binop(self, e, env, want):
        op, l, r = e[1], e[2], e[3]
        if op in ('&&', '||'):
            a, ta = self.expr(l, env, 'bool')
            b, tb = self.expr(r, env, 'bool')
            return (('EAndB' if op == '&&' else 'EOrB'), a, b), 'bool'
        if op in ('==', '!=', '<', '<=', '>', '>='):
            # Option compared with Some(literal)
            if r[0] == 'call' and r[1] == ('path', ['Some']) and op in ('==', '!='):
                a, ta = self.expr(l, env)
                if not (isinstance(ta, tuple) and ta[0] == 'opt'):
                    raise Untranslatable('compare non-option with Some')
                x = self.fresh()
                inner_env = dict(env)
                inner_env['$cmp'] = ('var', x, ta[1])
                cmp_ast, _ = self.binop(('bin', op, ('path', ['$cmp']), r[2][0]), inner_env, None)
                return ('EIfSome', a, x, cmp_ast, ('EBool', op == '!=')), 'bool'
            a, ta = self.expr(l, env)
            b, tb = self.expr(r, env, ta if ta != 'lit' else None)
            if ta == 'lit' and tb != 'lit':
                a, ta = self.expr(l, env, tb)
            if ta == 'bool' and tb == 'bool':
                if op == '==':
                    return ('ENot', ('ECmp', 'CNe', a, b)), 'bool'
                if op == '!=':
                    return ('ECmp', 'CNe', a, b), 'bool'
            for t in (ta, tb):
                if not (is_int(t) or (isinstance(t, tuple) and t[0] == 'enum')):
                    raise Untranslatable('compare %s' % (t,))
            c = {'==': 'CEq', '!=': 'CNe', '<': 'CLt', '<=': 'CLe', '>': 'CGt', '>=': 'CGe'}[op]
            return ('ECmp', c, a, b), 'bool'
        opn = {'+': 'Add', '-': 'Sub', '*': 'Mul', '/': 'Div', '%': 'Rem', '&': 'BAnd', '|': 'BOr', '^': 'BXor',
               '<<': 'Shl', '>>': 'Shr'}[op]
        if op in ('<<', '>>'):
            a, ta = self.expr(l, env, want)
            b, tb = self.expr(r, env, None)
            if ta == 'lit':
                dflt = getattr(self, 'lit_default', None)
                if dflt is None:
                    raise Untranslatable('shift of untyped literal')
                ta = dflt
            if isinstance(ta, tuple) and ta[0] == 'nt':
                ta = ta[2]
            return ('EBin', opn, width(ta), a, b), ta
        a, ta = self.expr(l, env, want)
        b, tb = self.expr(r, env, ta if ta != 'lit' else want)
        if ta == 'lit' and tb != 'lit':
            a, ta = self.expr(l, env, tb)
        if ta == 'bool' and tb == 'bool' and op in ('&', '|', '^'):
            if op == '&':
                return ('EAndB', a, b), 'bool'
            if op == '|':
                return ('EOrB', a, b), 'bool'
        if isinstance(ta, tuple) and ta[0] == 'nt':
            ta = ta[2]
        if isinstance(tb, tuple) and tb[0] == 'nt':
            tb = tb[2]
        if ta == 'lit' and tb == 'lit':
            # constant folding of literal arithmetic is left to Coq at 64 bits
            ta = tb = 'u64' if want in (None, 'lit') or not is_int(want) else want
        if not (is_int(ta) and is_int(tb)):
            raise Untranslatable('arith on %s, %s' % (ta, tb))
        if width(ta) != width(tb):
            raise Untranslatable('arith width mismatch %s %s in %s' % (ta, tb, op))
        return ('EBin', opn, width(ta), a, b), ta

    def field(self, e, env):
        base, name = e[1], e[2]
        a, t = self.expr(base, env)
        if isinstance(t, tuple) and t[0] == 'nt' and name == '0':
            return a, t[2]
        if isinstance(t, tuple) and t[0] == 'struct':
            layout = self.w.structs[t[1]]
            for i, (fn_, ft) in enumerate(layout):
                if fn_ == name:
                    return ('EProj', i, a), ft
            raise Untranslatable('no field %s in %s' % (name, t[1]))
        if isinstance(t, tuple) and t[0] == 'tup' and name.isdigit():
            return ('EProj', int(name), a), t[1][int(name)]
        raise Untranslatable('field %s of %s' % (name, t))

    def closure_body(self, c, env, params, want=None):
        if c[0] != 'closure':
            raise Untranslatable('expected closure')
        inner = dict(env)
        for pat, (vid, vt) in zip(c[1], params):
            if pat[0] == 'pvar':
                inner[pat[1]] = ('var', vid, vt)
        return self.expr(c[2], inner, want)

    def mcall(self, e, env, want):
        recv, name, args = e[1], e[2], e[3]
        # ---- library idioms on any receiver ----
        if name == 'into' and not args:
            return self.expr(recv, env, want)
        if name in ('clone', 'as_ref', 'as_deref_mut', 'to_owned'):
            return self.expr(recv, env, want)
        if name == 'unwrap' and not args:
            # x.try_into().unwrap()
            if recv[0] == 'mcall' and recv[2] == 'try_into':
                a, t = self.expr(recv[1], env)
                if want is None or not is_int(want) or want == 'lit':
                    raise Untranslatable('try_into target unknown')
                if t == 'bytes':
                    return a, 'bytes'
                if width(t) is not None and width(t) <= width(want):
                    return a, want
                return ('EFit', width(want), a), want
            # align_up(x).unwrap() etc.
            a, t = self.expr(recv, env, ('opt', want) if want else None)
            if isinstance(t, tuple) and t[0] in ('opt', 'res'):
                return ('EUnwrap', a), t[1]
            raise Untranslatable('unwrap of %s' % (t,))
        if name == 'unwrap_or':
            a, t = self.expr(recv, env)
            d, td = self.expr(args[0], env, t[1] if isinstance(t, tuple) else None)
            return ('EUnwrapOr', a, d), (t[1] if t[1] != 'lit' else td)
        if name == 'is_some':
            a, t = self.expr(recv, env)
            if t == 'bool' and recv[0] == 'mcall' and recv[2] == 'backing_filename':
                return a, 'bool'
            return ('EIsSome', a), 'bool'
        if name == 'is_none':
            a, t = self.expr(recv, env)
            return ('ENot', ('EIsSome', a)), 'bool'
        if name == 'then':
            c, _ = self.expr(recv, env, 'bool')
            b, tb = self.closure_body(args[0], env, [], want[1] if isinstance(want, tuple) and want[0] == 'opt' else None)
            return ('EIf', c, ('ESome', b), ('ENone',)), ('opt', tb)
        if name == 'map':
            a, t = self.expr(recv, env)
            if not (isinstance(t, tuple) and t[0] == 'opt'):
                raise Untranslatable('map on %s' % (t,))
            x = self.fresh()
            b, tb = self.closure_body(args[0], env, [(x, t[1])])
            return ('EIfSome', a, x, ('ESome', b), ('ENone',)), ('opt', tb)
        if name in ('checked_add', 'checked_sub', 'saturating_add', 'checked_shl'):
            a, t = self.expr(recv, env)
            b, tb = self.expr(args[0], env, t if name != 'checked_shl' else None)
            if isinstance(t, tuple) and t[0] == 'nt':
                t = t[2]
            if name == 'checked_add':
                return ('ECheckedAdd', width(t), a, b), ('opt', t)
            if name == 'checked_sub':
                return ('ECheckedSub', a, b), ('opt', t)
            if name == 'checked_shl':
                return ('ECheckedShl', width(t), a, b), ('opt', t)
            return ('ESatAdd', width(t), a, b), t
        if name in ('min', 'max'):
            a, t = self.expr(recv, env)
            b, tb = self.expr(args[0], env, t)
            return (('EMin' if name == 'min' else 'EMax'), a, b), t
        if name == 'div_ceil':
            a, t = self.expr(recv, env)
            b, tb = self.expr(args[0], env, t)
            return ('EDivCeil', a, b), t
        if name == 'trailing_zeros':
            a, t = self.expr(recv, env)
            return ('ETrailingZeros', width(t), a), 'u32'
        if name == 'is_power_of_two':
            a, t = self.expr(recv, env)
            # x != 0 && x & (x-1) == 0
            x = self.fresh()
            w_ = width(t)
            body = ('EAndB', ('ECmp', 'CNe', ('EVar', x), ('EInt', 0)),
                    ('ECmp', 'CEq', ('EBin', 'BAnd', w_, ('EVar', x), ('EBin', 'Sub', w_, ('EVar', x), ('EInt', 1))), ('EInt', 0)))
            return ('ELet', x, a, body), 'bool'
        if name == 'len':
            a, t = self.expr(recv, env)
            if t == 'slice':
                return a, 'usize'
            raise Untranslatable('len of %s' % (t,))
        if name in ('ok_or_else', 'ok_or'):
            a, t = self.expr(recv, env)
            self.err_sites += 1
            x = self.fresh()
            return ('EIfSome', a, x, ('EOk', ('EVar', x)), ('EErr', self.err_sites)), ('res', t[1])
        if name in ('as_u8_slice', 'as_u8_slice_mut'):
            return self.expr(recv, env)
        if name == 'to_be_bytes':
            raise Untranslatable('to_be_bytes outside slice assignment')
        # ---- methods of translated types: inline ----
        a, t = self.expr(recv, env)
        owner = self.owner_of(t)
        if owner is None and is_int(t) and name in ('align_up', 'align_down'):
            owner = 'IntAlignment'
        if owner == 'HeaderView':
            return self.view_method(a, 'HeaderView', name)
        if owner == 'ParamsView':
            return self.view_method(a, 'ParamsView', name)
        if owner == 'RefBlock' and name == 'get':
            # Table::get for RefBlock = RefBlockEntry(self.__get(index))
            r, tr = self.inline('RefBlock', '__get', [(a, t)] + [self.expr(x, env, 'usize') for x in args], env)
            return r, ('nt', 'RefBlockEntry', 'u64')
        if owner == 'RefBlockEntry' and name == 'into_plain':
            return a, 'u64'
        if owner is None:
            raise Untranslatable('method %s on %s' % (name, t))
        fn = self.w.get_fn(owner, name)
        argv = [(a, t)]
        for x, (pn, pt) in zip(args, fn['params'][1:]):
            pt_n = self.param_type(pt, owner)
            ax, tx = self.expr(x, env, pt_n)
            argv.append((ax, tx))
        return self.inline(owner, name, argv, env)

    def view_method(self, a, view, name):
        table = {
            ('HeaderView', 'cluster_bits'): 'cluster_bits', ('HeaderView', 'refcount_order'): 'refcount_order',
            ('HeaderView', 'size'): 'size',
            ('ParamsView', 'get_bs_bits'): 'bs_shift', ('ParamsView', 'is_read_only'): 'read_only',
            ('ParamsView', 'is_backing_dev'): 'backing', ('HeaderView', 'backing_filename'): 'has_backing',
        }
        if (view, name) not in table:
            raise Untranslatable('view method %s::%s' % (view, name))
        layout = self.w.structs[view]
        for i, (fn_, ft) in enumerate(layout):
            if fn_ == table[(view, name)]:
                return ('EProj', i, a), ft
        raise Untranslatable('view field')

    def param_type(self, pt, owner):
        t = self.w.norm_type(pt)
        if t == 'Self':
            if owner in self.w.newtypes:
                return ('nt', owner, 'u64')
            if owner == 'IntAlignment':
                return 'u64'
            return ('struct', owner)
        return t

    def call(self, e, env, want):
        f, args = e[1], e[2]
        if f[0] != 'path':
            raise Untranslatable('call of non-path')
        p = f[1]
        if p == ['Some']:
            inner_want = want[1] if isinstance(want, tuple) and want[0] == 'opt' else None
            a, t = self.expr(args[0], env, inner_want)
            return ('ESome', a), ('opt', t)
        if p == ['Ok']:
            inner_want = want[1] if isinstance(want, tuple) and want[0] == 'res' else None
            a, t = self.expr(args[0], env, inner_want)
            return ('EOk', a), ('res', t)
        if p == ['Err']:
            self.err_sites += 1
            return ('EErr', self.err_sites), ('res', want[1] if isinstance(want, tuple) and want[0] == 'res' else 'unit')
        if len(p) == 1 and p[0] in self.w.newtypes:
            a, t = self.expr(args[0], env, 'u64')
            return a, ('nt', p[0], 'u64')
        if len(p) >= 2 and p[-2] == 'size_of' and p[-1].startswith('<'):
            ty = p[-1][1:-1]
            sizes = {'u64': 8, 'u32': 4, 'u16': 2, 'u8': 1, 'usize': 8, 'RefTableEntry': 8, 'L1Entry': 8, 'L2Entry': 8}
            if ty not in sizes:
                raise Untranslatable('size_of ' + ty)
            return ('EInt', sizes[ty]), 'usize'
        if p[-2:] == ['cmp', 'min'] or p[-2:] == ['cmp', 'max']:
            a, t = self.expr(args[0], env, want)
            b, tb = self.expr(args[1], env, t if t != 'lit' else want)
            if t == 'lit':
                a, t = self.expr(args[0], env, tb)
            return (('EMin' if p[-1] == 'min' else 'EMax'), a, b), t
        if len(p) == 2 and p[1] == 'from_be_bytes' and p[0] in INT:
            n = INT[p[0]] // 8
            x = args[0]
            # raw[a..b].try_into().unwrap()
            while x[0] == 'mcall' and x[2] in ('unwrap', 'try_into'):
                x = x[1]
            if x[0] != 'slice':
                raise Untranslatable('from_be_bytes arg')
            arr, ta = self.expr(x[1], env)
            lo, tl = self.expr(x[2], env, 'usize')
            self.check_slice_len(x, n)
            return ('EFromBE', n, arr, lo), p[0]
        if len(p) == 2 and p[1] == 'from' and p[0] in INT:
            a, t = self.expr(args[0], env)
            return a, p[0]
        if len(p) == 2 and p[0] == 'Self' or (len(p) == 2 and p[0] in self.w.impl_file):
            owner = env['$Self'] if p[0] == 'Self' else p[0]
            if owner in self.w.newtypes and p[1] == owner:
                a, t = self.expr(args[0], env, 'u64')
                return a, ('nt', owner, 'u64')
            fn = self.w.get_fn(owner, p[1])
            argv = []
            for x, (pn, pt) in zip(args, fn['params']):
                ax, tx = self.expr(x, env, self.param_type(pt, owner))
                argv.append((ax, tx))
            return self.inline(owner, p[1], argv, env)
        if len(p) == 1 and ('$fn_' + p[0]) in env:
            fn = env['$fn_' + p[0]]
            argv = []
            for x, (pn, pt) in zip(args, fn['params']):
                ax, tx = self.expr(x, env, self.w.norm_type(pt))
                argv.append((ax, tx))
            return self.inline_fn(fn, argv, env, env.get('$Self'))
        raise Untranslatable('call ' + '::'.join(p))

    def check_slice_len(self, sl, n):
        # hi must be syntactically lo + n
        lo, hi = sl[2], sl[3]
        ok = hi is not None and hi[0] == 'bin' and hi[1] == '+' and hi[2] == lo and hi[3][0] == 'int' and hi[3][1] == n
        if not ok:
            raise Untranslatable('slice bounds are not lo..lo+%d' % n)

    def inline(self, owner, name, argv, env):
        """call of another translated function: emitted as ECall of the callee's own definition"""
        cname, params, ret = self.w.define(owner, name)
        args = []
        for (a, t), (pn, declared) in zip(argv, params):
            if not isinstance(declared, tuple):
                a, t = self.conv(a, t, declared)
            args.append(a)
        return ('ECall', cname, args), ret

    def inline_fn(self, fn, argv, env, owner):
        """nested fn item: defined as its own constant"""
        cname, params, ret = self.w.define_local(fn, owner, self.top_name)
        args = []
        for (a, t), (pn, declared) in zip(argv, params):
            if not isinstance(declared, tuple):
                a, t = self.conv(a, t, declared)
            args.append(a)
        return ('ECall', cname, args), ret

    def fn_body(self, fn, env, ret, outvars=None, cut=None):
        self.ret_stack = getattr(self, 'ret_stack', [])
        self.ret_stack.append((ret, outvars))

        def final(env2, val):
            return self.wrap_out(val, env2, outvars)
        ast = self.stmts(fn['body'][1], env, ret, final, cut=cut)
        self.ret_stack.pop()
        return ast, ret

    def wrap_out(self, val, env, outvars):
        if not outvars:
            return val
        outs = []
        for v, fallback in outvars:
            if v in env:
                outs.append(self.expr(('path', [v]), env)[0])
            else:
                outs.append(self.expr(fallback, env)[0])
        return ('ETup', [val] + outs)

    # ---------- statements (continuation-passing, so early returns need no special form) ----------
    def stmts(self, ss, env, want, k, cut=None):
        """k(env, value_ast_or_None) -> ast of what follows; returns ast"""
        if not ss:
            return k(env, ('ETup', []))
        s, rest = ss[0], ss[1:]
        kind = s[0]
        if cut is not None and cut(s):
            return k(env, None)
        if kind == 'fnitem':
            env = dict(env)
            env['$fn_' + s[1]['name']] = s[1]
            return self.stmts(rest, env, want, k, cut)
        if kind == 'let':
            pat, ty, init = s[1], s[2], s[3]
            if init is None:
                raise Untranslatable('let without initialiser')
            x0 = init
            while x0[0] == 'mcall' and x0[2] in ('unwrap', 'try_into'):
                x0 = x0[1]
            while x0[0] == 'paren':
                x0 = x0[1]
            if x0[0] == 'slice' and pat[0] == 'pvar':
                env2 = dict(env)
                env2[pat[1]] = ('slicealias', x0)
                return self.stmts(rest, env2, want, k, cut)
            tyn = self.w.norm_type(ty) if ty else None
            # `let x = e?;`
            if init[0] == 'try':
                a, t = self.expr(init[1], env, ('res', tyn) if tyn else None)
                if not (isinstance(t, tuple) and t[0] == 'res'):
                    raise Untranslatable('? on %s' % (t,))
                x = self.fresh()
                env2 = dict(env)
                self.bind_pat(pat, x, tyn or t[1], env2)
                body = self.stmts(rest, env2, want, k, cut)
                body = self.destructure(pat, x, tyn or t[1], env2, body)
                return ('ETry', a, x, body)
            # slice alias: let array: &mut [u8; 8] = (&mut raw[a..b]).try_into().unwrap();
            x0 = init
            while x0[0] == 'mcall' and x0[2] in ('unwrap', 'try_into'):
                x0 = x0[1]
            while x0[0] == 'paren':
                x0 = x0[1]
            if x0[0] == 'slice' and pat[0] == 'pvar':
                env2 = dict(env)
                env2[pat[1]] = ('slicealias', x0)
                return self.stmts(rest, env2, want, k, cut)
            # statement-level control flow in the initialiser that assigns outer variables
            if init[0] == 'if' and self.assigned_vars(init):
                return self.let_if_assign(pat, tyn, init, env, rest, want, k, cut)
            a, t = self.expr(init, env, tyn)
            if tyn is not None:
                a, t = self.conv(a, t, tyn)
                if t == 'lit':
                    t = tyn
                if is_int(tyn) and is_int(t) and width(t) != width(tyn):
                    raise Untranslatable('let type mismatch %s vs %s' % (t, tyn))
            if pat[0] == 'pvar' and a[0] == 'EVar' and False:
                pass
            x = self.fresh()
            env2 = dict(env)
            self.bind_pat(pat, x, t, env2)
            body = self.stmts(rest, env2, want, k, cut)
            body = self.destructure(pat, x, t, env2, body)
            return ('ELet', x, a, body)
        if kind == 'assign':
            op, lhs, rhs = s[1], s[2], s[3]
            if lhs[0] == 'path' and len(lhs[1]) == 1:
                nm = lhs[1][0]
                b = env.get(nm)
                if b and b[0] == 'slicealias':
                    # *array = v.to_be_bytes()
                    sl = b[1]
                    if not (rhs[0] == 'mcall' and rhs[2] == 'to_be_bytes'):
                        raise Untranslatable('slice alias assignment')
                    v, tv = self.expr(rhs[1], env)
                    n = width(tv) // 8
                    self.check_slice_len(sl, n)
                    arr_name = sl[1]
                    arr, ta = self.expr(arr_name, env)
                    lo, tl = self.expr(sl[2], env, 'usize')
                    return self.rebind(arr_name, ('EToBE', n, arr, lo, v), 'bytes', env, rest, want, k, cut)
                if not b or b[0] != 'var':
                    raise Untranslatable('assign to ' + nm)
                t = b[2]
                if op == '=':
                    a, ta = self.expr(rhs, env, t)
                else:
                    a, ta = self.expr(('bin', op[:-1], lhs, rhs), env, t)
                return self.rebind(lhs, a, t, env, rest, want, k, cut)
            if lhs[0] == 'index':
                arr, ta = self.expr(lhs[1], env)
                i, ti = self.expr(lhs[2], env, 'usize')
                if op != '=':
                    raise Untranslatable('compound index assignment')
                v, tv = self.expr(rhs, env, 'u8')
                return self.rebind(lhs[1], ('EUpd', arr, i, v), 'bytes', env, rest, want, k, cut)
            raise Untranslatable('assignment target')
        if kind in ('semi', 'expr'):
            e = s[1]
            last = not rest
            if e[0] == 'macro':
                nm = e[1][-1]
                if nm in ('trace', 'debug', 'info', 'warn', 'error', 'println', 'eprintln'):
                    return self.stmts(rest, env, want, k, cut)
                if nm in ('assert', 'debug_assert'):
                    cond = P(e[2][0] + [('eof', '')]).parse_expr()
                    c, _ = self.expr(cond, env, 'bool')
                    return ('EIf', c, self.stmts(rest, env, want, k, cut), ('EPanic',))
                if nm in ('assert_eq', 'debug_assert_eq'):
                    l = P(e[2][0] + [('eof', '')]).parse_expr()
                    r = P(e[2][1] + [('eof', '')]).parse_expr()
                    c, _ = self.expr(('bin', '==', l, r), env, 'bool')
                    return ('EIf', c, self.stmts(rest, env, want, k, cut), ('EPanic',))
                if nm in ('unreachable', 'panic'):
                    return ('EPanic',)
                if nm == 'zero_buf':
                    # zero_buf!(buf) / zero_buf!(&mut buf[lo..]): the buffer content is not part of the
                    # translated view (only its length is); what remains is the slice bounds check
                    toks = e[2][0]
                    ops = [t[1] for t in toks]
                    if '[' in ops and '..' in ops:
                        i, j = ops.index('['), ops.index('..')
                        base = [t for t in toks[:i] if t not in (('op', '&'), ('id', 'mut'))]
                        lo = P(toks[i + 1:j] + [('eof', '')]).parse_expr() if j > i + 1 else ('lit', '0', None)
                        hi_t = toks[j + 1:ops.index(']', j)]
                        blen = ('mcall', P(base + [('eof', '')]).parse_expr(), 'len', [])
                        hi = P(hi_t + [('eof', '')]).parse_expr() if hi_t else blen
                        c1, _ = self.expr(('bin', '<=', lo, hi), env, 'bool')
                        c2, _ = self.expr(('bin', '<=', hi, blen), env, 'bool')
                        return ('EIf', c1, ('EIf', c2, self.stmts(rest, env, want, k, cut), ('EPanic',)), ('EPanic',))
                    return self.stmts(rest, env, want, k, cut)
                raise Untranslatable('macro stmt ' + nm)
            if e[0] == 'return':
                rw, outvars = self.ret_stack[-1]
                wrap = getattr(self, 'ret_wrap', None) if len(self.ret_stack) == 1 else None
                if e[1] is None:
                    a = ('ETup', [])
                else:
                    a, t = self.expr(e[1], env, rw)
                if wrap:
                    return wrap(a)
                return self.wrap_out(a, env, outvars)
            if e[0] == 'if' and (kind == 'semi' or not last or self.has_return(e) or self.assigned_vars(e)):
                c, _ = self.expr(e[1], env, 'bool')
                then_ast = self.stmts(e[2][1], env, want, lambda env2, v: self.stmts(rest, env2, want, k, cut) if rest or kind == 'semi' else k(env2, v), cut)
                if e[3] is None:
                    else_ast = self.stmts(rest, env, want, k, cut)
                else:
                    eb = e[3][1] if e[3][0] == 'block' else [('expr', e[3])]
                    else_ast = self.stmts(eb, env, want, lambda env2, v: self.stmts(rest, env2, want, k, cut) if rest or kind == 'semi' else k(env2, v), cut)
                return ('EIf', c, then_ast, else_ast)
            if e[0] == 'match' and (kind == 'semi' or not last or self.has_return(e) or self.assigned_vars(e)):
                return self.match_stmt(e, env, rest, want, k, cut, kind)
            if last and kind == 'expr':
                a, t = self.expr(e, env, want)
                if is_int(want) and t == 'lit':
                    a, t = self.conv(a, t, want)
                return k(env, a)
            # expression statement whose value is dropped
            a, t = self.expr(e, env)
            x = self.fresh()
            return ('ELet', x, a, self.stmts(rest, env, want, k, cut))
        raise Untranslatable('statement ' + kind)

    def rebind(self, target, a, t, env, rest, want, k, cut):
        """assignment to a local / to a field path like self.raw_data (tracked as alias)"""
        x = self.fresh()
        env2 = dict(env)
        if target[0] == 'path':
            nm = target[1][0]
            b = env.get(nm)
            if b and b[0] == 'alias' and b[3] is not None:
                # alias of another place: rebind the place too
                env2[nm] = ('alias', ('EVar', x), t, b[3])
                env2[b[3]] = ('alias', ('EVar', x), t, None)
            else:
                env2[nm] = ('var', x, t)
        else:
            raise Untranslatable('rebind target')
        return ('ELet', x, a, self.stmts(rest, env2, want, k, cut))

    def bind_pat(self, pat, x, t, env):
        if pat[0] == 'pvar':
            env[pat[1]] = ('var', x, t)
        elif pat[0] == 'pwild':
            pass
        elif pat[0] == 'ptup':
            for i, sub in enumerate(pat[1]):
                if sub[0] == 'pvar':
                    y = self.fresh()
                    env[sub[1]] = ('var', y, t[1][i])
                    env.setdefault('$destr', [])
                elif sub[0] != 'pwild':
                    raise Untranslatable('nested pattern')
        else:
            raise Untranslatable('pattern ' + pat[0])

    def destructure(self, pat, x, t, env, body):
        if pat[0] == 'ptup':
            for i, sub in reversed(list(enumerate(pat[1]))):
                if sub[0] == 'pvar':
                    y = env[sub[1]][1]
                    body = ('ELet', y, ('EProj', i, ('EVar', x)), body)
        return body

    def has_return(self, e):
        if isinstance(e, tuple):
            if e and e[0] == 'return':
                return True
            if e and e[0] == 'closure':
                return False
            if e and e[0] == 'try':
                return True
            return any(self.has_return(x) for x in e)
        if isinstance(e, list):
            return any(self.has_return(x) for x in e)
        if isinstance(e, dict):
            return False
        return False

    def assigned_vars(self, e):
        out = []

        def go(x):
            if isinstance(x, tuple):
                if x and x[0] == 'assign':
                    tgt = x[2]
                    while tgt[0] in ('index',):
                        tgt = tgt[1]
                    if tgt[0] == 'path':
                        out.append(tgt[1][0])
                if x and x[0] == 'closure':
                    return
                for y in x:
                    go(y)
            elif isinstance(x, list):
                for y in x:
                    go(y)
        go(e)
        return sorted(set(out))

    def let_if_assign(self, pat, tyn, init, env, rest, want, k, cut):
        """let p = if c { ..assignments..; v1 } else { v2 };  =>  both branches continue with `rest`"""
        c, _ = self.expr(init[1], env, 'bool')

        def cont(env2, v):
            x = self.fresh()
            env3 = dict(env2)
            # type: take from annotation or infer from the first branch's literal
            t = tyn or self._last_branch_type
            self.bind_pat(pat, x, t, env3)
            return ('ELet', x, v, self.stmts(rest, env3, want, k, cut))

        def branch(b):
            ss = b[1] if b[0] == 'block' else [('expr', b)]
            # value type of the branch
            def kk(env2, v):
                return cont(env2, v)
            return self.stmts_typed(ss, env, tyn, kk)
        self._last_branch_type = tyn or 'usize'
        t_ast = branch(init[2])
        e_ast = branch(init[3]) if init[3] is not None else cont(env, ('ETup', []))
        return ('EIf', c, t_ast, e_ast)

    def stmts_typed(self, ss, env, want, k):
        # like stmts, but records the type of the final value for let_if_assign
        if ss and ss[-1][0] == 'expr':
            last = ss[-1][1]
            if last[0] not in ('if', 'match', 'iflet', 'block'):
                def k2(env2, v):
                    return k(env2, v)
                # infer type once (in the current env; good enough for literals / simple arithmetic)
                try:
                    _, t = self.expr(last, self.env_after(ss[:-1], env), want)
                    if t != 'lit':
                        self._last_branch_type = t
                except Untranslatable:
                    pass
        return self.stmts(ss, env, want or self._last_branch_type, k)

    def env_after(self, ss, env):
        # names assigned keep their types, so the old env is fine for type inference
        return env

    def match_stmt(self, e, env, rest, want, k, cut, kind):
        scrut, arms = e[1], e[2]
        a, t = self.expr(scrut, env)
        x = self.fresh()
        env1 = dict(env)
        env1['$m%d' % x] = ('var', x, t)
        sv = ('path', ['$m%d' % x])

        def arm_cont(env2, v):
            if rest or kind == 'semi':
                return self.stmts(rest, env2, want, k, cut)
            return k(env2, v)

        def arm_body(body, env2):
            ss = body[1] if body[0] == 'block' else [('expr', body)]
            return self.stmts(ss, env2, want, arm_cont, cut)
        out = self.match_chain(sv, t, arms, env1, arm_body)
        return ('ELet', x, a, out)

    def match_chain(self, sv, t, arms, env, arm_body):
        """arms over ints/enums (literal, path, binding, wildcard) or Option"""
        if isinstance(t, tuple) and t[0] in ('opt',):
            some_arm = none_arm = None
            for pats, guard, body in arms:
                p = pats[0]
                if p[0] == 'pctor' and p[1] == ['Some']:
                    some_arm = (p[2][0], body)
                elif p[0] == 'pctor' and p[1] == ['None']:
                    none_arm = body
                elif p[0] in ('pwild', 'pvar'):
                    if none_arm is None:
                        none_arm = body
                    if some_arm is None:
                        some_arm = (('pwild',), body)
            y = self.fresh()
            env2 = dict(env)
            self.bind_pat(some_arm[0], y, t[1], env2)
            sa = self.destructure(some_arm[0], y, t[1], env2, arm_body(some_arm[1], env2))
            na = arm_body(none_arm, env)
            s_ast, _ = self.expr(sv, env)
            return ('EIfSome', s_ast, y, sa, na)
        out = None
        chain = []
        for pats, guard, body in arms:
            if guard is not None:
                raise Untranslatable('match guard')
            conds = []
            catch_all = None
            for p in pats:
                if p[0] == 'plit':
                    conds.append(('int', p[1], None))
                elif p[0] == 'pctor' and len(p[1]) == 2 and p[1][0] in self.w.enums:
                    conds.append(('path', p[1]))
                elif p[0] == 'pwild':
                    catch_all = ('pwild',)
                elif p[0] == 'pvar':
                    catch_all = p
                else:
                    raise Untranslatable('match pattern %s' % (p,))
            chain.append((conds, catch_all, body))
        # build from the end
        result = ('EPanic',)
        for conds, catch_all, body in reversed(chain):
            if catch_all is not None:
                env2 = dict(env)
                if catch_all[0] == 'pvar':
                    env2[catch_all[1]] = env[sv[1][0]]
                result = arm_body(body, env2)
            else:
                c = None
                for cd in conds:
                    ca, _ = self.expr(('bin', '==', sv, cd), env, 'bool')
                    c = ca if c is None else ('EOrB', c, ca)
                result = ('EIf', c, arm_body(body, env), result)
        return result

    def block_value(self, e, env, want):
        holder = {}

        def k(env2, v):
            return v
        # types: evaluate the last expression for its type
        ss = e[1]
        ast = self.stmts(ss, env, want, k)
        t = self.type_of_block(ss, env, want)
        return ast, t

    def type_of_block(self, ss, env, want):
        # walk the lets to extend env with types only
        env2 = dict(env)
        for s in ss:
            if s[0] == 'fnitem':
                env2['$fn_' + s[1]['name']] = s[1]
            if s[0] == 'let' and s[3] is not None:
                try:
                    tyn = self.w.norm_type(s[2]) if s[2] else None
                    init = s[3][1] if s[3][0] == 'try' else s[3]
                    _, t = self.expr(init, env2, tyn)
                    if s[3][0] == 'try':
                        t = t[1]
                    if t == 'lit' and tyn:
                        t = tyn
                    self.bind_pat(s[1], self.fresh(), tyn or t, env2)
                except Untranslatable:
                    pass
        if ss and ss[-1][0] == 'expr':
            save = self.next_id
            _, t = self.expr(ss[-1][1], env2, want)
            return t
        return 'unit'

    def if_expr(self, e, env, want):
        c, _ = self.expr(e[1], env, 'bool')
        a, ta = self.block_value(e[2], env, want)
        if e[3] is None:
            return ('EIf', c, a, ('ETup', [])), 'unit'
        if e[3][0] == 'block':
            b, tb = self.block_value(e[3], env, want if ta in ('lit', 'never') else ta)
        else:
            b, tb = self.expr(e[3], env, want if ta in ('lit', 'never') else ta)
        if ta in ('lit', 'never') and tb not in ('lit', 'never'):
            a, ta = self.block_value(e[2], env, tb)
        t = ta if ta not in ('never',) else tb
        if isinstance(ta, tuple) and isinstance(tb, tuple) and ta[0] == 'opt' and tb[0] == 'opt':
            if ta[1] == 'lit':
                t = tb
        return ('EIf', c, a, b), t

    def iflet_expr(self, e, env, want):
        pat, scrut, then, els = e[1], e[2], e[3], e[4]
        s, ts = self.expr(scrut, env)
        if not (pat[0] == 'pctor' and pat[1] == ['Some'] and isinstance(ts, tuple) and ts[0] == 'opt'):
            raise Untranslatable('if let pattern')
        y = self.fresh()
        env2 = dict(env)
        self.bind_pat(pat[2][0], y, ts[1], env2)
        a, ta = self.block_value(then, env2, want)
        a = self.destructure(pat[2][0], y, ts[1], env2, a)
        if els is None:
            b, tb = ('ETup', []), 'unit'
        elif els[0] == 'block':
            b, tb = self.block_value(els, env, want if ta == 'lit' else ta)
        else:
            b, tb = self.expr(els, env, want if ta == 'lit' else ta)
        return ('EIfSome', s, y, a, b), ta

    def match_expr(self, e, env, want):
        scrut, arms = e[1], e[2]
        a, t = self.expr(scrut, env)
        x = self.fresh()
        env1 = dict(env)
        env1['$m%d' % x] = ('var', x, t)
        sv = ('path', ['$m%d' % x])
        types = []

        def arm_body(body, env2):
            if body[0] == 'block':
                ast, tb = self.block_value(body, env2, want)
            else:
                ast, tb = self.expr(body, env2, want)
            types.append(tb)
            return ast
        out = self.match_chain(sv, t, arms, env1, arm_body)
        ts = [x_ for x_ in types if x_ not in ('never', 'lit')]
        tt = ts[0] if ts else (types[0] if types else 'unit')
        for cand in ts:
            if isinstance(cand, tuple) and cand[0] == 'opt' and cand[1] != 'lit':
                tt = cand
        return ('ELet', x, a, out), tt


# ---------- printing ----------
def pr(a):
    k = a[0]
    if k == 'EVar':
        return '(EVar %d%%nat)' % a[1]
    if k == 'EInt':
        return '(EInt %d)' % a[1]
    if k == 'EBool':
        return '(EBool %s)' % ('true' if a[1] else 'false')
    if k in ('ENone', 'EPanic'):
        return k
    if k == 'EErr':
        return '(EErr %d)' % a[1]
    if k == 'ETup':
        return '(ETup [%s])' % '; '.join(pr(x) for x in a[1])
    if k == 'EBin':
        return '(EBin %s %d %s %s)' % (a[1], a[2], pr(a[3]), pr(a[4]))
    if k == 'ECmp':
        return '(ECmp %s %s %s)' % (a[1], pr(a[2]), pr(a[3]))
    if k in ('EBNot', 'ECast', 'EFit', 'ETrailingZeros'):
        return '(%s %d %s)' % (k, a[1], pr(a[2]))
    if k in ('ELet',):
        return '(ELet %d%%nat %s\n %s)' % (a[1], pr(a[2]), pr(a[3]))
    if k == 'EIfSome':
        return '(EIfSome %s %d%%nat %s %s)' % (pr(a[1]), a[2], pr(a[3]), pr(a[4]))
    if k == 'ETry':
        return '(ETry %s %d%%nat %s)' % (pr(a[1]), a[2], pr(a[3]))
    if k == 'EProj':
        return '(EProj %d%%nat %s)' % (a[1], pr(a[2]))
    if k in ('ECheckedAdd', 'ECheckedShl', 'ESatAdd'):
        return '(%s %d %s %s)' % (k, a[1], pr(a[2]), pr(a[3]))
    if k == 'EFromBE':
        return '(EFromBE %d%%nat %s %s)' % (a[1], pr(a[2]), pr(a[3]))
    if k == 'EToBE':
        return '(EToBE %d%%nat %s %s %s)' % (a[1], pr(a[2]), pr(a[3]), pr(a[4]))
    if k == 'ECall':
        return '(ECall %s [%s])' % (a[1], '; '.join(pr(x) for x in a[2]))
    # generic: constructor applied to sub-expressions
    return '(%s %s)' % (k, ' '.join(pr(x) for x in a[1:]))


# ---------- targets ----------
def tr_fn(world, fn, owner, cname, outvars=None, cut=None):
    tr = Tr(world)
    tr.top_name = cname
    env = {'$Self': owner}
    args = []
    for pn, pt in fn['params']:
        t = tr.param_type(pt, owner)
        x = tr.fresh()
        env[pn] = ('var', x, t)
        args.append((pn, t))
    ret = world.norm_type(fn['ret']) if fn['ret'] else 'unit'
    if ret == 'Self':
        ret = tr.param_type('Self', owner)
    ast, _ = tr.fn_body(fn, env, ret, outvars=outvars, cut=cut)
    return ast, args, ret


TARGETS = [
    ('L1Entry', 'l2_offset'), ('L1Entry', 'is_copied'), ('L1Entry', 'is_zero'), ('L1Entry', 'reserved_bits'),
    ('L2Entry', 'cluster_offset'), ('L2Entry', 'is_compressed'), ('L2Entry', 'is_copied'), ('L2Entry', 'is_zero'),
    ('L2Entry', 'reserved_bits'), ('L2Entry', 'compressed_descriptor'), ('L2Entry', 'compressed_range'),
    ('L2Entry', 'allocation'), ('L2Entry', 'into_mapping'), ('L2Entry', 'from_mapping'),
    ('Mapping', 'plain_offset'),
    ('RefTableEntry', 'refblock_offset'), ('RefTableEntry', 'is_zero'), ('RefTableEntry', 'reserved_bits'),
    ('RefBlock', '__get'), ('RefBlock', '__set'),
    ('SplitGuestOffset', 'cluster_offset'), ('SplitGuestOffset', 'l1_index'), ('SplitGuestOffset', 'l2_index'),
    ('SplitGuestOffset', 'l2_slice_index'), ('SplitGuestOffset', 'l2_slice_key'),
    ('SplitGuestOffset', 'l2_slice_off_in_table'), ('SplitGuestOffset', 'in_cluster_offset'),
    ('HostCluster', 'cluster_off_from_slice'), ('HostCluster', 'rt_index'), ('HostCluster', 'rb_index'),
    ('HostCluster', 'rb_slice_index'), ('HostCluster', 'rb_slice_key'), ('HostCluster', 'rb_slice_host_start'),
    ('HostCluster', 'rb_slice_host_end'), ('HostCluster', 'rb_host_start'), ('HostCluster', 'rb_host_end'),
    ('HostCluster', 'rb_slice_off_in_table'),
    ('Qcow2Info', 'new'), ('Qcow2Info', 'rb_entries'), ('Qcow2Info', 'l2_entries'), ('Qcow2Info', 'in_cluster_offset'),
    ('Qcow2Info', 'cluster_round_down'), ('Qcow2Info', 'cluster_round_up'), ('Qcow2Info', 'cluster_size'),
    ('Qcow2Info', '__max_l1_entries'), ('Qcow2Info', 'get_max_l1_entries'), ('Qcow2Info', '__max_l1_size'),
    ('Qcow2Info', '__max_refcount_table_size'), ('Qcow2Info', 'rb_slice_entries'),
    ('IntAlignment', 'align_down'), ('IntAlignment', 'align_up'),
]


def main():
    out = sys.argv[1] if len(sys.argv) > 1 else '/verif/coq/Gen/GenCodec.v'
    world = World()
    report = {'translated': [], 'untranslated': []}
    for owner, name in TARGETS:
        try:
            world.define(owner, name)
        except (Untranslatable, SyntaxError, KeyError, ValueError, IndexError, TypeError, AttributeError) as ex:
            report['untranslated'].append({'fn': '%s::%s' % (owner, name), 'why': '%s: %s' % (type(ex).__name__, ex)})
    # extra targets (argument checks, top-table key helpers) are appended by rs2v_extra
    try:
        import rs2v_extra
        rs2v_extra.extra(world, report, Tr, tr_fn, Untranslatable)
    except ImportError:
        pass
    hdr = ('(* GENERATED by gen/rs2v.py from %s/src -- do not edit; regenerated on every check run *)\n'
           'From Coq Require Import NArith List.\nFrom Q.Base Require Import RExpr.\nFrom Q.Model Require Import Codec.\n'
           'Import ListNotations.\nOpen Scope N_scope.\n\n' % REPO)
    # value encodings of the model records, in the field order the Rust structs declare
    mnames = {'source': 'VInt (m_source m)', 'cluster_offset': 'v_opt (m_offset m)',
              'compressed_length': 'v_opt (m_clen m)', 'copied': 'VBool (m_copied m)'}
    hdr += 'Definition v_opt (o : option N) : value := VOpt (option_map VInt o).\n'
    hdr += 'Definition v_info (i : info) : value :=\n  VTup [%s].\n' % '; '.join('VInt (%s i)' % n for n, _ in world.structs['Qcow2Info'])
    hdr += 'Definition v_mapping (m : mapping) : value :=\n  VTup [%s].\n' % '; '.join(mnames[n] for n, _ in world.structs['Mapping'])
    hdr += 'Definition mapping_source_names : list N := [%s].  (* %s *)\n\n' % ('; '.join(str(i) for i in range(len(world.enums['MappingSource']))), ' '.join(world.enums['MappingSource']))
    os.makedirs(os.path.dirname(out), exist_ok=True)
    defs = []
    def tyname(t):
        return t if isinstance(t, str) else (t[1] if t[0] in ('nt', 'struct', 'enum') else str(t))
    for cname, rname, args, ret, ast, text in world.defs:
        defs.append('(* %s(%s) -> %s *)\nDefinition %s : expr :=\n %s.\n' % (
            rname, ', '.join('%s: %s' % (n, tyname(t)) for n, t in args), tyname(ret), cname, pr(ast)))
        report['translated'].append({'fn': rname, 'coq': cname, 'sha': hashlib.sha1(text.encode()).hexdigest()[:12]})
    text = hdr + '\n'.join(defs)
    old = open(out).read() if os.path.exists(out) else None
    if old != text:
        open(out, 'w').write(text)
    json.dump(report, open(os.path.join(os.path.dirname(out), 'gen_report.json'), 'w'), indent=1)
    print('rs2v: %d translated, %d untranslated%s' % (len(report['translated']), len(report['untranslated']),
                                                       '' if old != text else ' (unchanged)'))
    for u in report['untranslated']:
        print('  untranslated %s: %s' % (u['fn'], u['why']))


if __name__ == '__main__':
    main()
