"""Tokenizer and parser for the Rust subset used by the pure functions of qcow2-rs.
Produces a plain nested-tuple AST.  No semantics here."""
import re

TOK = re.compile(r"""
   (?P<ws>\s+|//[^\n]*|/\*.*?\*/)
 | (?P<num>0[xb][0-9a-fA-F_]+(?:u8|u16|u32|u64|usize|i32|i64)?|[0-9][0-9_]*(?:_?(?:u8|u16|u32|u64|usize|i32|i64))?)
 | (?P<str>b?"(?:\\.|[^"\\])*")
 | (?P<chr>'(?:\\.|[^'\\])')
 | (?P<life>'[a-zA-Z_][a-zA-Z0-9_]*)
 | (?P<id>[A-Za-z_$][A-Za-z0-9_]*)
 | (?P<op>\.\.=|\.\.|::|->|=>|<<=|>>=|&&|\|\||==|!=|<=|>=|<<|>>|\+=|-=|\*=|/=|%=|&=|\|=|\^=|[-+*/%&|^!<>=.,;:(){}\[\]?#@])
""", re.X | re.S)


def tokenize(src):
    out = []
    pos = 0
    while pos < len(src):
        m = TOK.match(src, pos)
        if not m:
            raise SyntaxError("bad char %r at %d" % (src[pos:pos + 20], pos))
        pos = m.end()
        k = m.lastgroup
        if k == 'ws':
            continue
        out.append((k, m.group(k)))
    out.append(('eof', ''))
    return out


class P:
    def __init__(self, toks):
        self.t = toks
        self.i = 0

    def peek(self, k=0):
        return self.t[self.i + k]

    def at(self, v):
        return self.t[self.i][1] == v and self.t[self.i][0] in ('op', 'id')

    def eat(self, v=None):
        tk = self.t[self.i]
        if v is not None and tk[1] != v:
            raise SyntaxError("expected %r got %r at %d: %s" % (v, tk, self.i, self.ctx()))
        self.i += 1
        return tk

    def ctx(self):
        return ' '.join(x[1] for x in self.t[max(0, self.i - 8):self.i + 8])

    # ---- types (parsed loosely, returned as string) ----
    def parse_type(self):
        depth = 0
        parts = []
        while True:
            k, v = self.peek()
            if depth == 0 and v in (',', ')', '=', '{', ';', '>', 'where') and not (v == '>' and depth > 0):
                if v == '>' and depth == 0:
                    break
                break
            if v in ('<', '(', '['):
                depth += 1
            elif v in ('>', ')', ']'):
                depth -= 1
            elif v == '>>':
                depth -= 2
            parts.append(v)
            self.i += 1
            if k == 'eof':
                raise SyntaxError("eof in type")
        return ''.join(parts)

    # ---- patterns ----
    def parse_pat(self):
        k, v = self.peek()
        if v == '(':
            self.eat('(')
            items = []
            while not self.at(')'):
                items.append(self.parse_pat())
                if self.at(','):
                    self.eat(',')
            self.eat(')')
            return ('ptup', items)
        if v == '_':
            self.eat()
            return ('pwild',)
        if v == 'mut':
            self.eat()
            return self.parse_pat()
        if v == '&':
            self.eat()
            return self.parse_pat()
        if k == 'num':
            self.eat()
            return ('plit', parse_int(v)[0])
        if k == 'id':
            path = [self.eat()[1]]
            while self.at('::'):
                self.eat('::')
                path.append(self.eat()[1])
            if self.at('('):
                self.eat('(')
                items = []
                while not self.at(')'):
                    items.append(self.parse_pat())
                    if self.at(','):
                        self.eat(',')
                self.eat(')')
                return ('pctor', path, items)
            if len(path) > 1 or path[0][0].isupper():
                return ('pctor', path, [])
            return ('pvar', path[0])
        raise SyntaxError("pattern at " + self.ctx())

    # ---- expressions ----
    BINPREC = [
        ('||',), ('&&',), ('==', '!=', '<', '>', '<=', '>='), ('|',), ('^',), ('&',),
        ('<<', '>>'), ('+', '-'), ('*', '/', '%'),
    ]

    def parse_expr(self, no_struct=False):
        return self.parse_bin(0, no_struct)

    def parse_bin(self, lvl, ns):
        if lvl == len(self.BINPREC):
            return self.parse_cast(ns)
        lhs = self.parse_bin(lvl + 1, ns)
        while True:
            k, v = self.peek()
            if k == 'op' and v in self.BINPREC[lvl]:
                # closure bars / range are not handled here
                self.eat()
                rhs = self.parse_bin(lvl + 1, ns)
                lhs = ('bin', v, lhs, rhs)
            else:
                return lhs

    def parse_cast(self, ns):
        e = self.parse_unary(ns)
        while self.at('as'):
            self.eat('as')
            t = self.parse_type_simple()
            e = ('cast', t, e)
        return e

    def parse_type_simple(self):
        # type after `as`: a path possibly with generics; stop at operators
        parts = [self.eat()[1]]
        while self.at('::'):
            self.eat('::')
            parts.append(self.eat()[1])
        return '::'.join(parts)

    def parse_unary(self, ns):
        k, v = self.peek()
        if v == '!':
            self.eat()
            return ('not', self.parse_unary(ns))
        if v == '-':
            self.eat()
            return ('neg', self.parse_unary(ns))
        if v == '&':
            self.eat()
            if self.at('mut'):
                self.eat()
            return self.parse_unary(ns)
        if v == '&&':
            self.eat()
            return self.parse_unary(ns)
        if v == '*':
            self.eat()
            return self.parse_unary(ns)
        return self.parse_postfix(ns)

    def parse_args(self):
        self.eat('(')
        args = []
        while not self.at(')'):
            args.append(self.parse_expr())
            if self.at(','):
                self.eat(',')
        self.eat(')')
        return args

    def parse_postfix(self, ns):
        e = self.parse_primary(ns)
        while True:
            k, v = self.peek()
            if v == '.':
                self.eat('.')
                k2, name = self.eat()
                if k2 == 'num':
                    e = ('field', e, name)
                    continue
                if name == 'await':
                    e = ('await', e)
                    continue
                if self.at('::'):
                    # turbofish
                    self.eat('::')
                    self.eat('<')
                    d = 1
                    while d > 0:
                        tk = self.eat()[1]
                        if tk == '<':
                            d += 1
                        elif tk == '>':
                            d -= 1
                        elif tk == '>>':
                            d -= 2
                if self.at('('):
                    args = self.parse_args()
                    e = ('mcall', e, name, args)
                else:
                    e = ('field', e, name)
            elif v == '(':
                args = self.parse_args()
                e = ('call', e, args)
            elif v == '[':
                self.eat('[')
                if self.at('..'):
                    self.eat('..')
                    hi = self.parse_expr()
                    self.eat(']')
                    e = ('slice', e, None, hi)
                    continue
                idx = self.parse_expr()
                if self.at('..'):
                    self.eat('..')
                    hi = None if self.at(']') else self.parse_expr()
                    self.eat(']')
                    e = ('slice', e, idx, hi)
                else:
                    self.eat(']')
                    e = ('index', e, idx)
            elif v == '?':
                self.eat('?')
                e = ('try', e)
            else:
                return e

    def parse_block(self):
        self.eat('{')
        stmts = []
        while not self.at('}'):
            s = self.parse_stmt()
            if s is not None:
                stmts.append(s)
        self.eat('}')
        return ('block', stmts)

    def parse_macro_args(self):
        # returns list of token-lists split on top-level commas
        open_ = self.eat()[1]
        close = {'(': ')', '[': ']', '{': '}'}[open_]
        depth = 1
        cur = []
        parts = []
        while True:
            k, v = self.eat()
            if k == 'eof':
                raise SyntaxError("eof in macro")
            if v in '([{' and k == 'op':
                depth += 1
            elif v in ')]}' and k == 'op':
                depth -= 1
                if depth == 0:
                    break
            if v == ',' and depth == 1:
                parts.append(cur)
                cur = []
            else:
                cur.append((k, v))
        if cur:
            parts.append(cur)
        return parts

    def parse_primary(self, ns):
        k, v = self.peek()
        if k == 'num':
            self.eat()
            n, ty = parse_int(v)
            return ('int', n, ty)
        if k == 'str':
            self.eat()
            return ('str', v)
        if k == 'chr':
            self.eat()
            return ('str', v)
        if v == '(':
            self.eat('(')
            if self.at(')'):
                self.eat(')')
                return ('tuple', [])
            e = self.parse_expr()
            if self.at(','):
                items = [e]
                while self.at(','):
                    self.eat(',')
                    if self.at(')'):
                        break
                    items.append(self.parse_expr())
                self.eat(')')
                return ('tuple', items)
            self.eat(')')
            return ('paren', e)
        if v == '{':
            return self.parse_block()
        if v == 'unsafe':
            self.eat()
            return self.parse_block()
        if v == 'if':
            return self.parse_if()
        if v == 'match':
            self.eat('match')
            scrut = self.parse_expr(no_struct=True)
            self.eat('{')
            arms = []
            while not self.at('}'):
                pats = [self.parse_pat()]
                while self.at('|'):
                    self.eat('|')
                    pats.append(self.parse_pat())
                guard = None
                if self.at('if'):
                    self.eat('if')
                    guard = self.parse_expr()
                self.eat('=>')
                body = self.parse_expr()
                if self.at(','):
                    self.eat(',')
                arms.append((pats, guard, body))
            self.eat('}')
            return ('match', scrut, arms)
        if v == 'loop':
            self.eat()
            return ('loop', self.parse_block())
        if v == 'while':
            self.eat()
            c = self.parse_expr(no_struct=True)
            return ('while', c, self.parse_block())
        if v == 'for':
            self.eat()
            pat = self.parse_pat()
            self.eat('in')
            it = self.parse_expr(no_struct=True)
            return ('for', pat, it, self.parse_block())
        if v == 'return':
            self.eat()
            if self.at(';') or self.at('}'):
                return ('return', None)
            return ('return', self.parse_expr())
        if v == 'break':
            self.eat()
            return ('break',)
        if v == 'continue':
            self.eat()
            return ('continue',)
        if v in ('|', '||'):
            # closure
            params = []
            if v == '||':
                self.eat('||')
            else:
                self.eat('|')
                while not self.at('|'):
                    params.append(self.parse_pat())
                    if self.at(':'):
                        self.eat(':')
                        self.parse_type()
                    if self.at(','):
                        self.eat(',')
                self.eat('|')
            body = self.parse_expr()
            return ('closure', params, body)
        if k == 'id':
            path = [self.eat()[1]]
            while self.at('::'):
                self.eat('::')
                if self.at('<'):
                    self.eat('<')
                    d = 1
                    g = ''
                    while d > 0:
                        tk = self.eat()[1]
                        if tk == '<':
                            d += 1
                        elif tk == '>':
                            d -= 1
                        elif tk == '>>':
                            d -= 2
                        if d > 0:
                            g += tk
                    path.append('<' + g + '>')
                    continue
                path.append(self.eat()[1])
            if self.at('!'):
                # macro call (but not `!=`)
                if self.peek(1)[1] in ('(', '[', '{'):
                    self.eat('!')
                    parts = self.parse_macro_args()
                    return ('macro', path, parts)
            if self.at('{') and not ns and path[-1][0].isupper():
                # struct literal
                self.eat('{')
                fields = []
                base = None
                while not self.at('}'):
                    if self.at('..'):
                        self.eat('..')
                        base = self.parse_expr()
                        break
                    name = self.eat()[1]
                    if self.at(':'):
                        self.eat(':')
                        val = self.parse_expr()
                    else:
                        val = ('path', [name])
                    fields.append((name, val))
                    if self.at(','):
                        self.eat(',')
                self.eat('}')
                return ('struct', path, fields, base)
            return ('path', path)
        raise SyntaxError("primary at " + self.ctx())

    def parse_if(self):
        self.eat('if')
        if self.at('let'):
            self.eat('let')
            pat = self.parse_pat()
            self.eat('=')
            scrut = self.parse_expr(no_struct=True)
            then = self.parse_block()
            els = None
            if self.at('else'):
                self.eat('else')
                els = self.parse_if() if self.at('if') else self.parse_block()
            return ('iflet', pat, scrut, then, els)
        c = self.parse_expr(no_struct=True)
        then = self.parse_block()
        els = None
        if self.at('else'):
            self.eat('else')
            els = self.parse_if() if self.at('if') else self.parse_block()
        return ('if', c, then, els)

    def parse_stmt(self):
        k, v = self.peek()
        if v == ';':
            self.eat()
            return None
        if v == '#':
            # attribute
            self.eat('#')
            self.parse_macro_args()
            return None
        if v == 'let':
            self.eat('let')
            pat = self.parse_pat()
            ty = None
            if self.at(':'):
                self.eat(':')
                ty = self.parse_type()
            init = None
            els = None
            if self.at('='):
                self.eat('=')
                init = self.parse_expr()
                if self.at('else'):
                    self.eat('else')
                    els = self.parse_block()
            self.eat(';')
            return ('let', pat, ty, init, els)
        if v == 'fn':
            f = parse_fn(self)
            return ('fnitem', f)
        if v == 'use':
            while not self.at(';'):
                self.eat()
            self.eat(';')
            return None
        if v in ('if', 'match', 'loop', 'while', 'for', 'unsafe') or (v == '{' and k == 'op'):
            e = self.parse_primary(False)
            if self.at(';'):
                self.eat(';')
                return ('semi', e)
            if self.at('}'):
                return ('expr', e)
            if self.at('.') or self.at('?'):
                # rare: method call on a block-like expression; re-parse as a full expression
                pass
            else:
                return ('semi', e) if e[0] in ('loop', 'while', 'for') else ('expr', e)
        e = self.parse_expr()
        k, v = self.peek()
        if v in ('=', '+=', '-=', '*=', '/=', '|=', '&=', '^=', '<<=', '>>=', '%='):
            self.eat()
            rhs = self.parse_expr()
            if self.at(';'):
                self.eat(';')
            return ('assign', v, e, rhs)
        if self.at(';'):
            self.eat(';')
            return ('semi', e)
        return ('expr', e)


def parse_int(v):
    m = re.match(r'^(0x[0-9a-fA-F_]+?|0b[01_]+?|[0-9][0-9_]*?)_?(u8|u16|u32|u64|usize|i32|i64)?$', v)
    body, ty = m.group(1), m.group(2)
    body = body.replace('_', '')
    n = int(body, 16) if body.startswith('0x') else int(body[2:], 2) if body.startswith('0b') else int(body)
    return n, ty


def parse_fn(p):
    p.eat('fn')
    name = p.eat()[1]
    if p.at('<'):
        d = 0
        while True:
            tk = p.eat()[1]
            if tk == '<':
                d += 1
            elif tk == '>':
                d -= 1
            elif tk == '>>':
                d -= 2
            if d <= 0:
                break
    p.eat('(')
    params = []
    while not p.at(')'):
        if p.at('&'):
            p.eat('&')
            if p.peek()[0] == 'life':
                p.eat()
        if p.at('mut'):
            p.eat()
        nm = p.eat()[1]
        ty = 'Self'
        if p.at(':'):
            p.eat(':')
            ty = p.parse_type()
        params.append((nm, ty))
        if p.at(','):
            p.eat(',')
    p.eat(')')
    ret = None
    if p.at('->'):
        p.eat('->')
        ret = p.parse_type()
    if p.at('where'):
        while not p.at('{'):
            p.eat()
    body = p.parse_block()
    return {'name': name, 'params': params, 'ret': ret, 'body': body}


def find_fn_source(src, name, after=None):
    """return source text of `fn name` (first occurrence after marker `after`)"""
    start = 0
    if after is not None:
        start = src.index(after)
    m = re.search(r'\bfn\s+' + re.escape(name) + r'\b', src[start:])
    if not m:
        raise KeyError(name)
    i = start + m.start()
    # find matching brace
    j = src.index('{', i)
    # skip where-clauses/generics: first '{' after the signature's ')' .. fine for this code base
    depth = 0
    k = j
    in_str = False
    while k < len(src):
        c = src[k]
        if in_str:
            if c == '\\':
                k += 1
            elif c == '"':
                in_str = False
        else:
            if c == '"':
                in_str = True
            elif c == '/' and src[k:k + 2] == '//':
                k = src.index('\n', k)
                continue
            elif c == "'" and re.match(r"'(\\.|[^'\\])'", src[k:k + 4]):
                k += len(re.match(r"'(\\.|[^'\\])'", src[k:k + 4]).group(0))
                continue
            elif c == '{':
                depth += 1
            elif c == '}':
                depth -= 1
                if depth == 0:
                    return src[i:k + 1]
        k += 1
    raise SyntaxError("unbalanced fn " + name)


def parse_fn_text(text):
    p = P(tokenize(text))
    return parse_fn(p)


def parse_struct_fields(src, name):
    m = re.search(r'struct\s+' + re.escape(name) + r'\s*\{', src)
    if not m:
        raise KeyError(name)
    i = m.end()
    depth = 1
    k = i
    while depth > 0:
        if src[k] == '{':
            depth += 1
        elif src[k] == '}':
            depth -= 1
        k += 1
    body = src[i:k - 1]
    body = re.sub(r'//[^\n]*', '', body)
    body = re.sub(r'#\[[^\]]*\]', '', body)
    fields = []
    for part in split_top(body, ','):
        part = part.strip()
        if not part:
            continue
        part = re.sub(r'^pub(\([^)]*\))?\s+', '', part)
        nm, ty = part.split(':', 1)
        fields.append((nm.strip(), ty.strip()))
    return fields


def split_top(s, sep):
    out = []
    depth = 0
    cur = ''
    for c in s:
        if c in '<([{':
            depth += 1
        elif c in '>)]}':
            depth -= 1
        if c == sep and depth == 0:
            out.append(cur)
            cur = ''
        else:
            cur += c
    out.append(cur)
    return out
