"""Extra translation targets: the argument-check prefixes of __read_at / __write_at / discard
(everything up to the point where the call starts to touch mappings), and the top-table key
helpers of dev/cache.rs.  The prefix ends at a cut statement; the generated function returns
  (0, <returned value>)                    when the Rust code returns before the cut
  (1, live variables...)                   when it reaches the cut."""
import re


def extra(world, report, Tr, tr_fn, Untranslatable):
    from rsparse import parse_fn_text, find_fn_source
    world.structs['DevView'] = [('info', ('struct', 'Qcow2Info'))]
    world.impl_file['Qcow2DevR'] = 'dev/read.rs'
    world.impl_marker['Qcow2DevR'] = 'impl<T: Qcow2IoOps> Qcow2Dev<T>'
    world.impl_file['Qcow2DevW'] = 'dev/write.rs'
    world.impl_marker['Qcow2DevW'] = 'impl<T: Qcow2IoOps> Qcow2Dev<T>'
    world.impl_file['Qcow2DevD'] = 'dev/discard.rs'
    world.impl_marker['Qcow2DevD'] = 'impl<T: Qcow2IoOps> Qcow2Dev<T>'

    def is_let_of(name):
        def pred(s):
            return s[0] == 'let' and s[1][0] == 'pvar' and s[1][1] == name
        return pred

    targets = [
        ('Qcow2DevR', '__read_at', 'g_read_at_checks', is_let_of('done'), ['offset', 'len', 'extra', 'single']),
        ('Qcow2DevW', '__write_at', 'g_write_at_checks', lambda s: s[0] in ('expr', 'semi') and s[1][0] == 'if' and s[1][1] == ('path', ['single']), ['offset', 'len', 'single']),
        ('Qcow2DevD', 'discard', 'g_discard_checks', lambda s: is_let_of('guest')(s) or is_let_of('released')(s), ['start', 'stop']),
    ]
    for owner, name, cname, cut, live in targets:
        try:
            fn = world.get_fn(owner, name)
            tr = Tr(world)
            tr.top_name = cname
            tr.lit_default = 'usize'
            env = {'$Self': 'DevView'}
            args = []
            for pn, pt in fn['params']:
                if pn == 'self':
                    t = ('struct', 'DevView')
                else:
                    t = world.norm_type(pt)
                x = tr.fresh()
                env[pn] = ('var', x, t)
                args.append((pn, t))
            ret = world.norm_type(fn['ret'])
            tr.ret_stack = [(ret, None)]
            tr.ret_wrap = lambda a: ('ETup', [('EInt', 0), a])

            def final(env2, val, live=live, tr=tr):
                if val is None:
                    return ('ETup', [('EInt', 1)] + [tr.expr(('path', [v]), env2)[0] for v in live])
                return ('ETup', [('EInt', 0), val])
            ast = tr.stmts(fn['body'][1], env, ret, final, cut=cut)
            world.defs.append((cname, '%s::%s (argument checks, up to the cut)' % (owner, name), args,
                               ('tup', ('tag', 'payload')), ast, fn['text']))
        except (Untranslatable, SyntaxError, KeyError, ValueError, IndexError, TypeError, AttributeError) as ex:
            report['untranslated'].append({'fn': '%s::%s(checks)' % (owner, name), 'why': '%s: %s' % (type(ex).__name__, ex)})
    world.impl_file['Qcow2DevC'] = 'dev/cache.rs'
    world.impl_marker['Qcow2DevC'] = 'impl<T: Qcow2IoOps> Qcow2Dev<T>'
    for name in ['rb_slice_key_of_rt_off', 'l2_slice_key_of_l1_off']:
        try:
            fn = world.get_fn('Qcow2DevC', name)
            tr = Tr(world)
            tr.top_name = 'g_' + name
            env = {'$Self': 'DevView'}
            args = []
            for pn, pt in fn['params']:
                t = ('struct', 'DevView') if pn == 'self' else world.norm_type(pt)
                x = tr.fresh()
                env[pn] = ('var', x, t)
                args.append((pn, t))
            ret = world.norm_type(fn['ret'])
            ast, _ = tr.fn_body(fn, env, ret)
            world.defs.append(('g_' + name, 'Qcow2Dev::' + name, args, ret, ast, fn['text']))
        except (Untranslatable, SyntaxError, KeyError, ValueError, IndexError, TypeError, AttributeError) as ex:
            report['untranslated'].append({'fn': 'Qcow2Dev::' + name, 'why': '%s: %s' % (type(ex).__name__, ex)})
