//! `qh backend <script> <dir>`: the same request sequences / guest histories on the real I/O back ends
//! (sync, tokio, io_uring over scratch files) and on SimFile.
//! Script:
//!   breq <id>                     raw request sequence on an initially empty file
//!     R <off> <len> | W <off> <len> <seed> | Z <off> <len> | S
//!   bend
//!   bhist <id> <size> <cb> <ro>   guest history on a freshly formatted image
//!     W <off> <len> <tag> | R <off> <len> | D <off> <len> | F | K
//!   bend
//! Output: one line per (backend, step): "<id> <backend> <i> <result>", then "<id> <backend> final len=<n> hash=<h>"
//! (host file) and for histories "<id> <backend> guest <hash of a full sweep>".
use crate::simfile::SimFile;
use qcow2_rs::dev::{Qcow2Dev, Qcow2DevParams};
use qcow2_rs::helpers::Qcow2IoBuf;
use qcow2_rs::meta::Qcow2Header;
use qcow2_rs::ops::Qcow2IoOps;
use std::path::{Path, PathBuf};

fn fnv(b: &[u8]) -> u64 {
    let mut h: u64 = 0xcbf29ce484222325;
    for x in b {
        h ^= *x as u64;
        h = h.wrapping_mul(0x100000001b3);
    }
    h
}

fn pattern(buf: &mut [u8], off: u64, seed: u64) {
    for (i, b) in buf.iter_mut().enumerate() {
        let x = (off + i as u64).wrapping_mul(0x9E3779B97F4A7C15) ^ seed.wrapping_mul(0xD1B54A32D192ED03);
        *b = (x >> 29) as u8 | 1;
    }
}

#[derive(Clone)]
enum Req {
    R(u64, usize),
    W(u64, usize, u64),
    Z(u64, usize),
    S,
    L(u64), // file size limit from here on (0: none)
}

#[derive(Clone)]
enum GOp {
    W(u64, usize, u64),
    R(u64, usize),
    D(u64, u64),
    F,
    K,
}

thread_local! {
    static SIM_LIMIT: std::cell::RefCell<Option<SimFile>> = std::cell::RefCell::new(None);
}

/// file size limit: on the model through SimFile, on real files through RLIMIT_FSIZE (SIGXFSZ ignored)
fn set_limit(limit: u64) {
    let sim = SIM_LIMIT.with(|s| s.borrow().clone());
    match sim {
        Some(f) => f.set_size_limit(if limit == 0 { None } else { Some(limit as usize) }),
        None => unsafe {
            libc::signal(libc::SIGXFSZ, libc::SIG_IGN);
            let mut rl = libc::rlimit { rlim_cur: 0, rlim_max: 0 };
            libc::getrlimit(libc::RLIMIT_FSIZE, &mut rl);
            rl.rlim_cur = if limit == 0 { rl.rlim_max } else { limit as libc::rlim_t };
            libc::setrlimit(libc::RLIMIT_FSIZE, &rl);
        },
    }
}

async fn run_reqs<T: Qcow2IoOps>(io: &T, reqs: &[Req]) -> Vec<String> {
    let mut out = Vec::new();
    for r in reqs {
        let line = match r {
            Req::R(off, 0) => {
                let mut e: [u8; 0] = [];
                match io.read_to(*off, &mut e).await {
                    Ok(n) => format!("ok {} 0", n),
                    Err(_) => "err".to_string(),
                }
            }
            Req::R(off, len) => {
                let mut buf = Qcow2IoBuf::<u8>::new(*len);
                for b in buf.iter_mut() {
                    *b = 0xA5;
                }
                match io.read_to(*off, &mut buf).await {
                    Ok(n) => format!("ok {} {:x}", n, fnv(&buf[..n.min(*len)])),
                    Err(_) => "err".to_string(),
                }
            }
            Req::W(off, len, seed) => {
                let mut buf = Qcow2IoBuf::<u8>::new(*len);
                pattern(&mut buf, *off, *seed);
                match io.write_from(*off, &buf).await {
                    Ok(()) => "ok".to_string(),
                    Err(_) => "err".to_string(),
                }
            }
            Req::Z(off, len) => match io.fallocate(*off, *len, qcow2_rs::ops::Qcow2OpsFlags::FALLOCATE_ZERO_RANGE).await {
                Ok(()) => "ok".to_string(),
                // the library falls back to writing zeros (call_fallocate): same here
                Err(_) => {
                    let buf = Qcow2IoBuf::<u8>::new(*len);
                    let mut z = buf;
                    for b in z.iter_mut() {
                        *b = 0;
                    }
                    match io.write_from(*off, &z).await {
                        Ok(()) => "fallback".to_string(),
                        Err(_) => "err".to_string(),
                    }
                }
            },
            Req::L(limit) => {
                set_limit(*limit);
                "ok".to_string()
            }
            Req::S => match io.fsync(0, usize::MAX, 0).await {
                Ok(()) => "ok".to_string(),
                Err(_) => "err".to_string(),
            },
        };
        out.push(line);
    }
    out
}

async fn run_hist<T: Qcow2IoOps>(path: &Path, io: T, size: u64, ops: &[GOp]) -> Vec<String> {
    let mut out = Vec::new();
    let params = Qcow2DevParams::new(9, None, None, false, false);
    let dev: Qcow2Dev<T> = match qcow2_rs::utils::qcow2_alloc_dev(path, io, &params).await {
        Ok((d, _)) => d,
        Err(e) => {
            out.push(format!("open err {}", e));
            return out;
        }
    };
    if let Err(e) = dev.qcow2_prep_io().await {
        out.push(format!("prep err {}", e));
        return out;
    }
    for op in ops {
        let line = match op {
            GOp::W(off, len, tag) => {
                let mut buf = Qcow2IoBuf::<u8>::new(*len);
                pattern(&mut buf, *off, *tag);
                match dev.write_at(&buf, *off).await {
                    Ok(()) => "ok".to_string(),
                    Err(_) => "err".to_string(),
                }
            }
            GOp::R(off, len) => {
                let mut buf = Qcow2IoBuf::<u8>::new(*len);
                match dev.read_at(&mut buf, *off).await {
                    Ok(n) => format!("ok {} {:x}", n, fnv(&buf[..n.min(*len)])),
                    Err(_) => "err".to_string(),
                }
            }
            GOp::D(off, len) => match dev.discard(*off, *len).await {
                Ok(()) => "ok".to_string(),
                Err(_) => "err".to_string(),
            },
            GOp::F => match dev.flush_meta().await {
                Ok(()) => "ok".to_string(),
                Err(_) => "err".to_string(),
            },
            GOp::K => match dev.shrink_caches().await {
                Ok(()) => "ok".to_string(),
                Err(_) => "err".to_string(),
            },
        };
        out.push(line);
    }
    // full sweep
    let mut h: u64 = 0;
    let chunk = 1usize << 16;
    let mut off = 0u64;
    let total = size / 512 * 512;
    while off < total {
        let len = std::cmp::min(chunk as u64, total - off) as usize;
        let mut buf = Qcow2IoBuf::<u8>::new(len);
        match dev.read_at(&mut buf, off).await {
            Ok(n) => h = h.rotate_left(7) ^ fnv(&buf[..n.min(len)]) ^ (n as u64),
            Err(_) => h = h.rotate_left(7) ^ 0xdead,
        }
        off += len as u64;
    }
    let _ = dev.flush_meta().await;
    out.push(format!("guest {:x}", h));
    out
}

fn format_image(size: u64, cb: usize, ro: u8) -> Vec<u8> {
    let (rc_t, rc_b, _) = Qcow2Header::calculate_meta_params(size, cb, ro, 512);
    let clusters = 1 + rc_t.1 + rc_b.1;
    let img_size = ((clusters as usize) << cb) + 512;
    let mut buf = vec![0u8; img_size];
    Qcow2Header::format_qcow2(&mut buf, size, cb, ro, 512).unwrap();
    buf
}

fn file_summary(path: &Path) -> String {
    match std::fs::read(path) {
        Ok(b) => format!("final len={} hash={:x}", b.len(), fnv(&b)),
        Err(e) => format!("final err {}", e),
    }
}

fn on_real<F>(name: &str, path: &PathBuf, init: &[u8], f: F) -> Vec<String>
where
    F: FnOnce(&str, &PathBuf) -> Vec<String> + std::panic::UnwindSafe,
{
    std::fs::write(path, init).unwrap();
    let p2 = path.clone();
    let n2 = name.to_string();
    let mut lines = match std::panic::catch_unwind(move || f(&n2, &p2)) {
        Ok(l) => l,
        Err(_) => vec!["unavailable (panic)".to_string()],
    };
    lines.push(file_summary(path));
    let _ = std::fs::remove_file(path);
    lines
}

pub fn run(script: &str, dir: &str) {
    let text = std::fs::read_to_string(script).expect("script");
    let lines: Vec<&str> = text.lines().collect();
    let mut i = 0;
    while i < lines.len() {
        let t: Vec<&str> = lines[i].split_whitespace().collect();
        i += 1;
        if t.is_empty() {
            continue;
        }
        if t[0] == "breq" {
            let id = t[1].to_string();
            let mut reqs = Vec::new();
            while i < lines.len() && lines[i].trim() != "bend" {
                let u: Vec<&str> = lines[i].split_whitespace().collect();
                i += 1;
                match u[0] {
                    "R" => reqs.push(Req::R(u[1].parse().unwrap(), u[2].parse().unwrap())),
                    "W" => reqs.push(Req::W(u[1].parse().unwrap(), u[2].parse().unwrap(), u[3].parse().unwrap())),
                    "Z" => reqs.push(Req::Z(u[1].parse().unwrap(), u[2].parse().unwrap())),
                    "L" => reqs.push(Req::L(u[1].parse().unwrap())),
                    _ => reqs.push(Req::S),
                }
            }
            i += 1;
            // SimFile
            let sim = SimFile::new("sim", Vec::new());
            SIM_LIMIT.with(|s| *s.borrow_mut() = Some(sim.clone()));
            let r = futures::executor::block_on(run_reqs(&sim, &reqs));
            SIM_LIMIT.with(|s| *s.borrow_mut() = None);
            set_limit(0);
            for (k, l) in r.iter().enumerate() {
                println!("{} sim {} {}", id, k, l);
            }
            let snap = sim.snapshot();
            println!("{} sim final len={} hash={:x}", id, snap.len(), fnv(&snap));
            let path = PathBuf::from(format!("{}/{}.bin", dir, id));
            for backend in ["sync", "tokio", "uring"] {
                let rq = reqs.clone();
                let out = on_real(backend, &path, &[], move |name, p| run_backend_reqs(name, p, &rq));
                set_limit(0);
                for (k, l) in out.iter().enumerate() {
                    if l.starts_with("final") {
                        println!("{} {} {}", id, backend, l);
                    } else {
                        println!("{} {} {} {}", id, backend, k, l);
                    }
                }
            }
        } else if t[0] == "bhist" {
            let id = t[1].to_string();
            let size: u64 = t[2].parse().unwrap();
            let cb: usize = t[3].parse().unwrap();
            let ro: u8 = t[4].parse().unwrap();
            let mut ops = Vec::new();
            while i < lines.len() && lines[i].trim() != "bend" {
                let u: Vec<&str> = lines[i].split_whitespace().collect();
                i += 1;
                match u[0] {
                    "W" => ops.push(GOp::W(u[1].parse().unwrap(), u[2].parse().unwrap(), u[3].parse().unwrap())),
                    "R" => ops.push(GOp::R(u[1].parse().unwrap(), u[2].parse().unwrap())),
                    "D" => ops.push(GOp::D(u[1].parse().unwrap(), u[2].parse().unwrap())),
                    "F" => ops.push(GOp::F),
                    _ => ops.push(GOp::K),
                }
            }
            i += 1;
            let mut img = format_image(size, cb, ro);
            // optional stale tail: the host file is longer than the image needs and holds old bytes
            let tail: usize = if t.len() > 5 { t[5].parse().unwrap() } else { 0 };
            let len0 = img.len();
            img.resize(len0 + tail, 0xA5);
            // the host-file model without hole punching (zero-write fallback) must give the same guest content
            {
                let simnp = SimFile::new("simnp", img.clone());
                simnp.0.borrow_mut().punch_supported = false;
                let r = futures::executor::block_on(run_hist(Path::new("simnp"), simnp.clone(), size, &ops));
                for (k, l) in r.iter().enumerate() {
                    println!("{} simnp {} {}", id, k, l);
                }
            }
            let sim = SimFile::new("sim", img.clone());
            let r = futures::executor::block_on(run_hist(Path::new("sim"), sim.clone(), size, &ops));
            for (k, l) in r.iter().enumerate() {
                println!("{} sim {} {}", id, k, l);
            }
            let snap = sim.snapshot();
            println!("{} sim final len={} hash={:x}", id, snap.len(), fnv(&snap));
            let path = PathBuf::from(format!("{}/{}.qcow2", dir, id));
            for backend in ["sync", "tokio", "uring"] {
                let o2 = ops.clone();
                let out = on_real(backend, &path, &img, move |name, p| run_backend_hist(name, p, size, &o2));
                for (k, l) in out.iter().enumerate() {
                    if l.starts_with("final") {
                        println!("{} {} {}", id, backend, l);
                    } else {
                        println!("{} {} {} {}", id, backend, k, l);
                    }
                }
            }
        }
    }
}

fn run_backend_reqs(name: &str, p: &PathBuf, reqs: &[Req]) -> Vec<String> {
    match name {
        "sync" => {
            let io = qcow2_rs::sync_io::Qcow2IoSync::new(p, false, false);
            futures::executor::block_on(run_reqs(&io, reqs))
        }
        "tokio" => {
            let rt = tokio::runtime::Builder::new_current_thread().enable_all().build().unwrap();
            rt.block_on(async {
                let io = qcow2_rs::tokio_io::Qcow2IoTokio::new(p, false, false).await;
                run_reqs(&io, reqs).await
            })
        }
        _ => tokio_uring::start(async {
            let io = qcow2_rs::uring::Qcow2IoUring::new(p, false, false).await;
            run_reqs(&io, reqs).await
        }),
    }
}

fn run_backend_hist(name: &str, p: &PathBuf, size: u64, ops: &[GOp]) -> Vec<String> {
    match name {
        "sync" => {
            let io = qcow2_rs::sync_io::Qcow2IoSync::new(p, false, false);
            futures::executor::block_on(run_hist(p, io, size, ops))
        }
        "tokio" => {
            let rt = tokio::runtime::Builder::new_current_thread().enable_all().build().unwrap();
            rt.block_on(async {
                let io = qcow2_rs::tokio_io::Qcow2IoTokio::new(p, false, false).await;
                run_hist(p, io, size, ops).await
            })
        }
        _ => tokio_uring::start(async {
            let io = qcow2_rs::uring::Qcow2IoUring::new(p, false, false).await;
            run_hist(p, io, size, ops).await
        }),
    }
}
