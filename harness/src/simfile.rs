// In-memory host file implementing the Qcow2IoOps contract of Base/File.v:
//   read: short at EOF; write: extends with zeros; punch: zero below EOF, keep length;
//   punch unsupported => Err (library falls back to a zero write); fsync: barrier.
// Every request is logged.  In "hold" mode a request stays in flight until the
// deterministic scheduler grants it; its effect is applied when it is granted.
use qcow2_rs::error::Qcow2Result;
use qcow2_rs::ops::Qcow2IoOps;
use std::cell::RefCell;
use std::collections::BTreeMap;
use std::future::Future;
use std::pin::Pin;
use std::rc::Rc;
use std::task::{Context, Poll, Waker};

#[derive(Clone, Copy, Debug, PartialEq, Eq)]
pub enum Kind {
    Read,
    Write,
    Zero,
    Sync,
}

impl Kind {
    pub fn ch(&self) -> char {
        match self {
            Kind::Read => 'R',
            Kind::Write => 'W',
            Kind::Zero => 'Z',
            Kind::Sync => 'S',
        }
    }
}

#[derive(Clone, Debug)]
pub struct Req {
    pub id: usize,
    pub kind: Kind,
    pub off: u64,
    pub len: usize,
    pub bufmod: usize, // buffer address mod 4096
    pub payload: Option<Vec<u8>>, // for writes
    pub ok: bool,
    pub done: bool,
    pub op: usize,   // index of API call (marker set by the runner)
    pub task: usize, // issuing task (concurrent runs)
    pub ret: usize,  // bytes returned by a read
    pub result: Option<bool>, // effect applied (at grant time): Some(ok)
    pub rdata: Option<Vec<u8>>, // data read at grant time, handed to the future when polled
    pub aseq: usize, // position in the order in which effects were applied (usize::MAX: never applied)
}

#[derive(Clone, Debug)]
pub struct FaultRule {
    pub kind: Kind,
    pub lo: u64,
    pub hi: u64, // request range must intersect [lo, hi)
    pub nth: usize, // fail the nth matching request (0-based); usize::MAX = all
    pub seen: usize,
    pub active: bool,
    pub chain: bool, // (kind Z) the write request that follows a failed punch on the same range fails too
}

pub struct SimInner {
    pub name: String,
    pub data: Vec<u8>,
    pub log: Vec<Req>,
    pub punch_supported: bool,
    pub faults: Vec<FaultRule>,
    pub faults_on: bool,
    pub fail_by_index: Option<usize>, // fail the request with this sequence number
    pub chain_pending: Option<(u64, usize)>,
    pub apply_seq: usize,
    pub hold: bool,
    pub inflight: BTreeMap<usize, Option<Waker>>, // id -> waker of the waiting future
    pub granted: BTreeMap<usize, bool>,
    pub cur_op: usize,
    pub cur_task: usize,
    pub modifying_reqs: usize,
    pub max_len: usize, // refuse to grow beyond this (models ENOSPC / runaway)
    pub partial_at_limit: bool, // file size limit (RLIMIT_FSIZE): a write across it stores the part below it, then fails
}

#[derive(Clone)]
pub struct SimFile(pub Rc<RefCell<SimInner>>);

impl SimFile {
    pub fn new(name: &str, data: Vec<u8>) -> SimFile {
        SimFile(Rc::new(RefCell::new(SimInner {
            name: name.to_string(),
            data,
            log: Vec::new(),
            punch_supported: true,
            faults: Vec::new(),
            faults_on: true,
            fail_by_index: None,
            chain_pending: None,
            apply_seq: 0,
            hold: false,
            inflight: BTreeMap::new(),
            granted: BTreeMap::new(),
            cur_op: 0,
            cur_task: 0,
            modifying_reqs: 0,
            max_len: 1 << 30,
            partial_at_limit: false,
        })))
    }

    pub fn snapshot(&self) -> Vec<u8> {
        self.0.borrow().data.clone()
    }

    /// file size limit as RLIMIT_FSIZE gives it (None: no limit)
    pub fn set_size_limit(&self, limit: Option<usize>) {
        let mut s = self.0.borrow_mut();
        match limit {
            Some(l) => {
                s.max_len = l;
                s.partial_at_limit = true;
            }
            None => {
                s.max_len = 1 << 30;
                s.partial_at_limit = false;
            }
        }
    }

    pub fn set_op(&self, op: usize) {
        self.0.borrow_mut().cur_op = op;
    }

    pub fn set_task(&self, t: usize) {
        self.0.borrow_mut().cur_task = t;
    }

    pub fn inflight_ids(&self) -> Vec<usize> {
        let s = self.0.borrow();
        s.inflight
            .keys()
            .filter(|k| !s.granted.contains_key(k))
            .cloned()
            .collect()
    }

    /// scheduler: let request `id` complete; wakes the waiting future
    pub fn grant(&self, id: usize) {
        self.apply(id);
        let w = {
            let mut s = self.0.borrow_mut();
            s.granted.insert(id, true);
            s.inflight.get_mut(&id).and_then(|w| w.take())
        };
        if let Some(w) = w {
            w.wake();
        }
    }

    fn should_fail(s: &mut SimInner, kind: Kind, off: u64, len: usize, seq: usize) -> bool {
        if !s.faults_on {
            return false;
        }
        if s.fail_by_index == Some(seq) {
            return true;
        }
        let end = off.saturating_add(len as u64);
        let mut fail = false;
        if kind == Kind::Write && s.chain_pending == Some((off, len)) {
            s.chain_pending = None;
            fail = true;
        }
        let mut chain = None;
        for f in s.faults.iter_mut() {
            if !f.active || f.kind != kind {
                continue;
            }
            let hit = if kind == Kind::Sync {
                true
            } else {
                off < f.hi && end > f.lo
            };
            if hit {
                if f.nth == usize::MAX || f.seen == f.nth {
                    fail = true;
                    if f.chain {
                        chain = Some((off, len));
                    }
                }
                f.seen += 1;
            }
        }
        if chain.is_some() {
            s.chain_pending = chain;
        }
        fail
    }

    fn issue(&self, kind: Kind, off: u64, len: usize, bufaddr: usize, payload: Option<&[u8]>) -> usize {
        let mut s = self.0.borrow_mut();
        let id = s.log.len();
        let op = s.cur_op;
        let task = s.cur_task;
        s.log.push(Req {
            id,
            kind,
            off,
            len,
            bufmod: bufaddr % 4096,
            payload: payload.map(|p| p.to_vec()),
            ok: false,
            done: false,
            op,
            task,
            ret: 0,
            result: None,
            rdata: None,
            aseq: usize::MAX,
        });
        if kind != Kind::Read {
            s.modifying_reqs += 1;
        }
        if s.hold {
            s.inflight.insert(id, None);
        }
        id
    }

    /// apply the effect of request `id` to the file (once)
    fn apply(&self, id: usize) {
        let mut s = self.0.borrow_mut();
        if s.log[id].result.is_some() {
            return;
        }
        let (kind, off, len) = {
            let r = &s.log[id];
            (r.kind, r.off, r.len)
        };
        let mut fail = Self::should_fail(&mut s, kind, off, len, id);
        s.log[id].done = true;
        s.log[id].aseq = s.apply_seq;
        s.apply_seq += 1;
        // offsets a host file cannot have (off_t is signed): EINVAL
        if kind != Kind::Sync && (off >= (1 << 62) || (len as u64) >= (1 << 62)) {
            fail = true;
        }
        if fail {
            s.log[id].result = Some(false);
            return;
        }
        let ok = match kind {
            Kind::Read => {
                let flen = s.data.len() as u64;
                let n = if off >= flen {
                    0
                } else {
                    std::cmp::min(len as u64, flen - off) as usize
                };
                let d = s.data[(off as usize).min(s.data.len())..(off as usize).min(s.data.len()) + n].to_vec();
                s.log[id].rdata = Some(d);
                s.log[id].ret = n;
                true
            }
            Kind::Write => {
                let end = off as usize + len;
                if end > s.max_len {
                    if s.partial_at_limit && (off as usize) < s.max_len {
                        let keep = s.max_len - off as usize;
                        if s.max_len > s.data.len() {
                            let ml = s.max_len;
                            s.data.resize(ml, 0);
                        }
                        let p = s.log[id].payload.clone().unwrap();
                        let o = off as usize;
                        s.data[o..o + keep].copy_from_slice(&p[..keep]);
                    }
                    false
                } else {
                    if end > s.data.len() && len > 0 {
                        s.data.resize(end, 0);
                    }
                    let p = s.log[id].payload.clone().unwrap();
                    s.data[off as usize..end].copy_from_slice(&p);
                    true
                }
            }
            Kind::Zero => {
                if !s.punch_supported {
                    false
                } else {
                    let flen = s.data.len() as u64;
                    if off < flen {
                        let end = std::cmp::min(off.saturating_add(len as u64), flen) as usize;
                        for b in &mut s.data[off as usize..end] {
                            *b = 0;
                        }
                    }
                    true
                }
            }
            Kind::Sync => true,
        };
        s.log[id].ok = ok;
        s.log[id].result = Some(ok);
    }

    /// hand the (already applied) result to the future
    fn complete(&self, id: usize, rbuf: Option<&mut [u8]>) -> Qcow2Result<usize> {
        self.apply(id);
        let mut s = self.0.borrow_mut();
        s.inflight.remove(&id);
        s.granted.remove(&id);
        if s.log[id].result != Some(true) {
            return Err("injected backend failure".into());
        }
        if let Some(buf) = rbuf {
            let d = s.log[id].rdata.take().unwrap_or_default();
            buf[..d.len()].copy_from_slice(&d);
            return Ok(d.len());
        }
        Ok(0)
    }
}

/// future of one backend request
struct ReqFut<'a> {
    f: &'a SimFile,
    id: usize,
    rbuf: Option<&'a mut [u8]>,
    finished: bool,
}

impl<'a> Future for ReqFut<'a> {
    type Output = Qcow2Result<usize>;
    fn poll(mut self: Pin<&mut Self>, cx: &mut Context<'_>) -> Poll<Self::Output> {
        assert!(!self.finished);
        let id = self.id;
        let hold = self.f.0.borrow().hold;
        if hold {
            let mut s = self.f.0.borrow_mut();
            if !s.granted.contains_key(&id) {
                // still in flight: park
                s.inflight.insert(id, Some(cx.waker().clone()));
                return Poll::Pending;
            }
        }
        self.finished = true;
        let f = self.f;
        let rb = self.rbuf.take();
        Poll::Ready(f.complete(id, rb))
    }
}

impl<'a> Drop for ReqFut<'a> {
    fn drop(&mut self) {
        if !self.finished {
            // request future dropped before completion: never happens in this code base;
            // drop it from the in-flight set so the scheduler does not wait for it
            let mut s = self.f.0.borrow_mut();
            s.inflight.remove(&self.id);
            s.granted.remove(&self.id);
        }
    }
}

impl Qcow2IoOps for SimFile {
    async fn read_to(&self, offset: u64, buf: &mut [u8]) -> Qcow2Result<usize> {
        let id = self.issue(Kind::Read, offset, buf.len(), buf.as_ptr() as usize, None);
        ReqFut {
            f: self,
            id,
            rbuf: Some(buf),
            finished: false,
        }
        .await
    }

    async fn write_from(&self, offset: u64, buf: &[u8]) -> Qcow2Result<()> {
        let id = self.issue(Kind::Write, offset, buf.len(), buf.as_ptr() as usize, Some(buf));
        ReqFut {
            f: self,
            id,
            rbuf: None,
            finished: false,
        }
        .await
        .map(|_| ())
    }

    async fn fallocate(&self, offset: u64, len: usize, _flags: u32) -> Qcow2Result<()> {
        let id = self.issue(Kind::Zero, offset, len, 0, None);
        ReqFut {
            f: self,
            id,
            rbuf: None,
            finished: false,
        }
        .await
        .map(|_| ())
    }

    async fn fsync(&self, offset: u64, len: usize, _flags: u32) -> Qcow2Result<()> {
        let id = self.issue(Kind::Sync, offset, len, 0, None);
        ReqFut {
            f: self,
            id,
            rbuf: None,
            finished: false,
        }
        .await
        .map(|_| ())
    }
}
