// qh: runs case batches against the real qcow2-rs library on SimFile.
// Usage: qh <batch-file> <outdir>       observations go to stdout
mod codec;
mod backend;
mod exec;
mod simfile;

use exec::{run_tasks, Outcome, Rng};
use qcow2_rs::dev::{Qcow2Dev, Qcow2DevParams};
use qcow2_rs::helpers::Qcow2IoBuf;
use qcow2_rs::meta::{MappingSource, Qcow2Header};
use simfile::{FaultRule, Kind, SimFile};
use std::fmt::Write as FmtWrite;
use std::future::Future;
use std::panic::{catch_unwind, AssertUnwindSafe};
use std::path::Path;
use std::pin::Pin;

type Dev = Qcow2Dev<SimFile>;

static OUT: std::sync::Mutex<String> = std::sync::Mutex::new(String::new());
static PLOC: std::sync::Mutex<String> = std::sync::Mutex::new(String::new());
static TICK: std::sync::Mutex<Option<(String, usize, std::time::Instant)>> = std::sync::Mutex::new(None);

macro_rules! outln {
    ($($arg:tt)*) => {{
        let mut o = OUT.lock().unwrap();
        writeln!(o, $($arg)*).unwrap();
        if o.len() > 1 << 20 {
            print!("{}", o);
            o.clear();
        }
    }};
}

fn tick(case: &str, op: usize) {
    *TICK.lock().unwrap() = Some((case.to_string(), op, std::time::Instant::now()));
}

fn start_watchdog() {
    let limit_ms: u128 = std::env::var("QH_OP_TIMEOUT_MS").ok().and_then(|s| s.parse().ok()).unwrap_or(8000);
    std::thread::spawn(move || loop {
        std::thread::sleep(std::time::Duration::from_millis(50));
        let t = TICK.lock().unwrap().clone();
        if let Some((case, op, at)) = t {
            if at.elapsed().as_millis() > limit_ms {
                use std::io::Write;
                let o = OUT.lock().unwrap();
                print!("{}", o);
                println!("hang {} {}", case, op);
                println!("end");
                std::io::stdout().flush().unwrap();
                std::process::exit(3);
            }
        }
    });
}

#[derive(Clone, Debug)]
enum Op {
    W(u64, usize, u64),
    R(u64, usize),
    D(u64, u64),
    F,
    S,
    Y, // flush_meta then fsync_range (one sync point)
    K,
    N,
    C,
    M,
    Q(u64), // get_mapping of one offset
}

#[derive(Clone, Debug)]
struct Params {
    bs: u8,
    l2: Option<(u8, usize)>,
    rb: Option<(u8, usize)>,
    ro: bool,
}

impl Params {
    fn parse(t: &[&str]) -> Params {
        fn cache(s: &str) -> Option<(u8, usize)> {
            if s == "-" {
                None
            } else {
                let mut it = s.split(':');
                let b: u8 = it.next().unwrap().parse().unwrap();
                let n: usize = it.next().unwrap().parse().unwrap();
                Some((b, n))
            }
        }
        Params {
            bs: t[0].parse().unwrap(),
            l2: cache(t[1]),
            rb: cache(t[2]),
            ro: t[3] == "1",
        }
    }
    fn to_dev(&self) -> Qcow2DevParams {
        Qcow2DevParams::new(self.bs, self.rb, self.l2, self.ro, false)
    }
}

fn fnv(b: &[u8]) -> u64 {
    let mut h: u64 = 0xcbf29ce484222325;
    for x in b {
        h ^= *x as u64;
        h = h.wrapping_mul(0x100000001b3);
    }
    h
}

/// canonical printable value of one 512-byte block
fn blockval(b: &[u8]) -> String {
    let w0 = u64::from_le_bytes(b[0..8].try_into().unwrap());
    let mut same = true;
    for c in b.chunks(8) {
        if c.len() != 8 || u64::from_le_bytes(c.try_into().unwrap()) != w0 {
            same = false;
            break;
        }
    }
    if same {
        format!("w{:x}", w0)
    } else {
        format!("h{:x}", fnv(b))
    }
}

fn fill_pattern(buf: &mut [u8], off: u64, tag: u64) {
    for (i, c) in buf.chunks_mut(512).enumerate() {
        let blk = off / 512 + i as u64;
        let w: u64 = (tag << 40) | (blk & 0xff_ffff_ffff);
        for q in c.chunks_mut(8) {
            let bytes = w.to_le_bytes();
            q.copy_from_slice(&bytes[..q.len()]);
        }
    }
}

fn sanitize(s: &str) -> String {
    s.chars()
        .map(|c| if c.is_ascii_alphanumeric() { c } else { '_' })
        .take(60)
        .collect()
}

struct OpOut {
    line: String,
}

async fn run_op(dev: &Dev, op: &Op) -> OpOut {
    let mut line = String::new();
    match op {
        Op::W(off, len, tag) => {
            let r = if *len == 0 {
                dev.write_at(&[], *off).await
            } else {
                let mut buf = Qcow2IoBuf::<u8>::new(*len);
                fill_pattern(&mut buf, *off, *tag);
                dev.write_at(&buf, *off).await
            };
            match r {
                Ok(()) => write!(line, "ok").unwrap(),
                Err(e) => write!(line, "err {}", sanitize(&format!("{}", e))).unwrap(),
            }
        }
        Op::R(off, len) => {
            let (r, data) = if *len == 0 {
                let mut e: [u8; 0] = [];
                (dev.read_at(&mut e, *off).await, Vec::new())
            } else {
                let mut buf = Qcow2IoBuf::<u8>::new(*len);
                for b in buf.iter_mut() {
                    *b = 0xA5;
                }
                let r = dev.read_at(&mut buf, *off).await;
                (r, buf.to_vec())
            };
            match r {
                Ok(n) => {
                    write!(line, "ok {}", n).unwrap();
                    for c in data.chunks(512) {
                        write!(line, " {}", blockval(c)).unwrap();
                    }
                }
                Err(e) => write!(line, "err {}", sanitize(&format!("{}", e))).unwrap(),
            }
        }
        Op::D(off, len) => match dev.discard(*off, *len).await {
            Ok(()) => write!(line, "ok").unwrap(),
            Err(e) => write!(line, "err {}", sanitize(&format!("{}", e))).unwrap(),
        },
        Op::F => match dev.flush_meta().await {
            Ok(()) => write!(line, "ok").unwrap(),
            Err(e) => write!(line, "err {}", sanitize(&format!("{}", e))).unwrap(),
        },
        Op::Y => match dev.flush_meta().await {
            Ok(()) => match dev.fsync_range(0, usize::MAX).await {
                Ok(()) => write!(line, "ok").unwrap(),
                Err(e) => write!(line, "err {}", sanitize(&format!("{}", e))).unwrap(),
            },
            Err(e) => write!(line, "err {}", sanitize(&format!("{}", e))).unwrap(),
        },
        Op::S => match dev.fsync_range(0, usize::MAX).await {
            Ok(()) => write!(line, "ok").unwrap(),
            Err(e) => write!(line, "err {}", sanitize(&format!("{}", e))).unwrap(),
        },
        Op::K => match dev.shrink_caches().await {
            Ok(()) => write!(line, "ok").unwrap(),
            Err(e) => write!(line, "err {}", sanitize(&format!("{}", e))).unwrap(),
        },
        Op::N => {
            // flag + (dirty l2 slices, dirty refblock slices, dirty l1 blocks, dirty reftable blocks) through the hook
            let (a, b, c, d) = dev.verif_dirty_counts().await;
            write!(line, "ok {} dirty={},{},{},{}", if dev.need_flush_meta() { 1 } else { 0 }, a, b, c, d).unwrap()
        }
        Op::C => match dev.check().await {
            Ok(()) => write!(line, "ok").unwrap(),
            Err(e) => write!(line, "err {}", sanitize(&format!("{}", e))).unwrap(),
        },
        Op::Q(off) => match dev.get_mapping(*off).await {
            Ok(m) => write!(line, "ok {}", fmt_mapping(&m)).unwrap(),
            Err(e) => write!(line, "err {}", sanitize(&format!("{}", e))).unwrap(),
        },
        Op::M => {
            let cs = dev.info.cluster_size() as u64;
            let vs = dev.info.virtual_size();
            write!(line, "ok").unwrap();
            let mut off = 0u64;
            while off < vs {
                match dev.get_mapping(off).await {
                    Ok(m) => {
                        // unallocated clusters are omitted to keep the dump small
                        if m.source != MappingSource::Unallocated {
                            write!(line, " {}={}", off / cs, fmt_mapping(&m)).unwrap()
                        }
                    }
                    Err(e) => write!(line, " {}=err_{}", off / cs, sanitize(&format!("{}", e))).unwrap(),
                }
                off += cs;
            }
        }
    }
    OpOut { line }
}

fn fmt_mapping(m: &qcow2_rs::meta::Mapping) -> String {
    let k = match m.source {
        MappingSource::DataFile => "D",
        MappingSource::Backing => "B",
        MappingSource::Zero => "Z",
        MappingSource::Compressed => "C",
        MappingSource::Unallocated => "U",
    };
    format!(
        "{}:{}:{}:{}",
        k,
        m.cluster_offset.map(|x| x as i128).unwrap_or(-1),
        m.compressed_length.unwrap_or(0),
        if m.copied { 1 } else { 0 }
    )
}

async fn open_dev(files: &[SimFile], p: &Params) -> Result<Dev, String> {
    // files[0] is the top image, files[1..] its backing chain
    let mut devs: Vec<Dev> = Vec::new();
    for (i, f) in files.iter().enumerate() {
        let mut dp = p.to_dev();
        if i > 0 {
            dp.mark_backing_dev(Some(true));
        }
        let (dev, _back) = qcow2_rs::utils::qcow2_alloc_dev(Path::new(&format!("sim{}", i)), f.clone(), &dp)
            .await
            .map_err(|e| format!("{}", e))?;
        devs.push(dev);
    }
    let mut cur: Option<Dev> = None;
    while let Some(mut d) = devs.pop() {
        if let Some(b) = cur.take() {
            d.set_backing_dev(Box::new(b));
        }
        cur = Some(d);
    }
    let dev = cur.unwrap();
    if let Err(e) = dev.qcow2_prep_io().await {
        // a caller may retry the preparation on the same device (one-shot faults are gone by then): the tables it
        // failed to load must be loaded then
        dev.qcow2_prep_io().await.map_err(|e2| format!("{} (retried: {})", e, e2))?;
    }
    Ok(dev)
}

/// run a single future on DetExec (requests complete at once): detects a self-deadlock
fn run_single<'a, T>(fut: Pin<Box<dyn Future<Output = T> + 'a>>, files: &[SimFile]) -> Result<T, String> {
    let mut rng = Rng(1);
    let mut er = run_tasks(vec![fut], files, &mut rng, 0, None, 50_000_000);
    match er.outcome {
        Outcome::Finished => Ok(er.results[0].take().unwrap()),
        Outcome::Deadlock(_) => Err("deadlock".to_string()),
        Outcome::Budget(_) => Err("budget".to_string()),
        Outcome::ReplayDiverged(_) => Err("diverged".to_string()),
    }
}

fn guard<T, F: FnOnce() -> T>(f: F) -> Result<T, String> {
    match catch_unwind(AssertUnwindSafe(f)) {
        Ok(v) => Ok(v),
        Err(e) => {
            let msg = if let Some(s) = e.downcast_ref::<String>() {
                s.clone()
            } else if let Some(s) = e.downcast_ref::<&str>() {
                s.to_string()
            } else {
                "?".to_string()
            };
            let loc = PLOC.lock().unwrap().clone();
            Err(format!("{}_at_{}", sanitize(&msg), sanitize(&loc)))
        }
    }
}

fn dump_log(f: &SimFile, path: &str, with_payload: bool) {
    let s = f.0.borrow();
    let mut out = String::new();
    for r in s.log.iter() {
        write!(
            out,
            "{} {} {} {} {} {} {} {} {}",
            r.kind.ch(),
            r.off,
            r.len,
            if r.ok { 1 } else { 0 },
            r.op,
            r.task,
            r.bufmod,
            r.ret,
            if r.aseq == usize::MAX { -1i64 } else { r.aseq as i64 }
        )
        .unwrap();
        if with_payload {
            if let Some(p) = &r.payload {
                out.push(' ');
                for b in p {
                    write!(out, "{:02x}", b).unwrap();
                }
            }
        }
        out.push('\n');
    }
    std::fs::write(path, out).unwrap();
}

fn parse_op(t: &[&str]) -> Option<Op> {
    Some(match t[0] {
        "W" => Op::W(t[1].parse().ok()?, t[2].parse().ok()?, t[3].parse().ok()?),
        "R" => Op::R(t[1].parse().ok()?, t[2].parse().ok()?),
        "D" => Op::D(t[1].parse().ok()?, t[2].parse().ok()?),
        "F" => Op::F,
        "S" => Op::S,
        "Y" => Op::Y,
        "K" => Op::K,
        "N" => Op::N,
        "C" => Op::C,
        "M" => Op::M,
        "Q" => Op::Q(t[1].parse().ok()?),
        _ => return None,
    })
}

struct Case {
    id: String,
    files: Vec<SimFile>,
    params: Params,
    dev: Option<Dev>,
    opno: usize,
    dead: bool,
}

/// yields to the scheduler once
struct YieldNow(bool);
impl Future for YieldNow {
    type Output = ();
    fn poll(mut self: Pin<&mut Self>, cx: &mut std::task::Context<'_>) -> std::task::Poll<()> {
        if self.0 {
            std::task::Poll::Ready(())
        } else {
            self.0 = true;
            cx.waker().wake_by_ref();
            std::task::Poll::Pending
        }
    }
}

struct StderrLog;
impl log::Log for StderrLog {
    fn enabled(&self, _: &log::Metadata) -> bool { true }
    fn log(&self, r: &log::Record) { eprintln!("LOG {} {}", r.level(), r.args()); }
    fn flush(&self) {}
}
static LOGGER: StderrLog = StderrLog;

fn main() {
    if std::env::var("QH_LOG").is_ok() {
        let _ = log::set_logger(&LOGGER);
        log::set_max_level(log::LevelFilter::Trace);
    }
    std::panic::set_hook(Box::new(|info| {
        if std::env::var("QH_PANIC").is_ok() {
            eprintln!("PANIC {}", info);
            if std::env::var("QH_BT").is_ok() {
                eprintln!("{}", std::backtrace::Backtrace::force_capture());
            }
        }
        if let Some(l) = info.location() {
            *PLOC.lock().unwrap() = format!("{}:{}", l.file().rsplit('/').next().unwrap_or(""), l.line());
        }
    }));
    let args: Vec<String> = std::env::args().collect();
    if args[1] == "codec" {
        codec::run(&args[2]);
        return;
    }
    if args[1] == "backend" {
        backend::run(&args[2], &args[3]);
        return;
    }
    if args[1] == "cache" {
        // one script per line: "<limit> <op>:<key> <op>:<key> ..." -> "script <n>" then one line per step
        let text = std::fs::read_to_string(&args[2]).expect("script file");
        for (n, line) in text.lines().enumerate() {
            let mut it = line.split_whitespace();
            let limit: usize = match it.next() { Some(x) => x.parse().unwrap(), None => continue };
            let ops: Vec<(u8, usize)> = it.map(|t| { let mut p = t.split(':'); (p.next().unwrap().parse().unwrap(), p.next().unwrap().parse().unwrap()) }).collect();
            println!("script {}", n);
            for l in qcow2_rs::cache::verif::cache_script(limit, &ops) {
                println!("{}", l);
            }
        }
        return;
    }
    let batch = std::fs::read_to_string(&args[1]).expect("batch file");
    let outdir = args.get(2).cloned().unwrap_or_else(|| ".".to_string());
    start_watchdog();
    let mut cur: Option<Case> = None;
    let lines: Vec<&str> = batch.lines().collect();
    let mut li = 0;
    while li < lines.len() {
        let line = lines[li].trim();
        li += 1;
        if line.is_empty() || line.starts_with('#') {
            continue;
        }
        let t: Vec<&str> = line.split_whitespace().collect();
        match t[0] {
            "case" => {
                cur = Some(Case {
                    id: t[1].to_string(),
                    files: Vec::new(),
                    params: Params {
                        bs: 9,
                        l2: None,
                        rb: None,
                        ro: false,
                    },
                    dev: None,
                    opno: 0,
                    dead: false,
                });
                outln!("case {}", t[1]);
            }
            "end" => {
                if let Some(mut c) = cur.take() {
                    let d = c.dev.take();
                    let _ = guard(|| drop(d));
                }
                outln!("end");
            }
            "image" => {
                let c = cur.as_mut().unwrap();
                match t[1] {
                    "format" => {
                        // image format <size> <cb> <ro> [<bs>]
                        let size: u64 = t[2].parse().unwrap();
                        let cb: usize = t[3].parse().unwrap();
                        let ro: u8 = t[4].parse().unwrap();
                        let bs: usize = if t.len() > 5 { t[5].parse().unwrap() } else { 512 };
                        let r = guard(|| {
                            let (rc_t, rc_b, _) = Qcow2Header::calculate_meta_params(size, cb, ro, bs);
                            let clusters = 1 + rc_t.1 + rc_b.1;
                            let img_size = ((clusters as usize) << cb) + bs;
                            let mut buf = vec![0u8; img_size];
                            Qcow2Header::format_qcow2(&mut buf, size, cb, ro, bs).map(|_| buf)
                        });
                        match r {
                            Ok(Ok(buf)) => {
                                c.files.push(SimFile::new("top", buf));
                                outln!("image ok");
                            }
                            Ok(Err(e)) => {
                                c.dead = true;
                                outln!("image err {}", sanitize(&format!("{}", e)));
                            }
                            Err(p) => {
                                c.dead = true;
                                outln!("image panic {}", p);
                            }
                        }
                    }
                    "file" => {
                        let data = std::fs::read(t[2]).expect("image file");
                        c.files.push(SimFile::new(t[2], data));
                        outln!("image ok");
                    }
                    "hex" => {
                        let data: Vec<u8> = (0..t[2].len() / 2)
                            .map(|i| u8::from_str_radix(&t[2][2 * i..2 * i + 2], 16).unwrap())
                            .collect();
                        c.files.push(SimFile::new("hex", data));
                        outln!("image ok");
                    }
                    _ => panic!("bad image line"),
                }
            }
            "params" => {
                let c = cur.as_mut().unwrap();
                c.params = Params::parse(&t[1..]);
            }
            "opt" => {
                let c = cur.as_mut().unwrap();
                for kv in &t[1..] {
                    let mut it = kv.split('=');
                    let k = it.next().unwrap();
                    let v = it.next().unwrap();
                    match k {
                        "punch" => {
                            for f in &c.files {
                                f.0.borrow_mut().punch_supported = v == "1";
                            }
                        }
                        "tail" => {
                            // tail=<bytes>:<fill>  the top image file is longer than the image needs
                            // (preallocated file, block device): <bytes> of <fill> are appended
                            let mut it2 = v.split(':');
                            let n: usize = it2.next().unwrap().parse().unwrap();
                            let fill: u8 = it2.next().unwrap_or("0").parse().unwrap();
                            if let Some(f) = c.files.first() {
                                let mut inner = f.0.borrow_mut();
                                let len = inner.data.len();
                                inner.data.resize(len + n, fill);
                            }
                        }
                        "maxlen" => {
                            for f in &c.files {
                                f.0.borrow_mut().max_len = v.parse().unwrap();
                            }
                        }
                        _ => {}
                    }
                }
            }
            "open" => {
                // open [params...]
                let c = cur.as_mut().unwrap();
                if c.dead {
                    outln!("open skipped");
                    continue;
                }
                if t.len() > 1 {
                    c.params = Params::parse(&t[1..]);
                }
                let old = c.dev.take();
                let _ = guard(|| drop(old));
                let files = c.files.clone();
                let p = c.params.clone();
                for f in &files {
                    f.set_op(c.opno);
                }
                c.opno += 1;
                tick(&c.id, c.opno);
                match guard(|| run_single(Box::pin(open_dev(&files, &p)), &files)) {
                    Ok(Err(e)) => {
                        c.dead = true;
                        outln!("open {}", e);
                    }
                    Ok(Ok(Ok(d))) => {
                        outln!(
                            "open ok vsize={} cb={} ro={}",
                            d.info.virtual_size(),
                            d.info.cluster_bits(),
                            d.info.refcount_order()
                        );
                        c.dev = Some(d);
                    }
                    Ok(Ok(Err(e))) => {
                        c.dead = true;
                        outln!("open err {}", sanitize(&e));
                    }
                    Err(p) => {
                        c.dead = true;
                        outln!("open panic {}", p);
                    }
                }
            }
            "fault" => {
                // fault <kind> <lo> <hi> <nth|all>   (kind ZW: the punch and the write that falls back for it both fail)
                let c = cur.as_mut().unwrap();
                let kind = exec::kind_of(t[1].chars().next().unwrap()).unwrap();
                let fi: usize = if t.len() > 5 { t[5].parse().unwrap() } else { 0 };
                let rule = FaultRule {
                    kind,
                    lo: t[2].parse().unwrap(),
                    hi: t[3].parse().unwrap(),
                    nth: if t[4] == "all" { usize::MAX } else { t[4].parse().unwrap() },
                    seen: 0,
                    active: true,
                    chain: t[1] == "ZW",
                };
                if fi < c.files.len() {
                    c.files[fi].0.borrow_mut().faults.push(rule);
                }
            }
            "failidx" => {
                // fail the request with this sequence number (counted from now)
                let c = cur.as_mut().unwrap();
                let base = c.files[0].0.borrow().log.len();
                let k: usize = t[1].parse().unwrap();
                c.files[0].0.borrow_mut().fail_by_index = Some(base + k);
            }
            "failidx_abs" => {
                let c = cur.as_mut().unwrap();
                let k: usize = t[1].parse().unwrap();
                c.files[0].0.borrow_mut().fail_by_index = Some(k);
            }
            "faults" => {
                let c = cur.as_mut().unwrap();
                for f in &c.files {
                    let mut s = f.0.borrow_mut();
                    s.faults_on = t[1] == "on";
                    if t[1] == "clear" {
                        s.faults.clear();
                        s.chain_pending = None;
                        s.fail_by_index = None;
                        s.faults_on = true;
                    }
                }
            }
            "X" => {
                let c = cur.as_mut().unwrap();
                let fi: usize = if t.len() > 2 { t[2].parse().unwrap() } else { 0 };
                if fi < c.files.len() {
                    let path = format!("{}/{}.{}.img", outdir, c.id, t[1]);
                    std::fs::write(&path, c.files[fi].snapshot()).unwrap();
                    outln!("snap {} {}", t[1], c.files[fi].0.borrow().data.len());
                }
            }
            "L" => {
                let c = cur.as_mut().unwrap();
                let fi: usize = if t.len() > 2 { t[2].parse().unwrap() } else { 0 };
                let payload = !(t.len() > 3 && t[3] == "nopayload");
                if fi < c.files.len() {
                    let path = format!("{}/{}.{}.log", outdir, c.id, t[1]);
                    dump_log(&c.files[fi], &path, payload);
                    outln!("log {} {}", t[1], c.files[fi].0.borrow().log.len());
                }
            }
            "alignstat" => {
                // alignstat <bs_bits>: requests whose offset / length / buffer address is not block aligned
                let c = cur.as_mut().unwrap();
                let bs: u64 = 1u64 << t[1].parse::<u32>().unwrap();
                let from: usize = if t.len() > 2 { t[2].parse().unwrap() } else { 0 };
                for (fi, f) in c.files.iter().enumerate() {
                    let inner = f.0.borrow();
                    let mut bad = 0;
                    let mut first = String::new();
                    let mut n = 0;
                    for r in inner.log.iter().skip(from) {
                        if r.kind == Kind::Sync {
                            continue;
                        }
                        n += 1;
                        let b_off = r.off % bs != 0;
                        let b_len = (r.len as u64) % bs != 0;
                        let b_buf = r.kind != Kind::Zero && (r.bufmod as u64) % bs != 0;
                        if b_off || b_len || b_buf {
                            bad += 1;
                            if first.is_empty() {
                                first = format!("{}:{}:{}:{}:op{}", r.kind.ch(), r.off, r.len, r.bufmod, r.op);
                            }
                        }
                    }
                    outln!("alignstat file={} reqs={} bad={} first={}", fi, n, bad, if first.is_empty() { "-".to_string() } else { first });
                }
            }
            "reqcount" => {
                let c = cur.as_mut().unwrap();
                let mut s = String::new();
                for f in &c.files {
                    let inner = f.0.borrow();
                    write!(s, " {}/{}", inner.log.len(), inner.modifying_reqs).unwrap();
                }
                outln!("reqcount{}", s);
            }
            "par" => {
                // par <seed> <mode> <budget> <k> [sched tokens...]   next k lines are ops
                let c = cur.as_mut().unwrap();
                let seed: u64 = t[1].parse().unwrap();
                let mode: usize = t[2].parse().unwrap();
                let budget: usize = t[3].parse().unwrap();
                let k: usize = t[4].parse().unwrap();
                let replay: Option<Vec<String>> = if t.len() > 5 {
                    Some(t[5..].iter().map(|s| s.to_string()).collect())
                } else {
                    None
                };
                // an op line may start with @<n>: the task yields n times before it calls the operation
                let mut ops = Vec::new();
                let mut delays = Vec::new();
                for _ in 0..k {
                    let tt: Vec<&str> = lines[li].split_whitespace().collect();
                    li += 1;
                    if tt[0].starts_with('@') {
                        delays.push(tt[0][1..].parse::<usize>().unwrap());
                        ops.push(parse_op(&tt[1..]).expect("op in par"));
                    } else {
                        delays.push(0);
                        ops.push(parse_op(&tt).expect("op in par"));
                    }
                }
                if c.dead || c.dev.is_none() {
                    outln!("par skipped");
                    continue;
                }
                let files = c.files.clone();
                for f in &files {
                    f.0.borrow_mut().hold = true;
                    f.set_op(c.opno);
                }
                let base = c.opno;
                c.opno += k;
                let dev = c.dev.as_ref().unwrap();
                tick(&c.id, base);
                let mut rng = Rng(seed);
                let r = guard(|| {
                    let tasks: Vec<Pin<Box<dyn Future<Output = OpOut> + '_>>> =
                        ops.iter().zip(delays.iter()).map(|(op, dl)| {
                            let dl = *dl;
                            Box::pin(async move {
                                for _ in 0..dl {
                                    YieldNow(false).await;
                                }
                                run_op(dev, op).await
                            }) as Pin<Box<dyn Future<Output = OpOut>>>
                        }).collect();
                    run_tasks(tasks, &files, &mut rng, mode, replay.as_deref(), budget)
                });
                for f in &files {
                    let mut s = f.0.borrow_mut();
                    s.hold = false;
                    // anything still in flight belongs to dead tasks
                    s.inflight.clear();
                    s.granted.clear();
                }
                match r {
                    Ok(er) => {
                        let oc = match &er.outcome {
                            Outcome::Finished => "finished".to_string(),
                            Outcome::Deadlock(u) => format!("deadlock {:?}", u).replace(' ', ""),
                            Outcome::Budget(u) => format!("budget {:?}", u).replace(' ', ""),
                            Outcome::ReplayDiverged(s) => format!("diverged {}", s),
                        };
                        outln!("par {} steps={} base={}", oc, er.steps, base);
                        outln!("sched {}", er.sched.join(" "));
                        for (i, r) in er.results.iter().enumerate() {
                            match r {
                                Some(o) => outln!(
                                    "res {} {} {} {}",
                                    base + i,
                                    er.start_step[i],
                                    er.finish_step[i],
                                    o.line
                                ),
                                None => outln!("res {} {} - unfinished", base + i, er.start_step[i]),
                            }
                        }
                        if er.outcome != Outcome::Finished {
                            c.dead = true;
                            // leak the device: tasks are gone, locks may be held
                            if let Some(d) = c.dev.take() {
                                std::mem::forget(d);
                            }
                        }
                    }
                    Err(p) => {
                        outln!("par panic {}", p);
                        c.dead = true;
                        if let Some(d) = c.dev.take() {
                            std::mem::forget(d);
                        }
                    }
                }
            }
            _ => {
                let c = cur.as_mut().unwrap();
                let op = match parse_op(&t) {
                    Some(op) => op,
                    None => panic!("bad line {}", line),
                };
                let i = c.opno;
                c.opno += 1;
                if c.dead || c.dev.is_none() {
                    outln!("res {} skipped", i);
                    continue;
                }
                for f in &c.files {
                    f.set_op(i);
                }
                let dev = c.dev.as_ref().unwrap();
                tick(&c.id, i);
                let files = c.files.clone();
                match guard(|| run_single(Box::pin(run_op(dev, &op)), &files)) {
                    Ok(Ok(o)) => outln!("res {} {}", i, o.line),
                    Ok(Err(e)) => {
                        outln!("res {} {}", i, e);
                        c.dead = true;
                        if let Some(d) = c.dev.take() {
                            std::mem::forget(d);
                        }
                    }
                    Err(p) => {
                        outln!("res {} panic {}", i, p);
                        c.dead = true;
                        if let Some(d) = c.dev.take() {
                            std::mem::forget(d);
                        }
                    }
                }
            }
        }
    }
    *TICK.lock().unwrap() = None;
    print!("{}", OUT.lock().unwrap());
    let _ = Kind::Read;
}
