// DetExec: single-threaded executor that owns every suspension point.
// A choice is either "poll woken task i" or "complete in-flight request r of file f".
use crate::simfile::{Kind, SimFile};
use std::future::Future;
use std::pin::Pin;
use std::sync::atomic::{AtomicBool, Ordering};
use std::sync::Arc;
use std::task::{Context, Poll, Wake, Waker};

pub struct Rng(pub u64);
impl Rng {
    pub fn next(&mut self) -> u64 {
        // splitmix64
        self.0 = self.0.wrapping_add(0x9E3779B97F4A7C15);
        let mut z = self.0;
        z = (z ^ (z >> 30)).wrapping_mul(0xBF58476D1CE4E5B9);
        z = (z ^ (z >> 27)).wrapping_mul(0x94D049BB133111EB);
        z ^ (z >> 31)
    }
    pub fn below(&mut self, n: usize) -> usize {
        (self.next() % (n as u64)) as usize
    }
}

struct TaskWake {
    flag: AtomicBool,
}
impl Wake for TaskWake {
    fn wake(self: Arc<Self>) {
        self.flag.store(true, Ordering::SeqCst);
    }
    fn wake_by_ref(self: &Arc<Self>) {
        self.flag.store(true, Ordering::SeqCst);
    }
}

#[derive(Debug, Clone, PartialEq)]
pub enum Outcome {
    Finished,
    Deadlock(Vec<usize>), // unfinished tasks
    Budget(Vec<usize>),
    ReplayDiverged(usize),
}

pub struct ExecResult<T> {
    pub results: Vec<Option<T>>,
    pub outcome: Outcome,
    pub sched: Vec<String>,
    pub finish_order: Vec<usize>,
    pub start_step: Vec<usize>,  // step at which the task was first polled
    pub finish_step: Vec<usize>, // step at which it completed
    pub steps: usize,
}

/// mode: bias of the PRNG scheduler
///   0 = uniform over enabled choices
///   1 = prefer running tasks (requests complete late, many in flight)
///   2 = prefer completing requests (near-sequential)
pub fn run_tasks<'a, T>(
    mut tasks: Vec<Pin<Box<dyn Future<Output = T> + 'a>>>,
    files: &[SimFile],
    rng: &mut Rng,
    mode: usize,
    replay: Option<&[String]>,
    budget: usize,
) -> ExecResult<T> {
    let n = tasks.len();
    let wakes: Vec<Arc<TaskWake>> = (0..n)
        .map(|_| {
            Arc::new(TaskWake {
                flag: AtomicBool::new(true),
            })
        })
        .collect();
    let wakers: Vec<Waker> = wakes.iter().map(|w| Waker::from(w.clone())).collect();
    let mut results: Vec<Option<T>> = (0..n).map(|_| None).collect();
    let mut alive: Vec<bool> = vec![true; n];
    let mut sched = Vec::new();
    let mut finish_order = Vec::new();
    let mut start_step = vec![usize::MAX; n];
    let mut finish_step = vec![usize::MAX; n];
    let mut steps = 0usize;
    let mut ri = 0usize;

    let name_of = |f: usize, id: usize| -> String {
        let s = files[f].0.borrow();
        let r = &s.log[id];
        // canonical name: independent of issue order inside one poll
        let occ = s
            .log
            .iter()
            .filter(|q| q.id < id && !q.done && q.kind == r.kind && q.off == r.off && q.len == r.len)
            .count();
        format!("c{}:{}:{}:{}:{}", f, r.kind.ch(), r.off, r.len, occ)
    };

    loop {
        if alive.iter().all(|a| !a) {
            return ExecResult {
                results,
                outcome: Outcome::Finished,
                sched,
                finish_order,
                start_step,
                finish_step,
                steps,
            };
        }
        // enabled choices
        let mut runnable: Vec<usize> = (0..n)
            .filter(|&i| alive[i] && wakes[i].flag.load(Ordering::SeqCst))
            .collect();
        runnable.sort();
        let mut reqs: Vec<(String, usize, usize)> = Vec::new();
        for (fi, f) in files.iter().enumerate() {
            for id in f.inflight_ids() {
                reqs.push((name_of(fi, id), fi, id));
            }
        }
        reqs.sort();
        let unfinished: Vec<usize> = (0..n).filter(|&i| alive[i]).collect();
        if runnable.is_empty() && reqs.is_empty() {
            return ExecResult {
                results,
                outcome: Outcome::Deadlock(unfinished),
                sched,
                finish_order,
                start_step,
                finish_step,
                steps,
            };
        }
        if steps >= budget {
            return ExecResult {
                results,
                outcome: Outcome::Budget(unfinished),
                sched,
                finish_order,
                start_step,
                finish_step,
                steps,
            };
        }
        steps += 1;

        // pick
        let choice: String = match replay {
            Some(list) => {
                if ri >= list.len() {
                    // replay list exhausted: continue with "complete first request / run first task"
                    if !reqs.is_empty() {
                        reqs[0].0.clone()
                    } else {
                        format!("r{}", runnable[0])
                    }
                } else {
                    let c = list[ri].clone();
                    ri += 1;
                    c
                }
            }
            None => {
                let pick_task = if runnable.is_empty() {
                    false
                } else if reqs.is_empty() {
                    true
                } else {
                    match mode {
                        1 => rng.below(8) != 0,
                        2 => rng.below(8) == 0,
                        _ => rng.below(runnable.len() + reqs.len()) < runnable.len(),
                    }
                };
                if pick_task {
                    format!("r{}", runnable[rng.below(runnable.len())])
                } else {
                    // mode 3: complete the most recently issued request first (LIFO)
                    if mode == 3 {
                        let mx = reqs.iter().max_by_key(|r| r.2).unwrap();
                        mx.0.clone()
                    } else {
                        reqs[rng.below(reqs.len())].0.clone()
                    }
                }
            }
        };
        sched.push(choice.clone());

        if let Some(rest) = choice.strip_prefix('r') {
            let i: usize = rest.parse().unwrap_or(usize::MAX);
            if i >= n || !alive[i] || !wakes[i].flag.load(Ordering::SeqCst) {
                return ExecResult {
                    results,
                    outcome: Outcome::ReplayDiverged(steps),
                    sched,
                    finish_order,
                    start_step,
                    finish_step,
                    steps,
                };
            }
            wakes[i].flag.store(false, Ordering::SeqCst);
            for f in files {
                f.set_task(i);
            }
            if start_step[i] == usize::MAX {
                start_step[i] = steps;
            }
            let mut cx = Context::from_waker(&wakers[i]);
            if let Poll::Ready(v) = tasks[i].as_mut().poll(&mut cx) {
                results[i] = Some(v);
                alive[i] = false;
                finish_order.push(i);
                finish_step[i] = steps;
            }
        } else {
            match reqs.iter().find(|r| r.0 == choice) {
                Some((_, fi, id)) => files[*fi].grant(*id),
                None => {
                    return ExecResult {
                        results,
                        outcome: Outcome::ReplayDiverged(steps),
                        sched,
                        finish_order,
                        start_step,
                        finish_step,
                        steps,
                    }
                }
            }
        }
    }
}

#[allow(dead_code)]
pub fn kind_of(c: char) -> Option<Kind> {
    match c {
        'R' => Some(Kind::Read),
        'W' => Some(Kind::Write),
        'Z' => Some(Kind::Zero),
        'S' => Some(Kind::Sync),
        _ => None,
    }
}
