// codec mode: evaluate the real pure functions on given inputs (tie B for the codec layer:
// validates gen/rs2v.py + Base/RExpr.v against what the compiled code actually computes)
use qcow2_rs::dev::{Qcow2DevParams, Qcow2Info};
use qcow2_rs::helpers::IntAlignment;
use qcow2_rs::meta::{
    L1Entry, L1Table, L2Entry, L2Table, Mapping, MappingSource, Qcow2Header, RefBlock, RefBlockEntry, RefTable,
    SplitGuestOffset, Table, TableEntry,
};
use std::fmt::Write;
use std::panic::{catch_unwind, AssertUnwindSafe};

fn header_bytes(cb: u32, ro: u32, size: u64, backing: bool) -> Vec<u8> {
    let mut b = vec![0u8; 4096];
    b[0..4].copy_from_slice(&0x514649fbu32.to_be_bytes());
    b[4..8].copy_from_slice(&3u32.to_be_bytes());
    if backing {
        b[8..16].copy_from_slice(&200u64.to_be_bytes());
        b[16..20].copy_from_slice(&4u32.to_be_bytes());
        b[200..204].copy_from_slice(b"back");
    }
    b[20..24].copy_from_slice(&cb.to_be_bytes());
    b[24..32].copy_from_slice(&size.to_be_bytes());
    b[36..40].copy_from_slice(&1u32.to_be_bytes()); // l1_size
    let cs = 1u64 << cb.min(40);
    b[40..48].copy_from_slice(&(3 * cs).to_be_bytes());
    b[48..56].copy_from_slice(&cs.to_be_bytes());
    b[56..60].copy_from_slice(&1u32.to_be_bytes());
    b[96..100].copy_from_slice(&ro.to_be_bytes());
    b[100..104].copy_from_slice(&112u32.to_be_bytes());
    b
}

fn cache(s: &str) -> Option<(u8, usize)> {
    if s == "-" {
        None
    } else {
        let mut it = s.split(':');
        Some((it.next().unwrap().parse().unwrap(), it.next().unwrap().parse().unwrap()))
    }
}

fn mk_info(t: &[&str]) -> Result<Qcow2Info, String> {
    // cb ro size hasback bs l2 rb ro_flag backing
    let cb: u32 = t[0].parse().unwrap();
    let ro: u32 = t[1].parse().unwrap();
    let size: u64 = t[2].parse().unwrap();
    let hb = t[3] == "1";
    let bs: u8 = t[4].parse().unwrap();
    let buf = header_bytes(cb, ro, size, hb);
    let h = Qcow2Header::from_buf(&buf).map_err(|e| format!("hdr {}", e))?;
    let mut p = Qcow2DevParams::new(bs, cache(t[6]), cache(t[5]), t[7] == "1", false);
    if t[8] == "1" {
        p.mark_backing_dev(Some(true));
    }
    Qcow2Info::new(&h, &p).map_err(|e| format!("{}", e))
}

fn src_code(s: &MappingSource) -> u32 {
    match s {
        MappingSource::DataFile => 0,
        MappingSource::Backing => 1,
        MappingSource::Zero => 2,
        MappingSource::Compressed => 3,
        MappingSource::Unallocated => 4,
    }
}

fn opt(o: Option<u64>) -> String {
    match o {
        Some(x) => format!("{}", x),
        None => "-".to_string(),
    }
}

fn hexs(b: &[u8]) -> String {
    let mut s = String::new();
    for x in b {
        write!(s, "{:02x}", x).unwrap();
    }
    if s.is_empty() {
        s.push('.');
    }
    s
}

fn guard<T, F: FnOnce() -> T>(f: F) -> Option<T> {
    catch_unwind(AssertUnwindSafe(f)).ok()
}

pub fn run(path: &str) {
    let text = std::fs::read_to_string(path).unwrap();
    let mut out = String::new();
    for line in text.lines() {
        let t: Vec<&str> = line.split_whitespace().collect();
        if t.is_empty() {
            continue;
        }
        match t[0] {
            "info" => match guard(|| mk_info(&t[1..])) {
                Some(Ok(i)) => {
                    // fields are pub(crate): print through Debug
                    writeln!(out, "info ok {:?}", i).unwrap()
                }
                Some(Err(e)) => writeln!(out, "info err {}", e.replace(' ', "_")).unwrap(),
                None => writeln!(out, "info panic").unwrap(),
            },
            "l2" => {
                // l2 <info 9 fields> <v> <g>
                let v: u64 = t[10].parse().unwrap();
                let g: u64 = t[11].parse().unwrap();
                let r = guard(|| {
                    let info = mk_info(&t[1..10]).unwrap();
                    let mut tbl = L2Table::new(None, 4096, info.cluster_bits());
                    unsafe {
                        std::ptr::copy_nonoverlapping(v.to_be_bytes().as_ptr(), tbl.as_mut_ptr(), 8);
                    }
                    let e: L2Entry = tbl.get(0);
                    let cb = info.cluster_bits() as u32;
                    let mut s = format!(
                        "{} {} {} {} {} {}",
                        e.cluster_offset(),
                        e.is_compressed() as u8,
                        e.is_copied() as u8,
                        e.is_zero() as u8,
                        e.reserved_bits(),
                        e.compressed_descriptor()
                    );
                    match e.compressed_range(cb) {
                        Some((o, l)) => write!(s, " cr {} {}", o, l).unwrap(),
                        None => write!(s, " cr - -").unwrap(),
                    }
                    match e.allocation(cb) {
                        Some((o, l)) => write!(s, " al {} {}", o, l).unwrap(),
                        None => write!(s, " al - -").unwrap(),
                    }
                    let valid = L2Entry::try_from_plain(v, &info).is_ok();
                    write!(s, " tfp {}", valid as u8).unwrap();
                    let m = e.into_mapping(&info, &SplitGuestOffset(g));
                    write!(
                        s,
                        " map {} {} {} {}",
                        src_code(&m.source),
                        opt(m.cluster_offset),
                        opt(m.compressed_length.map(|x| x as u64)),
                        m.copied as u8
                    )
                    .unwrap();
                    let po = m.plain_offset(0);
                    write!(s, " po {}", opt(po)).unwrap();
                    (s, m, cb)
                });
                match r {
                    Some((s, m, cb)) => {
                        let fm = guard(|| L2Entry::from_mapping(m.clone(), cb));
                        match fm {
                            Some(e) => writeln!(out, "l2 {} fm {}", s, e.into_plain()).unwrap(),
                            None => writeln!(out, "l2 {} fm panic", s).unwrap(),
                        }
                    }
                    None => writeln!(out, "l2 panic").unwrap(),
                }
            }
            "top" => {
                // top <v>: L1 / reftable entry accessors
                let v: u64 = t[1].parse().unwrap();
                let r = guard(|| {
                    let mut l1 = L1Table::new(None, 4096, 1, 9);
                    let mut rt = RefTable::new(None, 4096, 9);
                    unsafe {
                        std::ptr::copy_nonoverlapping(v.to_be_bytes().as_ptr(), l1.as_mut_ptr(), 8);
                        std::ptr::copy_nonoverlapping(v.to_be_bytes().as_ptr(), rt.as_mut_ptr(), 8);
                    }
                    let a: L1Entry = l1.get(0);
                    let b = rt.get(0);
                    format!(
                        "{} {} {} {} {} {} {}",
                        a.l2_offset(),
                        a.is_copied() as u8,
                        a.is_zero() as u8,
                        a.reserved_bits(),
                        b.refblock_offset(),
                        b.is_zero() as u8,
                        b.reserved_bits()
                    )
                });
                writeln!(out, "top {}", r.unwrap_or_else(|| "panic".to_string())).unwrap();
            }
            "split" => {
                let g: u64 = t[10].parse().unwrap();
                let r = guard(|| {
                    let info = mk_info(&t[1..10]).unwrap();
                    let s = SplitGuestOffset(g);
                    format!(
                        "{} {} {} {} {} {} {}",
                        s.l1_index(&info),
                        s.l2_index(&info),
                        s.l2_slice_index(&info),
                        s.l2_slice_key(&info),
                        s.l2_slice_off_in_table(&info),
                        s.in_cluster_offset(&info),
                        s.cluster_offset(&info)
                    )
                });
                writeln!(out, "split {}", r.unwrap_or_else(|| "panic".to_string())).unwrap();
            }
            "rb" => {
                // rb <ro> <hexbytes> <idx> get | set <v>
                let ro: u8 = t[1].parse().unwrap();
                let bytes: Vec<u8> = (0..t[2].len() / 2)
                    .map(|i| u8::from_str_radix(&t[2][2 * i..2 * i + 2], 16).unwrap())
                    .collect();
                let idx: usize = t[3].parse().unwrap();
                let r = guard(|| {
                    let mut rb = RefBlock::new(ro, bytes.len(), None);
                    unsafe {
                        std::ptr::copy_nonoverlapping(bytes.as_ptr(), rb.as_mut_ptr(), bytes.len());
                    }
                    if t[4] == "get" {
                        format!("get {}", rb.get(idx).into_plain())
                    } else {
                        let v: u64 = t[5].parse().unwrap();
                        let info = mk_info(&["16", "4", "1048576", "0", "9", "-", "-", "0", "0"]).unwrap();
                        let e = RefBlockEntry::try_from_plain(v, &info).unwrap();
                        let ok = guard(|| {
                            let rbm = &mut rb;
                            rbm.set(idx, e)
                        })
                        .is_some();
                        let nb = unsafe { std::slice::from_raw_parts(rb.as_ptr(), bytes.len()) };
                        let mut s = format!("set {} ", ok as u8);
                        for b in nb {
                            write!(s, "{:02x}", b).unwrap();
                        }
                        s
                    }
                });
                writeln!(out, "rb {}", r.unwrap_or_else(|| "panic".to_string())).unwrap();
            }
            "rbscan" => {
                // rbscan <ro> <hexbytes> <start> <count>: the allocator's scans on one refcount slice
                let ro: u8 = t[1].parse().unwrap();
                let bytes: Vec<u8> = (0..t[2].len() / 2)
                    .map(|i| u8::from_str_radix(&t[2][2 * i..2 * i + 2], 16).unwrap())
                    .collect();
                let start: usize = t[3].parse().unwrap();
                let count: usize = t[4].parse().unwrap();
                let r = guard(|| {
                    let mut rb = RefBlock::new(ro, bytes.len(), None);
                    unsafe {
                        std::ptr::copy_nonoverlapping(bytes.as_ptr(), rb.as_mut_ptr(), bytes.len());
                    }
                    let fr = match rb.get_free_range(start, count) {
                        Some(r) => format!("{}..{}", r.start, r.end),
                        None => "-".to_string(),
                    };
                    let tl = match rb.get_tail_free_range() {
                        Some(r) => format!("{}..{}", r.start, r.end),
                        None => "-".to_string(),
                    };
                    // alloc_range on the range found (or on the requested window)
                    let (a, b) = match rb.get_free_range(start, count) {
                        Some(r) => (r.start, r.end),
                        None => (start, start + count),
                    };
                    let ok = rb.alloc_range(a, b).is_ok();
                    let n = bytes.len() * 8 / (1usize << ro);
                    let mut vals = String::new();
                    for i in 0..n {
                        write!(vals, "{},", rb.get(i).into_plain()).unwrap();
                    }
                    format!("fr={} tail={} alloc={} vals={}", fr, tl, ok as u8, vals)
                });
                writeln!(out, "rbscan {}", r.unwrap_or_else(|| "panic".to_string())).unwrap();
            }
            "hdr" => {
                // hdr <hexbytes>: Qcow2Header::from_buf on an arbitrary buffer
                let bytes: Vec<u8> = if t.len() > 1 {
                    (0..t[1].len() / 2).map(|i| u8::from_str_radix(&t[1][2 * i..2 * i + 2], 16).unwrap()).collect()
                } else {
                    Vec::new()
                };
                let r = guard(|| match Qcow2Header::from_buf(&bytes) {
                    Ok(h) => {
                        let mut s = format!(
                            "ok v={} cb={} size={} ro={} l1={}/{} rt={}/{} crypt={} ct={} hl={} back={}",
                            h.version(),
                            h.cluster_bits(),
                            h.size(),
                            h.refcount_order(),
                            h.l1_table_offset(),
                            h.l1_table_entries(),
                            h.reftable_offset(),
                            h.reftable_clusters(),
                            h.crypt_method(),
                            h.compression_type(),
                            h.header_length(),
                            h.backing_filename().map(|x| hexs(x.as_bytes())).unwrap_or_else(|| "-".to_string())
                        );
                        // re-serialise and parse again: fields must survive
                        let mut h = h;
                        match h.serialize_to_buf() {
                            Ok(v) => {
                                write!(s, " ser={}", hexs(&v)).unwrap();
                            }
                            Err(_) => write!(s, " ser=err").unwrap(),
                        }
                        s
                    }
                    Err(_) => "err".to_string(),
                });
                writeln!(out, "hdr {}", r.unwrap_or_else(|| "panic".to_string())).unwrap();
            }
            "align" => {
                let v: u64 = t[1].parse().unwrap();
                let a: u64 = t[2].parse().unwrap();
                let r = guard(|| format!("{} {}", opt(v.align_down(a)), opt(v.align_up(a))));
                writeln!(out, "align {}", r.unwrap_or_else(|| "panic".to_string())).unwrap();
            }
            _ => panic!("codec: bad line {}", line),
        }
    }
    print!("{}", out);
    let _ = Mapping {
        source: MappingSource::Zero,
        cluster_offset: None,
        compressed_length: None,
        copied: false,
    };
}
