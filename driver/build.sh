#!/bin/sh
# builds the OCaml driver from the extracted model (coq/Extract/Extract.v -> driver/model.ml)
set -e
cd "$(dirname "$0")"
ocamlfind ocamlopt -O2 -w -a -package str model.mli model.ml main.ml -o qdrv 2>/dev/null || ocamlfind ocamlopt -w -a model.mli model.ml main.ml -o qdrv
rm -f *.cmi *.cmx *.o
