(* qdrv: runs the extracted specification (Spec/Image.v) on image files.
   Usage: qdrv check <listfile>     one image path per line -> one verdict line per image
          qdrv map <image>          guest mapping of every guest cluster *)
open Model

let rec pos_of_int (i : int) : positive =
  if i = 1 then XH else if i land 1 = 0 then XO (pos_of_int (i lsr 1)) else XI (pos_of_int (i lsr 1))
let n_of_int (i : int) : n = if i = 0 then N0 else Npos (pos_of_int i)
let rec int_of_pos (p : positive) : int =
  match p with XH -> 1 | XO q -> 2 * int_of_pos q | XI q -> 2 * int_of_pos q + 1
(* offsets beyond 2^61 cannot be file offsets: saturate *)
let rec pos_bits p = match p with XH -> 1 | XO q | XI q -> 1 + pos_bits q
let int_of_n (x : n) : int = match x with N0 -> 0 | Npos p -> if pos_bits p > 61 then max_int else int_of_pos p
let rec string_of_pos p = (* decimal via Z would need zarith; values here are < 2^62 or printed in hex chunks *)
  if pos_bits p <= 61 then string_of_int (int_of_pos p) else
  (* big: print as 0x.. *)
  let rec bits p acc = match p with XH -> 1 :: acc | XO q -> bits q (0 :: acc) | XI q -> bits q (1 :: acc) in
  let bl = bits p [] in
  let rec pad l = if List.length l mod 4 = 0 then l else pad (0 :: l) in
  let bl = pad bl in
  let buf = Buffer.create 20 in
  Buffer.add_string buf "0x";
  let rec go = function
    | a :: b :: c :: d :: t -> Buffer.add_string buf (Printf.sprintf "%x" (a*8+b*4+c*2+d)); go t
    | _ -> () in
  go bl; Buffer.contents buf
let string_of_n x = match x with N0 -> "0" | Npos p -> string_of_pos p

let read_file path =
  let ic = open_in_bin path in
  let len = in_channel_length ic in
  let b = Bytes.create len in
  really_input ic b 0 len; close_in ic; b

let rd_of (b : Bytes.t) : n -> n =
  let len = Bytes.length b in
  (* single bytes are shared constants *)
  let tbl = Array.init 256 n_of_int in
  fun off -> let i = int_of_n off in if i < 0 || i >= len then N0 else tbl.(Char.code (Bytes.unsafe_get b i))

let list_str l =
  let l' = List.map string_of_n l in
  let k = List.length l' in
  let shown = List.filteri (fun i _ -> i < 8) l' in
  Printf.sprintf "%d[%s]" k (String.concat "," shown)

let kind_str = function KData -> "D" | KBacking -> "B" | KZero -> "Z" | KCompressed -> "C" | KUnalloc -> "U"
let opt_str = function Some x -> string_of_n x | None -> "-1"

let check_one path =
  try
    let b = read_file path in
    let rd = rd_of b in
    let h = parse_hdr rd in
    let sup = hdr_supported h in
    if not sup then Printf.printf "%s supported=0\n" path
    else begin
      let v = validb rd h in
      let s = safeb rd h in
      let lk = if v then [] else leaked rd h in
      let un = if v then [] else undercounted rd h in
      let ov = if v then [] else overcounted rd h in
      let t1 = tables_ok rd h true and t0 = tables_ok rd h false in
      Printf.printf "%s supported=1 valid=%d valid_sl1=%d safe=%d safe_sl1=%d tables_strict=%d tables=%d leaked=%s under=%s over=%s cb=%s ro=%s size=%s l1=%s/%s rt=%s/%s v=%s\n"
        path (if v then 1 else 0) (if validb_short_l1 rd h then 1 else 0) (if s then 1 else 0) (if safeb_short_l1 rd h then 1 else 0) (if t1 then 1 else 0) (if t0 then 1 else 0)
        (list_str lk) (list_str un) (list_str ov)
        (string_of_n h.h_cb) (string_of_n h.h_ro) (string_of_n h.h_size)
        (string_of_n h.h_l1_off) (string_of_n h.h_l1_size) (string_of_n h.h_rt_off) (string_of_n h.h_rt_clusters)
        (string_of_n h.h_version)
    end
  with e -> Printf.printf "%s error=%s\n" path (Printexc.to_string e)

let map_one path =
  let b = read_file path in
  let rd = rd_of b in
  let h = parse_hdr rd in
  if not (hdr_supported h) then print_string "unsupported\n" else begin
    let n = int_of_n (guest_clusters h) in
    for gc = 0 to n - 1 do
      let d = guest_mapping rd h (n_of_int gc) in
      if d.d_kind <> KUnalloc then
        Printf.printf "%d=%s:%s:%s:%d " gc (kind_str d.d_kind) (opt_str d.d_off)
          (match d.d_len with Some x -> string_of_n x | None -> "0") (if d.d_copied then 1 else 0)
    done;
    print_newline ()
  end


(* ---------------------------------------------------------------------------------------------
   dev mode: runs the extracted cluster-level device model (Model/Dev.v) next to the observations of the
   real library.  Script (one or more cases):
     case <id>
     cfg <bpc> <nclu> <vblocks> <backing> <v2>
     image <path>                 initial mapping / refcounts / metadata clusters from the specification reader
     val <block> <token>          initial non-zero content as the library read it (sweep of the fresh device)
     begin                        -> "init inv=<b> nclu=<n> host=<H>"
     W <off> <len> <tag> [gc=h ...]   write of len blocks at block off; gc=h: host cluster of gc after the call
     D <off> <len>
     R <off> <len>                -> "read v v v ..."
     M gc=K:h ...                 mapping dump of the library -> "map ok" | "map diff <gc> model=<..> impl=<..>"
     sync <path>                  flushed file: refcounts and metadata -> "sync ok grow=<k>" | "sync diff ..."
     end *)
let tok_tbl : (string, int) Hashtbl.t = Hashtbl.create 1024
let tok_rev : (int, string) Hashtbl.t = Hashtbl.create 1024
let () = Hashtbl.replace tok_tbl "w0" 0; Hashtbl.replace tok_rev 0 "w0"
let intern (s : string) : n =
  match Hashtbl.find_opt tok_tbl s with
  | Some i -> n_of_int i
  | None -> let i = Hashtbl.length tok_tbl in Hashtbl.replace tok_tbl s i; Hashtbl.replace tok_rev i s; n_of_int i
let tok_str (x : n) : string = match Hashtbl.find_opt tok_rev (int_of_n x) with Some s -> s | None -> "?"

let cl_str = function
  | CUn -> "U" | CZero -> "Z" | CZeroPre h -> "Z:" ^ string_of_n h | CData h -> "D:" ^ string_of_n h
  | CComp (h, k) -> "C:" ^ string_of_n h ^ "+" ^ string_of_n k

let rec nat_of_int i = if i <= 0 then O else S (nat_of_int (i - 1))

type devcase = { mutable cfg0 : (int * int * int * bool * bool) option; mutable img : string option;
                 vals : (int, n) Hashtbl.t; mutable st : st option; mutable c : cfg option; mutable dead : bool }

let load_image path (bpc, nclu, vblocks, backing, v2) vals =
  let b = read_file path in
  let rd = rd_of b in
  let h = parse_hdr rd in
  if not (hdr_supported h) then failwith "unsupported image";
  let cs = 1 lsl (int_of_n h.h_cb) in
  let hostn = (Bytes.length b + cs - 1) / cs in
  let maps = List.init nclu (fun gc ->
    let d = guest_mapping rd h (n_of_int gc) in
    match d.d_kind, d.d_off, d.d_len with
    | KData, Some o, _ -> CData (n_of_int (int_of_n o / cs))
    | KZero, Some o, _ -> CZeroPre (n_of_int (int_of_n o / cs))
    | KZero, None, _ -> CZero
    | KCompressed, Some o, Some l ->
        let o = int_of_n o and l = int_of_n l in
        let base = o / cs in
        CComp (n_of_int base, n_of_int ((o + l + cs - 1 - base * cs) / cs))
    | _ -> CUn) in
  let rcs = List.init hostn (fun x -> stored rd h (n_of_int x)) in
  let gcount = Array.make hostn 0 in
  List.iter (fun m -> for x = 0 to hostn - 1 do if touches m (n_of_int x) then gcount.(x) <- gcount.(x) + 1 done) maps;
  let metas = List.init hostn (fun x -> int_of_n (refs rd h (n_of_int x)) > gcount.(x)) in
  (* initial contents from the library's own sweep *)
  let valof blk = match Hashtbl.find_opt vals blk with Some t -> t | None -> N0 in
  let host_tbl : (int, int) Hashtbl.t = Hashtbl.create 64 in   (* host cluster -> guest cluster *)
  List.iteri (fun gc m -> match m with CData hc -> Hashtbl.replace host_tbl (int_of_n hc) gc | _ -> ()) maps;
  let host hc i = match Hashtbl.find_opt host_tbl (int_of_n hc) with
    | Some gc -> valof (gc * bpc + int_of_n i) | None -> N0 in
  let cfg = { c_bpc = n_of_int bpc; c_nclu = n_of_int nclu; c_vblocks = n_of_int vblocks; c_backing = backing; c_v2 = v2;
              c_back = (fun blk -> valof (int_of_n blk));
              c_comp = (fun gc i -> valof (int_of_n gc * bpc + int_of_n i)) } in
  let ok = invb cfg maps rcs metas in
  (cfg, mk_state maps rcs metas host, ok, hostn)

let dev_mode script =
  let ic = open_in script in
  let cur = { cfg0 = None; img = None; vals = Hashtbl.create 64; st = None; c = None; dead = false } in
  let reset () = cur.cfg0 <- None; cur.img <- None; Hashtbl.reset cur.vals; cur.st <- None; cur.c <- None; cur.dead <- false in
  let hostn = ref 0 in
  (try while true do
    let l = String.trim (input_line ic) in
    let t = List.filter (fun x -> x <> "") (String.split_on_char ' ' l) in
    (match t with
    | [] -> ()
    | "case" :: id :: _ -> reset (); Printf.printf "case %s\n" id
    | ["cfg"; a; b; c; d; e] -> cur.cfg0 <- Some (int_of_string a, int_of_string b, int_of_string c, d = "1", e = "1")
    | ["image"; p] -> cur.img <- Some p
    | ["val"; b; tk] -> Hashtbl.replace cur.vals (int_of_string b) (intern tk)
    | ["begin"] ->
        (match cur.cfg0, cur.img with
         | Some g, Some p ->
            (try let (c, s, ok, hn) = load_image p g cur.vals in
                 cur.c <- Some c; cur.st <- Some s; hostn := hn;
                 let (_, nclu, _, _, _) = g in
                 Printf.printf "init inv=%d nclu=%d host=%d\n" (if ok then 1 else 0) nclu hn
             with e -> cur.dead <- true; Printf.printf "init error=%s\n" (Printexc.to_string e))
         | _ -> cur.dead <- true; print_string "init error=missing cfg/image\n")
    | "end" :: _ -> print_string "end\n"
    | _ when cur.dead -> print_string "skipped\n"
    | "W" :: off :: len :: tag :: ch ->
        let c = Option.get cur.c and s = Option.get cur.st in
        let off = int_of_string off and len = int_of_string len and tag = int_of_string tag in
        let chs = List.map (fun x -> match String.split_on_char '=' x with [g; h] -> (int_of_string g, n_of_int (int_of_string h)) | _ -> failwith "ch") ch in
        let v blk = let b = int_of_n blk in intern (Printf.sprintf "w%x" ((tag lsl 40) lor (b land 0xffffffffff))) in
        let chf gc = match List.assoc_opt (int_of_n gc) chs with Some h -> h | None -> n_of_int (-1 land 0x3fffffff) in
        (match write c s (n_of_int off) (n_of_int len) v chf with
         | Some s' -> cur.st <- Some s'; print_string "write ok\n"
         | None ->
            (* name the cluster whose chosen host cluster is not free in the model *)
            let bad = List.filter (fun gc -> match s.s_map gc with CData _ | CZeroPre _ -> false | _ -> not (free s (chf gc))) (clusters_of c (n_of_int off) (n_of_int len)) in
            let d = String.concat "," (List.map (fun gc -> Printf.sprintf "gc%s->h%s(rc=%s,meta=%b)" (string_of_n gc) (string_of_n (chf gc)) (string_of_n (s.s_rc (chf gc))) (s.s_meta (chf gc))) bad) in
            cur.dead <- true; Printf.printf "write guard-fail %s\n" d)
    | ["D"; off; len] ->
        let c = Option.get cur.c and s = Option.get cur.st in
        cur.st <- Some (discard c s (n_of_int (int_of_string off)) (n_of_int (int_of_string len))); print_string "discard ok\n"
    | ["R"; off; len] ->
        let c = Option.get cur.c and s = Option.get cur.st in
        let off = int_of_string off and len = int_of_string len in
        let vs = List.init len (fun i -> tok_str (read_block c s (n_of_int (off + i)))) in
        Printf.printf "read %s\n" (String.concat " " vs)
    | "M" :: ents ->
        let c = Option.get cur.c and s = Option.get cur.st in
        let impl = Hashtbl.create 64 in
        List.iter (fun x -> match String.split_on_char '=' x with [g; k] -> Hashtbl.replace impl (int_of_string g) k | _ -> ()) ents;
        let diff = ref None in
        for gc = int_of_n c.c_nclu - 1 downto 0 do
          let m = match s.s_map (n_of_int gc) with CComp (_, _) -> "C" | x -> cl_str x in
          let i = match Hashtbl.find_opt impl gc with Some k -> k | None -> "U" in
          if m <> i then diff := Some (gc, m, i)
        done;
        (match !diff with None -> print_string "map ok\n" | Some (gc, m, i) -> Printf.printf "map diff gc=%d model=%s impl=%s\n" gc m i)
    | ["sync"; p] ->
        let c = Option.get cur.c and s = Option.get cur.st in
        let b = read_file p in
        let rd = rd_of b in
        let h = parse_hdr rd in
        let cs = 1 lsl (int_of_n h.h_cb) in
        let hn = (Bytes.length b + cs - 1) / cs in
        let grown = ref 0 and st = ref s and msg = ref "" in
        for x = 0 to (max hn !hostn) - 1 do
          if !msg = "" then begin
            let xn = n_of_int x in
            let file_rc = int_of_n (stored rd h xn) and model_rc = int_of_n (!st.s_rc xn) in
            if file_rc <> model_rc then begin
              (* a cluster the file counts once, which the model holds free and which the file's own metadata
                 references: metadata growth (L2 table, refcount block, relocated table) *)
              if file_rc = 1 && model_rc = 0 && int_of_n (refs rd h xn) = 1 then
                (match grow !st xn with
                 | Some s' -> st := s'; incr grown
                 | None -> msg := Printf.sprintf "cluster %d: file refcount 1 but not free in the model" x)
              else msg := Printf.sprintf "cluster %d: file refcount %d, model %d (file references %d)" x file_rc model_rc (int_of_n (refs rd h xn))
            end
          end
        done;
        hostn := max hn !hostn;
        if !msg = "" then begin cur.st <- Some !st; Printf.printf "sync ok grow=%d\n" !grown end
        else Printf.printf "sync diff %s\n" !msg
    | _ -> Printf.printf "bad line %s\n" l)
  done with End_of_file -> ());
  close_in ic


(* ---- discipline check of a cell-level request log (coq/Model/Crash.v, theorem disciplined_all_crash_states_safe) *)
let disc_mode script =
  let ic = open_in script in
  let id = ref "" and dom = ref [] and rc = ref [] and sl = ref [] and evs = ref [] in
  let ns l = List.map (fun x -> n_of_int (int_of_string x)) l in
  (try while true do
     let l = String.trim (input_line ic) in
     match String.split_on_char ' ' l |> List.filter (fun x -> x <> "") with
     | ["case"; i] -> id := i; dom := []; rc := []; sl := []; evs := []
     | "dom" :: r -> dom := !dom @ ns r
     | ["rc"; h; v] -> rc := (n_of_int (int_of_string h), n_of_int (int_of_string v)) :: !rc
     | "sl" :: i :: t -> sl := (n_of_int (int_of_string i), ns t) :: !sl
     | ["R"; h; v] -> evs := SetRc (n_of_int (int_of_string h), n_of_int (int_of_string v)) :: !evs
     | "S" :: i :: t -> evs := SetSlot (n_of_int (int_of_string i), ns t) :: !evs
     | ["Y"] -> evs := Sync :: !evs
     | ["end"] ->
         let s = { rcl = !rc; sll = !sl } in
         Printf.printf "%s disc=%d\n%!" !id (if disciplined !dom s (List.rev !evs) then 1 else 0)
     | _ -> ()
   done with End_of_file -> ());
  close_in ic

(* ---- the cell abstraction of an image (coq/Spec/Cells.v, theorem cells_safe_iff) *)
let cells_mode lst =
  let ic = open_in lst in
  (try while true do
     let path = String.trim (input_line ic) in
     if path <> "" then begin
       (try
         let b = read_file path in
         let rd = rd_of b in
         let h = parse_hdr rd in
         if not (hdr_supported h) then Printf.printf "case %s unsupported\nend\n" path
         else begin
           let s = cells rd h in
           let dom = cells_dom rd h in
           Printf.printf "case %s nodup=%d\n" path (if nodupb dom then 1 else 0);
           List.iter (fun (c, v) -> if v <> N0 then Printf.printf "R %s %s\n" (string_of_n c) (string_of_n v)) s.rcl;
           List.iter (fun (i, t) -> if t <> [] then Printf.printf "S %s %s\n" (string_of_n i) (String.concat " " (List.map string_of_n t))) s.sll;
           Printf.printf "end\n"
         end
       with e -> Printf.printf "case %s error\nend\n" path)
     end
   done with End_of_file -> ());
  close_in ic

let () =
  match Array.to_list Sys.argv with
  | [_; "check"; lst] ->
      let ic = open_in lst in
      (try while true do
         let l = String.trim (input_line ic) in
         if l <> "" then check_one l
       done with End_of_file -> ());
      close_in ic
  | [_; "map"; img] -> map_one img
  | [_; "dev"; script] -> dev_mode script
  | [_; "disc"; script] -> disc_mode script
  | [_; "cells"; lst] -> cells_mode lst
  | [_; "hdr"; lst] ->
      (* one hex buffer per line: the specification's reading of the header *)
      let ic = open_in lst in
      (try while true do
         let l = String.trim (input_line ic) in
         let n = String.length l / 2 in
         let b = Bytes.create n in
         for i = 0 to n - 1 do Bytes.set b i (Char.chr (int_of_string ("0x" ^ String.sub l (2*i) 2))) done;
         let rd = rd_of b in
         let h = parse_hdr rd in
         Printf.printf "feat=%d sup=%d magic=%s v=%s cb=%s size=%s ro=%s l1=%s/%s rt=%s/%s crypt=%s incompat=%s ct=%s hl=%s boff=%s blen=%s snap=%s\n"
           (if hdr_features_ok h then 1 else 0) (if hdr_supported h then 1 else 0) (string_of_n h.h_magic) (string_of_n h.h_version) (string_of_n h.h_cb)
           (string_of_n h.h_size) (string_of_n h.h_ro) (string_of_n h.h_l1_off) (string_of_n h.h_l1_size)
           (string_of_n h.h_rt_off) (string_of_n h.h_rt_clusters) (string_of_n h.h_crypt) (string_of_n h.h_incompat)
           (string_of_n h.h_comp_type) (string_of_n h.h_len) (string_of_n h.h_backing_off) (string_of_n h.h_backing_len)
           (string_of_n h.h_nb_snap)
       done with End_of_file -> ());
      close_in ic
  | _ -> prerr_endline "usage: qdrv check <list> | map <image>"; exit 2
