(* qdrv: runs the extracted specification (Spec/Image.v) on image files.
   Usage: qdrv check <listfile>     one image path per line -> one verdict line per image
          qdrv map <image>          guest mapping of every guest cluster *)
open Model

let rec pos_of_int (i : int) : positive =
  if i = 1 then XH else if i land 1 = 0 then XO (pos_of_int (i lsr 1)) else XI (pos_of_int (i lsr 1))
let n_of_int (i : int) : n = if i = 0 then N0 else Npos (pos_of_int i)
let rec int_of_pos (p : positive) : int =
  match p with XH -> 1 | XO q -> 2 * int_of_pos q | XI q -> 2 * int_of_pos q + 1
(* offsets beyond 2^61 cannot be file offsets: saturate *)
let rec pos_bits p = match p with XH -> 1 | XO q | XI q -> 1 + pos_bits q
let int_of_n (x : n) : int = match x with N0 -> 0 | Npos p -> if pos_bits p > 61 then max_int else int_of_pos p
let rec string_of_pos p = (* decimal via Z would need zarith; values here are < 2^62 or printed in hex chunks *)
  if pos_bits p <= 61 then string_of_int (int_of_pos p) else
  (* big: print as 0x.. *)
  let rec bits p acc = match p with XH -> 1 :: acc | XO q -> bits q (0 :: acc) | XI q -> bits q (1 :: acc) in
  let bl = bits p [] in
  let rec pad l = if List.length l mod 4 = 0 then l else pad (0 :: l) in
  let bl = pad bl in
  let buf = Buffer.create 20 in
  Buffer.add_string buf "0x";
  let rec go = function
    | a :: b :: c :: d :: t -> Buffer.add_string buf (Printf.sprintf "%x" (a*8+b*4+c*2+d)); go t
    | _ -> () in
  go bl; Buffer.contents buf
let string_of_n x = match x with N0 -> "0" | Npos p -> string_of_pos p

let read_file path =
  let ic = open_in_bin path in
  let len = in_channel_length ic in
  let b = Bytes.create len in
  really_input ic b 0 len; close_in ic; b

let rd_of (b : Bytes.t) : n -> n =
  let len = Bytes.length b in
  (* single bytes are shared constants *)
  let tbl = Array.init 256 n_of_int in
  fun off -> let i = int_of_n off in if i < 0 || i >= len then N0 else tbl.(Char.code (Bytes.unsafe_get b i))

let list_str l =
  let l' = List.map string_of_n l in
  let k = List.length l' in
  let shown = List.filteri (fun i _ -> i < 8) l' in
  Printf.sprintf "%d[%s]" k (String.concat "," shown)

let kind_str = function KData -> "D" | KBacking -> "B" | KZero -> "Z" | KCompressed -> "C" | KUnalloc -> "U"
let opt_str = function Some x -> string_of_n x | None -> "-1"

let check_one path =
  try
    let b = read_file path in
    let rd = rd_of b in
    let h = parse_hdr rd in
    let sup = hdr_supported h in
    if not sup then Printf.printf "%s supported=0\n" path
    else begin
      let v = validb rd h in
      let s = safeb rd h in
      let lk = if v then [] else leaked rd h in
      let un = if v then [] else undercounted rd h in
      let ov = if v then [] else overcounted rd h in
      let t1 = tables_ok rd h true and t0 = tables_ok rd h false in
      Printf.printf "%s supported=1 valid=%d safe=%d tables_strict=%d tables=%d leaked=%s under=%s over=%s cb=%s ro=%s size=%s l1=%s/%s rt=%s/%s v=%s\n"
        path (if v then 1 else 0) (if s then 1 else 0) (if t1 then 1 else 0) (if t0 then 1 else 0)
        (list_str lk) (list_str un) (list_str ov)
        (string_of_n h.h_cb) (string_of_n h.h_ro) (string_of_n h.h_size)
        (string_of_n h.h_l1_off) (string_of_n h.h_l1_size) (string_of_n h.h_rt_off) (string_of_n h.h_rt_clusters)
        (string_of_n h.h_version)
    end
  with e -> Printf.printf "%s error=%s\n" path (Printexc.to_string e)

let map_one path =
  let b = read_file path in
  let rd = rd_of b in
  let h = parse_hdr rd in
  if not (hdr_supported h) then print_string "unsupported\n" else begin
    let n = int_of_n (guest_clusters h) in
    for gc = 0 to n - 1 do
      let d = guest_mapping rd h (n_of_int gc) in
      if d.d_kind <> KUnalloc then
        Printf.printf "%d=%s:%s:%s:%d " gc (kind_str d.d_kind) (opt_str d.d_off)
          (match d.d_len with Some x -> string_of_n x | None -> "0") (if d.d_copied then 1 else 0)
    done;
    print_newline ()
  end

let () =
  match Array.to_list Sys.argv with
  | [_; "check"; lst] ->
      let ic = open_in lst in
      (try while true do
         let l = String.trim (input_line ic) in
         if l <> "" then check_one l
       done with End_of_file -> ());
      close_in ic
  | [_; "map"; img] -> map_one img
  | [_; "hdr"; lst] ->
      (* one hex buffer per line: the specification's reading of the header *)
      let ic = open_in lst in
      (try while true do
         let l = String.trim (input_line ic) in
         let n = String.length l / 2 in
         let b = Bytes.create n in
         for i = 0 to n - 1 do Bytes.set b i (Char.chr (int_of_string ("0x" ^ String.sub l (2*i) 2))) done;
         let rd = rd_of b in
         let h = parse_hdr rd in
         Printf.printf "feat=%d sup=%d magic=%s v=%s cb=%s size=%s ro=%s l1=%s/%s rt=%s/%s crypt=%s incompat=%s ct=%s hl=%s boff=%s blen=%s snap=%s\n"
           (if hdr_features_ok h then 1 else 0) (if hdr_supported h then 1 else 0) (string_of_n h.h_magic) (string_of_n h.h_version) (string_of_n h.h_cb)
           (string_of_n h.h_size) (string_of_n h.h_ro) (string_of_n h.h_l1_off) (string_of_n h.h_l1_size)
           (string_of_n h.h_rt_off) (string_of_n h.h_rt_clusters) (string_of_n h.h_crypt) (string_of_n h.h_incompat)
           (string_of_n h.h_comp_type) (string_of_n h.h_len) (string_of_n h.h_backing_off) (string_of_n h.h_backing_len)
           (string_of_n h.h_nb_snap)
       done with End_of_file -> ());
      close_in ic
  | _ -> prerr_endline "usage: qdrv check <list> | map <image>"; exit 2
