#!/usr/bin/env python3
"""Self test for qimg.py: random descriptors -> build -> parse_check, read_guest,
and the external checker /verif/driver/qdrv (check + map)."""
import os
import random
import shutil
import struct
import subprocess
import sys
import tempfile
import time

sys.path.insert(0, os.path.dirname(os.path.abspath(__file__)))
import qimg  # noqa: E402

QDRV = '/verif/driver/qdrv'


def gen_payload(rng, cs, compressible):
    t = rng.randrange(5)
    if not compressible and t == 0:
        return rng.randbytes(cs)                       # incompressible
    if t <= 1:
        k = rng.choice((1, 2, 3, 7, 16, 32))
        return (rng.randbytes(k) * (cs // k + 1))[:cs]
    if t == 2:
        return bytes(cs)                               # all zero data, still "allocated"
    if t == 3:                                         # mostly zeros, a few random bytes
        b = bytearray(cs)
        for _ in range(rng.randrange(1, 12)):
            b[rng.randrange(cs)] = rng.randrange(256)
        return bytes(b)
    words = [rng.randbytes(rng.randrange(1, 9)) for _ in range(6)]
    out = bytearray()
    while len(out) < cs:
        out += rng.choice(words)
    return bytes(out[:cs])


def gen_desc(rng, cb, ro, version, shuffle, minimal, few=False):
    cs = 1 << cb
    l2e = cs // 8
    nalloc = rng.randrange(0, 4) if few else rng.choice((0, 1, 5, 20, 64, 90) + ((300,) if cb <= 10 else ()))
    span = rng.choice((1, 2, 3)) * l2e if (cb <= 12 and not few) else rng.choice((4, 70, 300))
    if 12 < cb <= 16 and rng.random() < 0.1:
        span = 2 * l2e + 5                             # several L1 entries with big clusters too
    ngc = max(1, rng.randrange(1, span + 1), min(nalloc, span))
    size = ngc * cs
    if rng.random() < 0.6 and cs > 512:
        size -= 512 * rng.randrange(1, cs // 512)      # not a multiple of the cluster size
    gcs = set(rng.sample(range(ngc), min(nalloc, ngc)))
    if nalloc and rng.random() < 0.5:
        gcs.add(ngc - 1)                               # the (possibly partial) last cluster
    kinds = ['data', 'compressed'] + ([] if version == 2 else ['zero', 'zero_prealloc'])
    weights = rng.choice(([1] * len(kinds), [1, 6, 1, 1][:len(kinds)], [4, 1, 1, 1][:len(kinds)]))
    clusters = {}
    for gc in gcs:
        k = rng.choices(kinds, weights)[0]
        if k in ('data', 'compressed'):
            clusters[gc] = (k, gen_payload(rng, cs, k == 'compressed'))
        else:
            clusters[gc] = (k,)
    ext = []
    if rng.random() < 0.4:
        ext.append((qimg.EXT_BACKING_FORMAT, rng.choice((b'raw', b'qcow2'))))
    if rng.random() < 0.4:
        n = rng.randrange(1, 3)
        ext.append((qimg.EXT_FEATURE_NAMES,
                    b''.join(bytes([rng.randrange(3), i]) + b'feature%d' % i + bytes(38) for i in range(n))))
    if rng.random() < 0.3:
        ext.append((0x12345678 + rng.randrange(100), rng.randbytes(rng.randrange(0, 21))))
    rng.shuffle(ext)
    return qimg.ImageDesc(
        version=version, cluster_bits=cb, refcount_order=ro, size=size, clusters=clusters,
        backing_file=rng.choice((None, None, 'base.img', 'b' * 60)), l1_minimal=minimal,
        extensions=ext, shuffle_seed=rng.randrange(1 << 30) if shuffle else None,
        pack_compressed=rng.random() < 0.8, compress_level=rng.choice((1, 6, 9)))


def run_qdrv(args):
    r = subprocess.run(['sh', '-c', 'ulimit -s unlimited; %s %s' % (QDRV, args)],
                       capture_output=True, text=True)
    return r.stdout


class Stats:
    def __init__(self):
        self.images = self.failures = self.ext_checked = self.map_checked = 0
        self.shared = self.straddle = self.gaps = self.multi_block = self.multi_l1 = 0
        self.kinds = {'D': 0, 'Z': 0, 'C': 0}

    def fail(self, tag, msg):
        self.failures += 1
        print('FAIL %s: %s' % (tag, msg))


def check_internal(st, tag, desc, img, truth):
    cs = 1 << desc.cluster_bits
    probs = qimg.parse_check(img, require_full_l1=not desc.l1_minimal)
    if probs:
        st.fail(tag, 'parse_check: %s' % probs[:4])
    if len(img) != truth['host_clusters'] * cs:
        st.fail(tag, 'file length != host_clusters * cluster_size')
    ngc = truth['guest_clusters']
    todo = range(ngc) if ngc <= 600 else sorted(set(desc.clusters) | set(range(0, ngc, 97)) | {ngc - 1})
    back = lambda gc: bytes([gc & 0xff]) * cs
    for gc in todo:
        exp = truth['content'](gc)
        if (gc in desc.clusters) != (exp is not None):
            st.fail(tag, 'content() allocation status wrong for %d' % gc)
        if qimg.read_guest(img, gc) != (exp if exp is not None else bytes(cs)):
            st.fail(tag, 'read_guest mismatch at guest cluster %d' % gc)
            break
        if qimg.read_guest(img, gc, back) != (exp if exp is not None else back(gc)):
            st.fail(tag, 'read_guest(backing) mismatch at guest cluster %d' % gc)
            break
    for gc, (kind, off, ln) in truth['mapping'].items():
        st.kinds[kind] += 1
        if kind == 'C' and off // cs != (off + ln - 1) // cs:
            st.straddle += 1
    rc = truth['refcounts']
    st.shared += any(v > 1 for v in rc.values())
    st.gaps += any(v == 0 for v in rc.values())
    st.multi_block += len(truth['refblock_offsets']) > 1
    st.multi_l1 += len(truth['l2_offsets']) > 1
    if qimg.build(desc)[0] != img:
        st.fail(tag, 'build is not deterministic')


def check_external(st, tmp, batch):
    """batch: list of (tag, desc, img, truth).  Runs qdrv check on all, qdrv map on each."""
    lst = os.path.join(tmp, 'list')
    paths = []
    for i, (tag, desc, img, truth) in enumerate(batch):
        p = os.path.join(tmp, 'img%d.qcow2' % i)
        with open(p, 'wb') as f:
            f.write(img)
        paths.append(p)
    with open(lst, 'w') as f:
        f.write('\n'.join(paths) + '\n')
    lines = {l.split(' ', 1)[0]: l for l in run_qdrv('check ' + lst).splitlines()}
    for p, (tag, desc, img, truth) in zip(paths, batch):
        line = lines.get(p, '<no output>')
        st.ext_checked += 1
        if desc.l1_minimal and truth['l1_size'] * ((1 << desc.cluster_bits) // 8) < truth['guest_clusters']:
            if 'supported=1' not in line:               # short L1: only informational
                st.fail(tag, 'qdrv (l1_minimal): ' + line[len(p):len(p) + 300])
            continue
        if 'supported=1 valid=1 safe=1' not in line:
            st.fail(tag, 'qdrv check: ' + line[len(p):len(p) + 400])
            continue
        want = {}
        for gc, (kind, off, ln) in truth['mapping'].items():
            copied = 1 if (kind != 'C' and off is not None) else 0
            want[gc] = '%s:%d:%d:%d' % (kind, -1 if off is None else off, ln, copied)
        got = {}
        for tok in run_qdrv('map ' + p).split():
            gc, val = tok.split('=', 1)
            if val[0] in 'DZC':                         # B/U = unallocated
                got[int(gc)] = val
        st.map_checked += 1
        if got != want:
            diff = [(g, want.get(g), got.get(g)) for g in sorted(set(want) | set(got)) if want.get(g) != got.get(g)]
            st.fail(tag, 'qdrv map differs (gc, want, got): %s' % diff[:5])
    for p in paths + [lst]:
        os.remove(p)


def negative_tests(st):
    """parse_check must notice corruption; build must reject bad descriptors."""
    rng = random.Random(7)
    cs = 1 << 12
    cl = {0: ('data', gen_payload(rng, cs, True)), 3: ('compressed', b'xy' * (cs // 2)),
          4: ('compressed', bytes(cs)), 9: ('zero_prealloc',), 10: ('zero',)}
    img, t = qimg.build(qimg.ImageDesc(cluster_bits=12, size=20 * cs, clusters=cl))
    assert qimg.parse_check(img, True) == []
    l2 = t['l2_offsets'][0]

    def mutated(off, fn):
        b = bytearray(img)
        (v,) = struct.unpack_from('>Q', b, off)
        struct.pack_into('>Q', b, off, fn(v))
        return bytes(b)
    cases = {
        'data COPIED cleared': mutated(l2, lambda v: v & ~qimg.COPIED),
        'data offset outside file': mutated(l2, lambda v: v + len(img)),
        'data offset misaligned': mutated(l2, lambda v: v | 0x200),
        'data cluster aliased': mutated(l2 + 8 * 9, lambda v: (v & ~qimg.OFFSET_MASK) | t['mapping'][0][1]),
        'L1 COPIED cleared': mutated(t['l1_offset'], lambda v: v & ~qimg.COPIED),
        'compressed grows': mutated(l2 + 8 * 3, lambda v: v + (10 << (62 - 4))),
        'entry dropped (leak)': mutated(l2 + 8 * 9, lambda v: 0),
        'refblock entry bumped': mutated(t['refblock_offsets'][0], lambda v: v + 1),
        'refcount table entry cleared': mutated(t['rt_offset'], lambda v: 0),
        'truncated file': img[:-cs],
        'bad magic': b'QFI\xfa' + img[4:],
        'L2 beyond size': mutated(l2 + 8 * 20, lambda v: 1),
        'snapshots': img[:60] + b'\0\0\0\1' + img[64:],
    }
    for name, bad in cases.items():
        if not qimg.parse_check(bad, True):
            st.fail('negative', 'parse_check accepted corruption: ' + name)
    bad_descs = {
        'zero in v2': dict(version=2, clusters={0: ('zero',)}),
        'ro != 4 in v2': dict(version=2, refcount_order=3),
        'incompressible': dict(clusters={0: ('compressed', rng.randbytes(1 << 16))}),
        'short payload': dict(clusters={0: ('data', b'abc')}),
        'cluster outside size': dict(size=1 << 16, clusters={1: ('zero',)}),
        'header overflow': dict(cluster_bits=9, extensions=[(1, bytes(400))]),
        'cluster_bits 22': dict(cluster_bits=22), 'size % 512': dict(size=1000),
    }
    for name, kw in bad_descs.items():
        try:
            qimg.build(qimg.ImageDesc(**kw))
            st.fail('negative', 'build accepted bad descriptor: ' + name)
        except ValueError:
            pass
    # refcount width limits: many tiny compressed clusters must never overflow a narrow refcount
    for ro in range(7):
        cl = {g: ('compressed', bytes(512)) for g in range(150)}
        im, tr = qimg.build(qimg.ImageDesc(cluster_bits=9, refcount_order=ro, size=150 * 512, clusters=cl))
        if max(tr['refcounts'].values()) > (1 << (1 << ro)) - 1 or qimg.parse_check(im, True):
            st.fail('negative', 'refcount overflow handling, order %d' % ro)
        if ro >= 2 and max(tr['refcounts'].values()) < 3:
            st.fail('negative', 'packing did not share host clusters, order %d' % ro)


def main():
    args = [a for a in sys.argv[1:] if a != '--quick']
    quick = '--quick' in sys.argv[1:]                  # skip the slow external runs on 2 MiB clusters
    seed = int(args[0]) if args else 20260925
    rng = random.Random(seed)
    st = Stats()
    have_qdrv = os.access(QDRV, os.X_OK)
    if not have_qdrv:
        print('WARNING: %s not found, external checks skipped' % QDRV)
    tmp = tempfile.mkdtemp(prefix='qimg_selftest_', dir='/tmp')
    t0 = time.time()
    try:
        negative_tests(st)
        d64 = qimg.ImageDesc(size=64 << 16, clusters={g: ('data', bytes([g]) * 65536) for g in range(64)})
        t1 = time.time()
        qimg.build(d64)
        print('64-cluster (64 KiB clusters) build: %.1f ms' % ((time.time() - t1) * 1000))
        # multi-cluster L1 table and refcount table: 512-byte clusters, 64-bit refcounts
        batch = []
        for sh in (None, 5):
            cl = {g: ('data', bytes([g & 255, g >> 8]) * 256) for g in range(0, 5000, 1) if g % 6}
            desc = qimg.ImageDesc(cluster_bits=9, refcount_order=6, size=5000 * 512, clusters=cl, shuffle_seed=sh)
            img, truth = qimg.build(desc)
            st.images += 1
            if truth['rt_clusters'] < 2 or truth['l1_size'] <= 64:
                st.fail('big tables', 'expected multi-cluster L1 and refcount table')
            check_internal(st, 'big tables shuffle=%s' % sh, desc, img, truth)
            batch.append(('big tables shuffle=%s' % sh, desc, img, truth))
        if have_qdrv:
            check_external(st, tmp, batch)
        print('big tables done: %d failures, %.1fs' % (st.failures, time.time() - t0), flush=True)
        for cb in list(range(9, 17)) + [21]:
            batch = []
            few = cb == 21
            for ro in range(7):
                combos = [(3, sh, mn) for sh in (False, True) for mn in (False, False, True)]
                if ro == 4:
                    combos += [(2, sh, mn) for sh in (False, True) for mn in (False, False, True)]
                if few:         # 2 MiB clusters: few images, few clusters
                    combos = [(3, False, False), (3, True, False), (3, True, True)] + ([(2, True, False)] if ro == 4 else [])
                # The extracted checker walks every entry of every refcount block in unary-ish
                # arithmetic: with 2 MiB clusters that is only affordable for wide refcounts.
                external = have_qdrv and not (few and (quick or ro < 3))
                for rep in range(1 if few else 2):
                    for version, sh, mn in combos:
                        desc = gen_desc(rng, cb, ro, version, sh, mn, few)
                        tag = 'cb=%d ro=%d v%d shuffle=%s minimal=%s #%d' % (cb, ro, version, sh, mn, st.images)
                        try:
                            img, truth = qimg.build(desc)
                        except Exception as e:             # noqa: BLE001
                            st.fail(tag, 'build raised %r' % (e,))
                            continue
                        st.images += 1
                        check_internal(st, tag, desc, img, truth)
                        if external and not (few and mn):
                            batch.append((tag, desc, img, truth))
                        if len(batch) >= (3 if few else 40):
                            check_external(st, tmp, batch)
                            batch = []
            if batch:
                check_external(st, tmp, batch)
            print('cluster_bits=%d done: %d images so far, %d failures, %.1fs'
                  % (cb, st.images, st.failures, time.time() - t0), flush=True)
    finally:
        shutil.rmtree(tmp, ignore_errors=True)
    print('images=%d qdrv_checked=%d qdrv_map_compared=%d failures=%d' %
          (st.images, st.ext_checked, st.map_checked, st.failures))
    print('coverage: mapped clusters %s; images with shared host clusters=%d, with gaps=%d, '
          '>1 refcount block=%d, >1 L2 table=%d; compressed clusters straddling a host cluster boundary=%d'
          % (st.kinds, st.shared, st.gaps, st.multi_block, st.multi_l1, st.straddle))
    print('RESULT: %s' % ('PASS' if st.failures == 0 else 'FAIL'))
    return 1 if st.failures else 0


if __name__ == '__main__':
    sys.exit(main())
