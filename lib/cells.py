"""Decoding of a backend request log into the cell-level events of coq/Model/Crash.v.

A host file is abstracted to refcount cells (one per host cluster, stored in the refcount blocks that the refcount
table links) and reference slots (every entry of the L1 table, of the refcount table and of every L2 table linked
from the L1 table, plus one pseudo slot for what the header itself references).  `decode` follows the log in the
order in which the requests reached the file and emits
    R h v      refcount cell of host cluster h := v
    S i t...   slot i (= file offset of the table entry) now references the clusters t
    Y          completed fsync
A table cluster that is not linked yet is a shadow: writes to it emit nothing; when the link (L1 / refcount-table
entry) is written, every value each of its cells can have on disk at that moment (durable value, then the values of
the pending writes in order) is emitted after the link event, so that the model's crash states cover the real ones.
The abstraction is checked at every sync point against a from-scratch reading of the durable image (`state_of`)."""
import struct

HDR_SLOT = 1     # pseudo slot id (table entries sit at multiples of 8)


def parse_header(img):
    if len(img) < 72 or img[0:4] != b'QFI\xfb':
        return None
    v = struct.unpack('>I', img[4:8])[0]
    if v not in (2, 3):
        return None
    cb = struct.unpack('>I', img[20:24])[0]
    size = struct.unpack('>Q', img[24:32])[0]
    l1_size = struct.unpack('>I', img[36:40])[0]
    l1_off = struct.unpack('>Q', img[40:48])[0]
    rt_off = struct.unpack('>Q', img[48:56])[0]
    rt_clusters = struct.unpack('>I', img[56:60])[0]
    ro = 4
    if v == 3:
        if len(img) < 104:
            return None
        ro = struct.unpack('>I', img[96:100])[0]
    if not (9 <= cb <= 21) or ro > 6:
        return None
    return {'v': v, 'cb': cb, 'size': size, 'l1_size': l1_size, 'l1_off': l1_off, 'rt_off': rt_off, 'rt_clusters': rt_clusters, 'ro': ro}


def u64(img, off):
    if off + 8 <= len(img):
        return struct.unpack('>Q', img[off:off + 8])[0]
    b = bytes(img[off:off + 8]) if off < len(img) else b''
    return struct.unpack('>Q', b + bytes(8 - len(b)))[0]


def refcount(img, boff, idx, ro):
    """entry idx of the refcount block at file offset boff (bytes beyond the end of the file read as zeros)"""
    bits = 1 << ro
    if bits >= 8:
        n = bits // 8
        o = boff + idx * n
        b = bytes(img[o:o + n]) if o < len(img) else b''
        b = b + bytes(n - len(b))
        return int.from_bytes(b, 'big')
    o = boff + (idx * bits) // 8
    byte = img[o] if o < len(img) else 0
    return (byte >> ((idx * bits) % 8)) & ((1 << bits) - 1)


def self_covered(c, k, rbe):
    return k * rbe <= c < (k + 1) * rbe


def tbl_off(v):
    return ((v >> 9) & ((1 << 47) - 1)) * 512


def rt_entry_off(v):
    return ((v >> 9) & ((1 << 55) - 1)) * 512


def l2_refs(v, cb):
    if v == 0:
        return []
    cs = 1 << cb
    if (v >> 62) & 1:
        x = 62 - (cb - 8)
        o = v & ((1 << min(x, 56)) - 1)
        nsect = (v >> x) & ((1 << (62 - x)) - 1)
        clen = (nsect + 1) * 512 - o % 512
        first, last = o // cs, (o + clen - 1) // cs
        return list(range(first, last + 1))
    o = tbl_off(v)
    return [o // cs] if o else []


class Undecodable(Exception):
    pass


def hdr_refs(h):
    cs = 1 << h['cb']
    l1c = (h['l1_size'] * 8 + cs - 1) // cs
    return [0] + [h['rt_off'] // cs + k for k in range(h['rt_clusters'])] + [h['l1_off'] // cs + k for k in range(l1c)]


def state_of(img, l1_size=None):
    """from-scratch abstraction of one image: (rc dict, slots dict)"""
    h = parse_header(img)
    if h is None:
        raise Undecodable('header')
    cb, ro = h['cb'], h['ro']
    cs = 1 << cb
    rbe = (cs * 8) >> ro
    rc, sl = {}, {}
    sl[HDR_SLOT] = hdr_refs(h)
    for k in range(h['rt_clusters'] * cs // 8):
        o = h['rt_off'] + 8 * k
        x = rt_entry_off(u64(img, o))
        if x:
            sl[o] = [x // cs]
            for j in range(rbe):
                v = refcount(img, x, j, ro)
                if v:
                    rc[k * rbe + j] = v
            if self_covered(x // cs, k, rbe) and rc.get(x // cs) == 1:
                # the refcount of a refcount block that covers itself becomes visible together with its link:
                # the pair is left out of the abstraction (see decode)
                sl[o] = []
                del rc[x // cs]
    for k in range(h['l1_size'] if l1_size is None else l1_size):
        o = h['l1_off'] + 8 * k
        x = tbl_off(u64(img, o))
        if x:
            sl[o] = [x // cs]
            for j in range(cs // 8):
                t = l2_refs(u64(img, x + 8 * j), cb)
                if t:
                    sl[x + 8 * j] = t
    return rc, sl


def apply_req(img, r):
    if r['kind'] == 'W':
        end = r['off'] + r['len']
        if len(img) < end:
            img.extend(bytes(end - len(img)))
        img[r['off']:end] = r['payload']
    elif r['kind'] == 'Z':
        end = min(r['off'] + r['len'], len(img))
        if r['off'] < end:
            img[r['off']:end] = bytes(end - r['off'])


def decode(f0, reqs):
    """-> dict(dom, rc0, sl0, events=[(kind, a, b, req index)], syncs=[(event index, durable image bytes)])
    raises Undecodable when the log leaves the supported class (header geometry changes, a table entry is re-pointed,
    a cluster changes its role)"""
    h0 = parse_header(f0)
    if h0 is None:
        raise Undecodable('header')
    cb, ro = h0['cb'], h0['ro']
    cs = 1 << cb
    rbe = (cs * 8) >> ro
    l2e = cs // 8
    # ---- pass 0: header over time
    vol = bytearray(f0)
    l1_max = h0['l1_size']
    for r in reqs:
        if not r['ok'] or r['kind'] not in 'WZ':
            continue
        apply_req(vol, r)
        if r['off'] < 104:
            h = parse_header(vol)
            if h is None or any(h[k] != h0[k] for k in ('v', 'cb', 'ro', 'l1_off', 'rt_off', 'rt_clusters')):
                raise Undecodable('the header geometry changes')
            l1_max = max(l1_max, h['l1_size'])
    hmax = dict(h0)
    hmax['l1_size'] = l1_max
    if hdr_refs(hmax) != hdr_refs(h0):
        raise Undecodable('the L1 table grows into another cluster')
    l1_lo, l1_hi = h0['l1_off'], h0['l1_off'] + 8 * l1_max
    rt_lo, rt_hi = h0['rt_off'], h0['rt_off'] + h0['rt_clusters'] * cs
    fixed = set(hdr_refs(h0))
    # ---- pass 1: roles
    vol = bytearray(f0)
    l2_of, rb_of = {}, {}       # cluster -> L1 index / reftable index

    def note_links(img):
        for k in range(l1_max):
            x = tbl_off(u64(img, l1_lo + 8 * k))
            if x:
                c = x // cs
                if l2_of.setdefault(c, k) != k or c in rb_of or c in fixed or x % cs:
                    raise Undecodable('cluster %d has two roles' % c)
        for k in range((rt_hi - rt_lo) // 8):
            x = rt_entry_off(u64(img, rt_lo + 8 * k))
            if x:
                c = x // cs
                if rb_of.setdefault(c, k) != k or c in l2_of or c in fixed or x % cs:
                    raise Undecodable('cluster %d has two roles' % c)
    note_links(vol)
    for r in reqs:
        if not r['ok'] or r['kind'] not in 'WZ':
            continue
        apply_req(vol, r)
        end = r['off'] + r['len']
        if (r['off'] < l1_hi and end > l1_lo) or (r['off'] < rt_hi and end > rt_lo):
            note_links(vol)
    # ---- pass 2: events
    rc0, sl0 = state_of(f0, l1_size=l1_max)
    sl0[HDR_SLOT] = hdr_refs(h0)
    dom = set(sl0)
    events = []
    syncs = []
    dur = bytearray(f0)
    vol = bytearray(f0)
    pend = []
    live_l2 = {tbl_off(u64(f0, l1_lo + 8 * k)) // cs for k in range(l1_max) if tbl_off(u64(f0, l1_lo + 8 * k))}
    live_rb = {rt_entry_off(u64(f0, rt_lo + 8 * k)) // cs for k in range((rt_hi - rt_lo) // 8) if rt_entry_off(u64(f0, rt_lo + 8 * k))}

    def emit(kind, a, b, ri):
        events.append((kind, a, b, ri))
        if kind == 'S':
            dom.add(a)

    def stages(c):
        """contents of cluster c: durable, then after each pending request that touches it"""
        lo, hi = c * cs, (c + 1) * cs
        cur = bytearray(dur[lo:hi])
        cur.extend(bytes(cs - len(cur)))
        out = [bytes(cur)]
        for p in pend:
            pe = p['off'] + p['len']
            if p['off'] < hi and pe > lo and p['kind'] in 'WZ':
                a, b = max(lo, p['off']), min(hi, pe)
                if p['kind'] == 'W':
                    cur[a - lo:b - lo] = p['payload'][a - p['off']:b - p['off']]
                else:
                    cur[a - lo:b - lo] = bytes(b - a)
                out.append(bytes(cur))
        return out

    for ri, r in enumerate(reqs):
        if not r['ok']:
            continue
        if r['kind'] == 'S':
            emit('Y', 0, 0, ri)
            dur = bytearray(vol)
            pend = []
            syncs.append((len(events), bytes(dur)))
            continue
        if r['kind'] not in 'WZ':
            continue
        lo = r['off'] // 8 * 8
        hi = (r['off'] + r['len'] + 7) // 8 * 8
        old = bytes(vol[lo:hi])
        old = old + bytes((hi - lo) - len(old))
        apply_req(vol, r)
        pend.append(r)
        new = bytes(vol[lo:hi])
        new = new + bytes((hi - lo) - len(new))
        if old == new:
            continue
        # clusters touched
        for c in range(lo // cs, (hi + cs - 1) // cs):
            a, b = max(lo, c * cs), min(hi, (c + 1) * cs)
            if a >= b or old[a - lo:b - lo] == new[a - lo:b - lo]:
                continue
            if c in live_rb and c in rb_of:
                k = rb_of[c]
                bits = 1 << ro
                first = ((a - c * cs) * 8) // bits
                last = ((b - c * cs) * 8 + bits - 1) // bits
                oldc = bytearray(vol[c * cs:(c + 1) * cs])
                oldc.extend(bytes(cs - len(oldc)))
                oldc[a - c * cs:b - c * cs] = old[a - lo:b - lo]
                for j in range(first, min(last, rbe)):
                    ov = refcount(oldc, 0, j, ro)
                    nv = refcount(vol, c * cs, j, ro)
                    if ov != nv:
                        if k * rbe + j == c:
                            raise Undecodable('the refcount of a self-covering refcount block changes')
                        emit('R', k * rbe + j, nv, ri)
            elif c in live_l2 and c in l2_of:
                for o in range(a, b, 8):
                    ot = l2_refs(struct.unpack('>Q', old[o - lo:o - lo + 8])[0], cb)
                    nt = l2_refs(struct.unpack('>Q', new[o - lo:o - lo + 8])[0], cb)
                    if ot != nt:
                        emit('S', o, nt, ri)
        # links
        if lo < l1_hi and hi > l1_lo:
            for o in range(max(lo, l1_lo), min(hi, l1_hi), 8):
                ox = tbl_off(struct.unpack('>Q', old[o - lo:o - lo + 8])[0])
                nx = tbl_off(struct.unpack('>Q', new[o - lo:o - lo + 8])[0])
                if ox == nx:
                    continue
                if ox != 0:
                    raise Undecodable('an L1 entry is re-pointed')
                emit('S', o, [nx // cs], ri)
                c = nx // cs
                live_l2.add(c)
                st = stages(c)
                prev = [[] for _ in range(l2e)]
                for img in st:
                    for j in range(l2e):
                        t = l2_refs(struct.unpack('>Q', img[8 * j:8 * j + 8])[0], cb)
                        if t != prev[j]:
                            emit('S', c * cs + 8 * j, t, ri)
                            prev[j] = t
        if lo < rt_hi and hi > rt_lo:
            for o in range(max(lo, rt_lo), min(hi, rt_hi), 8):
                ox = rt_entry_off(struct.unpack('>Q', old[o - lo:o - lo + 8])[0])
                nx = rt_entry_off(struct.unpack('>Q', new[o - lo:o - lo + 8])[0])
                if ox == nx:
                    continue
                if ox != 0:
                    raise Undecodable('a refcount-table entry is re-pointed')
                c = nx // cs
                k = (o - rt_lo) // 8
                st = stages(c)
                # a refcount block that covers itself: its own refcount (1 in every content it can have on disk) and
                # the link's reference to it appear and disappear together, whatever the crash state; the pair is
                # left out of both sides of `refs <= refcount` (equivalent for this cluster, unchanged for the others)
                selfc = self_covered(c, k, rbe) and all(refcount(img, 0, c - k * rbe, ro) == 1 for img in st)
                emit('S', o, [] if selfc else [c], ri)
                live_rb.add(c)
                prev = [0] * rbe
                for img in st:
                    for j in range(rbe):
                        v = refcount(img, 0, j, ro)
                        if selfc and k * rbe + j == c:
                            continue
                        if v != prev[j]:
                            emit('R', k * rbe + j, v, ri)
                            prev[j] = v
    return {'dom': sorted(dom), 'rc0': rc0, 'sl0': sl0, 'events': events, 'syncs': syncs, 'l1_max': l1_max, 'h': h0,
            'l2_of': dict(l2_of), 'cs': cs, 'l2e': l2e}


def abstract_after(dec, upto):
    """abstract durable state after the first `upto` events, every write applied (what apply_all computes)"""
    rc = dict(dec['rc0'])
    sl = {k: list(v) for k, v in dec['sl0'].items()}
    for (kind, a, b, _) in dec['events'][:upto]:
        if kind == 'R':
            rc[a] = b
        elif kind == 'S':
            sl[a] = list(b)
    return {k: v for k, v in rc.items() if v}, {k: v for k, v in sl.items() if v}


def check_syncs(dec):
    """the incremental abstraction equals the from-scratch reading of the durable image at every sync point"""
    for (ei, img) in dec['syncs']:
        rc, sl = abstract_after(dec, ei)
        try:
            rc2, sl2 = state_of(img, l1_size=dec['l1_max'])
        except Undecodable as e:
            return 'sync point at event %d: %s' % (ei, e)
        rc2 = {k: v for k, v in rc2.items() if v}
        sl2 = {k: v for k, v in sl2.items() if v}
        if rc != rc2:
            ks = [k for k in sorted(set(rc) | set(rc2)) if rc.get(k, 0) != rc2.get(k, 0)]
            return 'sync point at event %d: refcount cell %d is %s by events, %s in the image' % (ei, ks[0], rc.get(ks[0], 0), rc2.get(ks[0], 0))
        if sl != sl2:
            ks = [k for k in sorted(set(sl) | set(sl2)) if sl.get(k, []) != sl2.get(k, [])]
            return 'sync point at event %d: slot %d is %s by events, %s in the image' % (ei, ks[0], sl.get(ks[0], []), sl2.get(ks[0], []))
    return None


def safe_state(rc, sl):
    refs = {}
    for t in sl.values():
        for h in t:
            refs[h] = refs.get(h, 0) + 1
    return [h for h, n in sorted(refs.items()) if n > rc.get(h, 0)]


def script(cid, dec):
    out = ['case ' + cid]
    dom = dec['dom']
    for i in range(0, len(dom), 64):
        out.append('dom ' + ' '.join(str(x) for x in dom[i:i + 64]))
    for h, v in sorted(dec['rc0'].items()):
        out.append('rc %d %d' % (h, v))
    for i, t in sorted(dec['sl0'].items()):
        if t:
            out.append('sl %d %s' % (i, ' '.join(str(x) for x in t)))
    for (kind, a, b, _) in dec['events']:
        if kind == 'R':
            out.append('R %d %d' % (a, b))
        elif kind == 'S':
            out.append(('S %d %s' % (a, ' '.join(str(x) for x in b))).rstrip())
        else:
            out.append('Y')
    out.append('end')
    return '\n'.join(out) + '\n'


def py_disciplined(dec):
    """untrusted re-implementation of Crash.disciplined that also says where it fails: (ok, event index, cluster)"""
    rc = dict(dec['rc0'])
    sl = {k: list(v) for k, v in dec['sl0'].items()}
    if safe_state(rc, sl):
        return False, -1, safe_state(rc, sl)[0]
    prc, psl = {}, {}       # pending values per cell

    def rc_min(h):
        return min([rc.get(h, 0)] + prc.get(h, []))

    def refs_max(h):
        n = 0
        for i in set(sl) | set(psl):
            n += max([sl.get(i, []).count(h)] + [t.count(h) for t in psl.get(i, [])])
        return n
    for ei, (kind, a, b, _) in enumerate(dec['events']):
        if kind == 'Y':
            for h, vs in prc.items():
                rc[h] = vs[-1]
            for i, ts in psl.items():
                sl[i] = ts[-1]
            prc, psl = {}, {}
        elif kind == 'R':
            prc.setdefault(a, []).append(b)
            if refs_max(a) > rc_min(a):
                return False, ei, a
        else:
            psl.setdefault(a, []).append(list(b))
            for h in set(b):
                if refs_max(h) > rc_min(h):
                    return False, ei, h
    return True, None, None


def rewritten_synced_slots(dec, sync_req_idx, targeted):
    """L2 slots whose value at the sync point (request index sync_req_idx, inclusive) is changed by a later request
    although no later operation targets their guest cluster.  -> [(guest cluster, slot, old targets, new targets,
    request index)]  (Proofs/CrashProps.synced_slot_survives: a slot no later event writes keeps its synced value in
    every later crash state; these are the slots the theorem does not cover)"""
    ei = 0
    for k, e in enumerate(dec['events']):
        if e[3] <= sync_req_idx:
            ei = k + 1
    _, sl = abstract_after(dec, ei)
    cs, l2e = dec['cs'], dec['l2e']
    out = []
    cur = {}
    for (kind, a, b, ri) in dec['events'][ei:]:
        if kind != 'S':
            continue
        c = a // cs
        if c not in dec['l2_of'] or a in (HDR_SLOT,):
            continue
        gc = dec['l2_of'][c] * l2e + (a - c * cs) // 8
        old = cur.get(a, sl.get(a, []))
        cur[a] = list(b)
        if gc in targeted:
            continue
        if list(b) != sl.get(a, []):
            out.append((gc, a, sl.get(a, []), list(b), ri))
    return out


def parse_coq_cells(out):
    """output of `qdrv cells` -> {path: (nodup, rc dict, slots dict) or None}"""
    res = {}
    cur = None
    for ln in out.split('\n'):
        tk = ln.split()
        if not tk:
            continue
        if tk[0] == 'case':
            cur = tk[1]
            if len(tk) > 2 and tk[2].startswith('nodup='):
                res[cur] = [tk[2] == 'nodup=1', {}, {}]
            else:
                res[cur] = None
        elif tk[0] == 'R' and res.get(cur):
            res[cur][1].setdefault(int(tk[1]), int(tk[2]))
        elif tk[0] == 'S' and res.get(cur):
            res[cur][2].setdefault(int(tk[1]), [int(x) for x in tk[2:]])
    return res


def drop_self_covered(rc, sl, h):
    """the convention of `decode` for refcount blocks that cover themselves, applied to a literal abstraction"""
    cs = 1 << h['cb']
    rbe = (cs * 8) >> h['ro']
    rc, sl = dict(rc), dict(sl)
    for k in range(h['rt_clusters'] * cs // 8):
        o = h['rt_off'] + 8 * k
        t = sl.get(o)
        if t and len(t) == 1 and self_covered(t[0], k, rbe) and rc.get(t[0]) == 1:
            del sl[o]
            del rc[t[0]]
    return {k: v for k, v in rc.items() if v}, {k: v for k, v in sl.items() if v}


def check_syncs_coq(dec, workdir, cid, qdrv):
    """the state the decoder reaches at every sync point equals the abstraction `cells` of the durable image computed
    by the extracted Coq definition (Spec/Cells.v; theorem cells_safe_iff gives its meaning)"""
    import os, subprocess
    paths = []
    for k, (ei, img) in enumerate(dec['syncs']):
        p = os.path.join(workdir, '%s.sy%d.img' % (cid, k))
        open(p, 'wb').write(img)
        paths.append(p)
    if not paths:
        return None
    lst = os.path.join(workdir, '%s.sy.lst' % cid)
    open(lst, 'w').write('\n'.join(paths) + '\n')
    out = subprocess.run('ulimit -s unlimited; exec %s cells %s' % (qdrv, lst), shell=True, stdout=subprocess.PIPE,
                         stderr=subprocess.DEVNULL, text=True, timeout=900).stdout
    res = parse_coq_cells(out)
    bad = None
    for k, (ei, img) in enumerate(dec['syncs']):
        r = res.get(paths[k])
        if not r:
            bad = 'sync point at event %d: the specification does not read the durable image' % ei
            break
        if not r[0]:
            bad = 'sync point at event %d: two table entries share a file offset' % ei
            break
        rc2, sl2 = drop_self_covered(r[1], r[2], dec['h'])
        rc, sl = abstract_after(dec, ei)
        # clusters that nothing references carry no constraint: the Coq abstraction lists refcounts of referenced clusters only
        referenced = set(x for t in sl2.values() for x in t) | set(x for t in sl.values() for x in t)
        rc = {c: v for c, v in rc.items() if c in referenced}
        rc2 = {c: v for c, v in rc2.items() if c in referenced}
        if rc != rc2:
            ks = [c for c in sorted(set(rc) | set(rc2)) if rc.get(c, 0) != rc2.get(c, 0)]
            bad = 'sync point at event %d: refcount cell %d is %s by events, %s in the Coq abstraction of the image' % (ei, ks[0], rc.get(ks[0], 0), rc2.get(ks[0], 0))
            break
        if sl != sl2:
            ks = [c for c in sorted(set(sl) | set(sl2)) if sl.get(c, []) != sl2.get(c, [])]
            bad = 'sync point at event %d: slot %d is %s by events, %s in the Coq abstraction of the image' % (ei, ks[0], sl.get(ks[0], []), sl2.get(ks[0], []))
            break
    for p in paths + [lst]:
        os.remove(p)
    return bad
