"""qimg: independent qcow2 image builder / checker / reader for tests.

Written only from the qcow2 format specification (docs/interop/qcow2.txt).
Standard library only.  Public API:

    ImageDesc(...)                      description of the image to build
    build(desc) -> (bytes, truth)       image bytes + ground truth dict
    parse_check(img) -> [problems]      independent sanity checker
    read_guest(img, gc, backing=None)   read one guest cluster via the metadata
"""
import random
import struct
import zlib

MAGIC = b'QFI\xfb'
COPIED = 1 << 63
COMPRESSED = 1 << 62
OFFSET_MASK = ((1 << 56) - 1) & ~0x1ff      # bits 9..55
HDR_FMT = '>4sIQIIQIIQQIIQ'                 # 72 bytes, common to v2 and v3
EXT_BACKING_FORMAT = 0xE2792ACA
EXT_FEATURE_NAMES = 0x6803F857


class ImageDesc:
    """Description of a qcow2 image; every field has a default."""

    def __init__(self, version=3, cluster_bits=16, refcount_order=4, size=None,
                 clusters=None, backing_file=None, l1_minimal=False,
                 extensions=None, shuffle_seed=None, pack_compressed=True,
                 compress_level=6):
        self.version = version
        self.cluster_bits = cluster_bits
        self.refcount_order = refcount_order
        self.clusters = dict(clusters or {})
        if size is None:                      # default: just cover the given clusters
            size = (max(self.clusters, default=0) + 1) << cluster_bits
        self.size = size
        self.backing_file = backing_file
        self.l1_minimal = l1_minimal
        self.extensions = list(extensions or [])
        self.shuffle_seed = shuffle_seed
        self.pack_compressed = pack_compressed
        self.compress_level = compress_level


def _ceil_div(a, b):
    return -(-a // b)


def deflate_raw(data, level=6):
    c = zlib.compressobj(level, zlib.DEFLATED, -12)
    return c.compress(data) + c.flush()


def _comp_extent(off, clen):
    """(nb_additional_sectors, end) of compressed data of clen bytes at byte off;
    end is the end of the last sector touched = off + byte budget."""
    nb_add = (off + clen - 1) // 512 - off // 512
    return nb_add, (off // 512 + nb_add + 1) * 512


def _rc_put(buf, base, idx, width, val):
    if width >= 8:
        n = width // 8
        buf[base + idx * n: base + idx * n + n] = val.to_bytes(n, 'big')
    else:
        per = 8 // width
        buf[base + idx // per] |= val << ((idx % per) * width)


def _rc_get(img, base, idx, width):
    if width >= 8:
        n = width // 8
        return int.from_bytes(img[base + idx * n: base + idx * n + n], 'big')
    per = 8 // width
    return (img[base + idx // per] >> ((idx % per) * width)) & ((1 << width) - 1)


def _header_bytes(version, ext_list, backing_file, cs, short_header=False):
    """Extension area + backing name; returns (tail_bytes, backing_off, backing_len, hdr_len)."""
    # version 3 headers are 104 bytes (QEMU before 5.1) or 112 bytes (with the compression type field)
    hdr_len = 72 if version == 2 else (104 if short_header else 112)
    ext = bytearray()
    for typ, data in ext_list:
        data = bytes(data)
        ext += struct.pack('>II', typ, len(data)) + data + bytes(-len(data) % 8)
    ext += struct.pack('>II', 0, 0)
    boff = blen = 0
    if backing_file is not None:
        name = backing_file.encode() if isinstance(backing_file, str) else bytes(backing_file)
        if not 0 < len(name) <= 1023:
            raise ValueError('backing file name length must be 1..1023')
        boff, blen = hdr_len + len(ext), len(name)
        ext += name
    if hdr_len + len(ext) > cs:
        raise ValueError('header, extensions and backing name do not fit in cluster 0')
    return bytes(ext), boff, blen, hdr_len


def build(desc):
    v, cb, ro = desc.version, desc.cluster_bits, desc.refcount_order
    if v not in (2, 3):
        raise ValueError('version must be 2 or 3')
    if not 9 <= cb <= 21:
        raise ValueError('cluster_bits must be in 9..21')
    if not 0 <= ro <= 6 or (v == 2 and ro != 4):
        raise ValueError('bad refcount_order')
    cs, width = 1 << cb, 1 << ro
    size = desc.size
    if size < 0 or size % 512:
        raise ValueError('size must be a non-negative multiple of 512')
    l2e = cs // 8
    ngc = _ceil_div(size, cs)
    max_rc = (1 << width) - 1
    per_block = cs * 8 // width
    shuffle = desc.shuffle_seed is not None
    rng = random.Random(desc.shuffle_seed if shuffle else 0)   # only consulted when shuffling
    tail, boff, blen, hdr_len = _header_bytes(v, desc.extensions, desc.backing_file, cs, getattr(desc, 'short_header', False))

    # ---- guest side ------------------------------------------------------
    content, comp = {}, []
    for gc in sorted(desc.clusters):
        spec = desc.clusters[gc]
        kind = spec[0]
        if not 0 <= gc < ngc:
            raise ValueError('guest cluster %d outside the virtual size' % gc)
        if kind in ('zero', 'zero_prealloc'):
            if v == 2:
                raise ValueError('zero clusters need version 3')
            content[gc] = bytes(cs)
        elif kind in ('data', 'compressed'):
            if len(spec[1]) != cs:
                raise ValueError('cluster %d payload must be cluster_size bytes' % gc)
            content[gc] = bytes(spec[1])
            if kind == 'compressed':
                cdata = deflate_raw(content[gc], desc.compress_level)
                if len(cdata) >= cs:
                    raise ValueError('cluster %d is not compressible' % gc)
                comp.append((gc, cdata))
        else:
            raise ValueError('unknown cluster kind %r' % (kind,))
    l1_size = _ceil_div(ngc, l2e)
    if desc.l1_minimal:
        l1_size = max(desc.clusters, default=0) // l2e + 1
    l1_clusters = _ceil_div(l1_size * 8, cs)

    # ---- units to place: every unit is a run of n contiguous host clusters --
    units = []                                   # dicts: kind, n, host (filled later)
    if l1_clusters:
        units.append({'kind': 'l1', 'n': l1_clusters})
    l2_units = {}
    for i1 in sorted({gc // l2e for gc in desc.clusters}):
        l2_units[i1] = {'kind': 'l2', 'n': 1}
        units.append(l2_units[i1])
    data_units = {}
    for gc in sorted(desc.clusters):
        if desc.clusters[gc][0] in ('data', 'zero_prealloc'):
            data_units[gc] = {'kind': 'data', 'n': 1, 'gc': gc}
            units.append(data_units[gc])
    # compressed clusters are grouped into runs; inside a run they are laid out
    # relative to the (cluster aligned) start of the run
    if shuffle:
        rng.shuffle(comp)
    runs, i = [], 0
    while i < len(comp):
        k = rng.randint(1, 6) if shuffle else len(comp)
        runs.append(comp[i:i + k])
        i += k
    comp_place = {}                              # gc -> (unit, rel_off, clen, nb_add)
    for run in runs:
        unit = {'kind': 'comp', 'n': 0, 'touch': {}}
        pos = 0
        for gc, cdata in run:
            if shuffle and rng.random() < 0.3:
                pos += rng.randrange(1, 700)     # random byte gap
            if not desc.pack_compressed:
                pos = _ceil_div(pos, cs) * cs
            while True:
                nb_add, end = _comp_extent(pos, len(cdata))
                touched = range(pos // cs, (end - 1) // cs + 1)
                if all(unit['touch'].get(c, 0) < max_rc for c in touched):
                    break
                pos = (pos // cs + 1) * cs       # refcount would overflow: next cluster
            for c in touched:
                unit['touch'][c] = unit['touch'].get(c, 0) + 1
            comp_place[gc] = (unit, pos, cdata, nb_add)
            unit['n'] = max(unit['n'], touched[-1] + 1)
            pos += len(cdata)
        units.append(unit)

    # ---- host layout; number of refcount blocks by fixpoint ---------------
    layout_seed = rng.getrandbits(64)
    nblocks = 1
    while True:
        rt_clusters = max(1, _ceil_div(nblocks * 8, cs))
        rt_unit = {'kind': 'rt', 'n': rt_clusters}
        blocks = [{'kind': 'rb', 'n': 1} for _ in range(nblocks)]
        order = [rt_unit] + blocks + units
        lrng = random.Random(layout_seed)
        if shuffle:
            lrng.shuffle(order)
        cur = 1                                  # cluster 0 is the header
        for u in order:
            if shuffle:
                cur += lrng.choice((0, 0, 0, 1, 1, 2, 3, 7))
            u['host'] = cur
            cur += u['n']
        total = cur + (lrng.choice((0, 0, 1, 3)) if shuffle else 0)
        # leak_to: every host cluster from the end of the image up to this cluster number is marked allocated (refcount 1)
        # although nothing references it - a legal state (leaks are the permitted damage of a crash) that makes the next
        # allocation land far out without the image holding that much data
        leak_to = getattr(desc, 'leak_to', None) or 0
        need = _ceil_div(max(total, leak_to), per_block)
        if need <= nblocks:
            break
        nblocks = need

    # ---- emit --------------------------------------------------------------
    img = bytearray(total * cs)
    rc = [0] * max(total, leak_to)
    rc[0] = 1
    for c in range(total, leak_to):
        rc[c] = 1
    for u in order:
        if u['kind'] == 'comp':
            for c, k in u['touch'].items():
                rc[u['host'] + c] += k
        else:
            for c in range(u['n']):
                rc[u['host'] + c] += 1
    l1_off = units[0]['host'] * cs if l1_clusters else 0
    rt_off = rt_unit['host'] * cs
    hdr = struct.pack(HDR_FMT, MAGIC, v, boff, blen, cb, size, 0, l1_size, l1_off,
                      rt_off, rt_clusters, 0, 0)
    if v == 3:
        hdr += struct.pack('>QQQII', 0, 0, 0, ro, hdr_len) + bytes(hdr_len - 104)   # compression type 0 + pad (112-byte form)
    img[0:len(hdr) + len(tail)] = hdr + tail
    mapping = {}
    for gc in sorted(desc.clusters):
        kind = desc.clusters[gc][0]
        l2_off = l2_units[gc // l2e]['host'] * cs
        struct.pack_into('>Q', img, l1_off + 8 * (gc // l2e), l2_off | COPIED)
        if kind == 'zero':
            entry, mapping[gc] = 1, ('Z', None, 0)
        elif kind in ('data', 'zero_prealloc'):
            off = data_units[gc]['host'] * cs
            if kind == 'data':
                img[off:off + cs] = content[gc]
                entry, mapping[gc] = off | COPIED, ('D', off, 0)
            else:       # stale non-zero bytes: a reader must honour the zero flag
                img[off:off + cs] = bytes([0xA5, gc & 0xff]) * (cs // 2)
                entry, mapping[gc] = off | COPIED | 1, ('Z', off, 0)
        else:
            unit, rel, cdata, nb_add = comp_place[gc]
            off = unit['host'] * cs + rel
            img[off:off + len(cdata)] = cdata
            x = 62 - (cb - 8)
            assert off < (1 << x) and nb_add < (1 << (cb - 8))
            entry = COMPRESSED | (nb_add << x) | off
            mapping[gc] = ('C', off, (nb_add + 1) * 512 - off % 512)
        struct.pack_into('>Q', img, l2_off + 8 * (gc % l2e), entry)
    for i, b in enumerate(blocks):
        struct.pack_into('>Q', img, rt_off + 8 * i, b['host'] * cs)
    for c, k in enumerate(rc):
        if k:
            assert k <= max_rc
            _rc_put(img, blocks[c // per_block]['host'] * cs, c % per_block, width, k)
    truth = {
        'mapping': mapping,
        'content': content.get,                  # gc -> bytes, None if unallocated
        'refcounts': dict(enumerate(rc)),
        'host_clusters': total,
        'l1_offset': l1_off, 'l1_size': l1_size,
        'rt_offset': rt_off, 'rt_clusters': rt_clusters,
        'cluster_size': cs, 'guest_clusters': ngc,
        'l2_offsets': {i1: u['host'] * cs for i1, u in l2_units.items()},
        'refblock_offsets': [b['host'] * cs for b in blocks],
    }
    return bytes(img), truth


# ---------------------------------------------------------------------------
# independent parsing side
# ---------------------------------------------------------------------------

def parse_header(img):
    if len(img) < 72:
        raise ValueError('file shorter than a qcow2 header')
    names = ('magic', 'version', 'backing_off', 'backing_len', 'cluster_bits', 'size', 'crypt',
             'l1_size', 'l1_off', 'rt_off', 'rt_clusters', 'nb_snapshots', 'snap_off')
    h = dict(zip(names, struct.unpack_from(HDR_FMT, img, 0)))
    h.update(incompat=0, compat=0, autoclear=0, refcount_order=4, header_length=72, compression=0)
    if h['version'] >= 3 and len(img) >= 104:
        (h['incompat'], h['compat'], h['autoclear'], h['refcount_order'],
         h['header_length']) = struct.unpack_from('>QQQII', img, 72)
        if h['header_length'] > 104 and len(img) > 104:
            h['compression'] = img[104]
    return h


def _walk_l2(img, h):
    """Yield (gc, entry) for every L2 slot reachable through valid L1 entries."""
    cs = 1 << h['cluster_bits']
    l2e = cs // 8
    for i1 in range(h['l1_size']):
        (e1,) = struct.unpack_from('>Q', img, h['l1_off'] + 8 * i1)
        off = e1 & OFFSET_MASK
        if off and off % cs == 0 and off + cs <= len(img):
            for i2, e2 in enumerate(struct.unpack_from('>%dQ' % l2e, img, off)):
                if e2:
                    yield i1 * l2e + i2, e2


def _comp_fields(entry, cb):
    x = 62 - (cb - 8)
    off = entry & ((1 << x) - 1)
    nb_add = (entry >> x) & ((1 << (cb - 8)) - 1)
    return off, nb_add, (off // 512 + nb_add + 1) * 512


def parse_check(img, require_full_l1=False):
    """Return a list of problems found in the image (empty list = consistent)."""
    P = []
    try:
        h = parse_header(img)
    except ValueError as e:
        return [str(e)]
    if h['magic'] != MAGIC:
        return ['bad magic']
    v, cb = h['version'], h['cluster_bits']
    if v not in (2, 3):
        return ['unsupported version %d' % v]
    if not 9 <= cb <= 21:
        return ['cluster_bits %d out of range' % cb]
    cs = 1 << cb
    l2e = cs // 8
    if len(img) % cs:
        P.append('file length is not a multiple of the cluster size')
    nhc = len(img) // cs
    if nhc == 0:
        return P + ['file shorter than one cluster']
    if h['crypt'] or h['nb_snapshots'] or h['snap_off']:
        P.append('crypt_method/snapshot fields are not zero')
    if h['size'] % 512:
        P.append('size is not a multiple of 512')
    if v == 3:
        if h['incompat'] or h['compat'] or h['autoclear']:
            P.append('feature bits set')
        if h['header_length'] < 104 or h['header_length'] % 8 or h['header_length'] > cs:
            return P + ['bad header_length %d' % h['header_length']]
        if h['refcount_order'] > 6:
            return P + ['refcount_order > 6']
        if h['compression'] or any(img[104:h['header_length']]):
            P.append('non-zero bytes in the additional header fields')
    width = 1 << h['refcount_order']
    pos = h['header_length']                     # header extensions
    while True:
        if pos + 8 > cs:
            P.append('header extensions run out of cluster 0')
            break
        typ, ln = struct.unpack_from('>II', img, pos)
        pos += 8
        if typ == 0:
            if ln:
                P.append('end-of-extensions marker with non-zero length')
            break
        if typ == EXT_FEATURE_NAMES and ln % 48:
            P.append('feature name table length is not a multiple of 48')
        pos += ln + (-ln % 8)
    if h['backing_off'] or h['backing_len']:
        if not (pos <= h['backing_off'] and h['backing_off'] + h['backing_len'] <= cs
                and 0 < h['backing_len'] <= 1023):
            P.append('backing file name is misplaced')
    ngc = _ceil_div(h['size'], cs)
    if require_full_l1 and h['l1_size'] * l2e < ngc:
        P.append('L1 table does not cover the virtual size')
    refs = [0] * nhc
    refs[0] = 1

    def claim(off, n, what):
        if off % cs or off == 0 or off + n * cs > len(img):
            P.append('%s at %#x (%d clusters) misaligned or outside the file' % (what, off, n))
            return False
        for c in range(off // cs, off // cs + n):
            refs[c] += 1
        return True

    if not claim(h['rt_off'], max(1, h['rt_clusters']), 'refcount table') or not h['rt_clusters']:
        return P + ['unusable refcount table']
    per_block = cs * 8 // width
    block_of = {}
    for i, e in enumerate(struct.unpack_from('>%dQ' % (h['rt_clusters'] * l2e), img, h['rt_off'])):
        if e and claim(e, 1, 'refcount block %d' % i):
            block_of[i] = e

    def stored(c):
        b = block_of.get(c // per_block)
        return 0 if b is None else _rc_get(img, b, c % per_block, width)

    l1_clusters = _ceil_div(h['l1_size'] * 8, cs)
    if l1_clusters and not claim(h['l1_off'], l1_clusters, 'L1 table'):
        return P
    for i1 in range(h['l1_size']):
        (e1,) = struct.unpack_from('>Q', img, h['l1_off'] + 8 * i1)
        if not e1:
            continue
        if e1 & ~(OFFSET_MASK | COPIED):
            P.append('L1[%d] has reserved bits set' % i1)
        if i1 * l2e >= ngc:
            P.append('L1[%d] is beyond the virtual size' % i1)
        if claim(e1 & OFFSET_MASK, 1, 'L2 table of L1[%d]' % i1):
            if bool(e1 & COPIED) != (stored((e1 & OFFSET_MASK) // cs) == 1):
                P.append('L1[%d] COPIED flag does not match refcount' % i1)
    for gc, e2 in _walk_l2(img, h):
        if gc >= ngc:
            P.append('L2 entry for guest cluster %d beyond the virtual size' % gc)
        if e2 & COMPRESSED:
            off, nb_add, end = _comp_fields(e2, cb)
            if e2 & COPIED:
                P.append('compressed cluster %d has COPIED set' % gc)
            if off < cs or end > len(img):
                P.append('compressed cluster %d outside the file' % gc)
                continue
            for c in range(off // cs, (end - 1) // cs + 1):
                refs[c] += 1
            continue
        if e2 & ~(OFFSET_MASK | COPIED | 1):
            P.append('L2 entry of cluster %d has reserved bits set' % gc)
        if (e2 & 1) and v == 2:
            P.append('zero flag in a version 2 image (cluster %d)' % gc)
        off = e2 & OFFSET_MASK
        if off:
            if claim(off, 1, 'data cluster of guest cluster %d' % gc):
                if bool(e2 & COPIED) != (stored(off // cs) == 1):
                    P.append('cluster %d COPIED flag does not match refcount' % gc)
        elif e2 & COPIED:
            P.append('cluster %d has COPIED without an offset' % gc)
    for c in range(nhc):
        if stored(c) != refs[c]:
            P.append('host cluster %d: refcount %d but %d references' % (c, stored(c), refs[c]))
    for i, b in block_of.items():                # entries for clusters past the end of file
        first = min(per_block, max(0, nhc - i * per_block))
        while first < per_block and (first * width) % 8:
            if _rc_get(img, b, first, width):
                P.append('refcount block %d: entry %d beyond the file is non-zero' % (i, first))
            first += 1
        if any(img[b + first * width // 8: b + cs]):
            P.append('refcount block %d has non-zero entries beyond the file' % i)
    return P


def read_guest(img, gc, backing=None):
    """Read guest cluster gc through the metadata; returns cluster_size bytes."""
    h = parse_header(img)
    cb = h['cluster_bits']
    cs = 1 << cb
    l2e = cs // 8
    e2 = 0
    if gc // l2e < h['l1_size']:
        (e1,) = struct.unpack_from('>Q', img, h['l1_off'] + 8 * (gc // l2e))
        if e1 & OFFSET_MASK:
            (e2,) = struct.unpack_from('>Q', img, (e1 & OFFSET_MASK) + 8 * (gc % l2e))
    if e2 & COMPRESSED:
        off, _, end = _comp_fields(e2, cb)
        out = zlib.decompressobj(-12).decompress(img[off:end], cs)
        if len(out) != cs:
            raise ValueError('compressed cluster %d inflates to %d bytes' % (gc, len(out)))
        return out
    if (e2 & 1) and h['version'] >= 3:
        return bytes(cs)
    if e2 & OFFSET_MASK:
        off = e2 & OFFSET_MASK
        return bytes(img[off:off + cs])
    if backing is not None:
        data = backing(gc)
        if data is not None:
            return bytes(data)
    return bytes(cs)
