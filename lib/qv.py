"""Shared machinery of bin/check: builds, gates, running the harness / Coq / driver, evidence."""
import os, sys, json, re, subprocess, time, fcntl, shutil, hashlib, random

VERIF = os.path.dirname(os.path.dirname(os.path.abspath(__file__)))
REPO = os.environ.get('QCOW2_REPO', '/repo')
COQ = os.path.join(VERIF, 'coq')
HARNESS = os.path.join(VERIF, 'harness')
WORK = os.path.join(VERIF, 'work')
GUARD = 'qcow2_rs_verif'
COQ_Q = ['-Q', 'Base', 'Q.Base', '-Q', 'Spec', 'Q.Spec', '-Q', 'Model', 'Q.Model', '-Q', 'Gen', 'Q.Gen',
         '-Q', 'Proofs', 'Q.Proofs', '-Q', 'Props', 'Q.Props', '-Q', 'Extract', 'Q.Extract', '-Q', 'Exec', 'Q.Exec']

ALLOWED_AXIOMS = set()   # every property theorem is expected to be closed under the global context

FORBIDDEN = re.compile(r'\b(Admitted|admit|Axiom|Parameter|Conjecture|Admit Obligations|Unset Guard Checking|'
                       r'bypass_check|Unset Positivity Checking|Unset Universe Checking|type-in-type)\b')


class Timer:
    def __init__(self):
        self.t0 = time.time()

    def s(self):
        return round(time.time() - self.t0, 2)


def sh(cmd, cwd=None, timeout=1800, env=None, check=False):
    e = dict(os.environ)
    e.update({'CARGO_NET_OFFLINE': 'true'})
    if env:
        e.update(env)
    p = subprocess.run(cmd, cwd=cwd, shell=isinstance(cmd, str), stdout=subprocess.PIPE, stderr=subprocess.STDOUT,
                       text=True, timeout=timeout, env=e)
    if check and p.returncode != 0:
        raise RuntimeError('command failed: %s\n%s' % (cmd, p.stdout[-4000:]))
    return p.returncode, p.stdout


class Lock:
    def __init__(self, name):
        os.makedirs(WORK, exist_ok=True)
        self.path = os.path.join(WORK, name + '.lock')

    def __enter__(self):
        self.f = open(self.path, 'w')
        fcntl.flock(self.f, fcntl.LOCK_EX)
        return self

    def __exit__(self, *a):
        fcntl.flock(self.f, fcntl.LOCK_UN)
        self.f.close()


def workdir(tag):
    d = os.path.join(WORK, '%s.%d' % (tag, os.getpid()))
    shutil.rmtree(d, ignore_errors=True)
    os.makedirs(d)
    return d


# ---------------------------------------------------------------- Coq build
def regen():
    """regenerate Gen/GenCodec.v from the repo's current sources (tie A)"""
    rc, out = sh([sys.executable, os.path.join(VERIF, 'gen', 'rs2v.py'), os.path.join(COQ, 'Gen', 'GenCodec.v')],
                 env={'QCOW2_REPO': REPO})
    rep = {}
    try:
        rep = json.load(open(os.path.join(COQ, 'Gen', 'gen_report.json')))
    except Exception:
        pass
    return rc, out, rep


def coq_make(targets=None, jobs=16, timeout=1500):
    """full .vo build (never -vos) of the given targets, under a shell timeout"""
    with Lock('coq'):
        if not os.path.exists(os.path.join(COQ, 'Makefile')):
            sh('coq_makefile -f _CoqProject -o Makefile', cwd=COQ, check=True)
        tg = ' '.join(targets) if targets else ''
        rc, out = sh('timeout %d make -j%d %s' % (timeout, jobs, tg), cwd=COQ, timeout=timeout + 30)
        return rc, out


def coq_failed_item(out):
    """name the file and (if possible) the lemma the build stopped in"""
    m = re.search(r'File "\./([^"]+)", line (\d+)', out)
    if not m:
        return None
    f, line = m.group(1), int(m.group(2))
    name = None
    try:
        lines = open(os.path.join(COQ, f)).read().split('\n')
        for i in range(min(line, len(lines)) - 1, -1, -1):
            mm = re.match(r'\s*(Lemma|Theorem|Corollary|Example|Definition|Fixpoint)\s+(\w+)', lines[i])
            if mm:
                name = mm.group(2)
                break
    except Exception:
        pass
    return {'file': f, 'line': line, 'item': name}


def coq_props(prop):
    """(re)compile Props/<prop>.v and return its output (Check / Print Assumptions)"""
    with Lock('coq'):
        rc, out = sh(['timeout', '600', 'coqc'] + COQ_Q + ['Props/%s.v' % prop], cwd=COQ)
    return rc, out


def parse_assumptions(out):
    """returns list of (theorem?, status) in print order: 'closed' or list of axiom names"""
    res = []
    blocks = re.split(r'\n(?=Closed under the global context|Axioms:)', '\n' + out)
    for b in blocks:
        b = b.strip()
        if b.startswith('Closed under the global context'):
            res.append('closed')
        elif b.startswith('Axioms:'):
            names = re.findall(r'^([A-Za-z_][\w\.\']*)\s*:', b[len('Axioms:'):], re.M)
            res.append(names)
    return res


def gate_sources():
    """forbidden-token grep over the development (comments stripped)"""
    bad = []
    for root, _, files in os.walk(COQ):
        for f in files:
            if not f.endswith('.v'):
                continue
            p = os.path.join(root, f)
            txt = open(p).read()
            txt = re.sub(r'\(\*.*?\*\)', '', txt, flags=re.S)
            for m in FORBIDDEN.finditer(txt):
                bad.append('%s: %s' % (os.path.relpath(p, COQ), m.group(1)))
            for m in re.finditer(r'^\s*(Variable|Hypothesis|Variables|Hypotheses)\b', txt, re.M):
                # allowed only inside a Section
                pre = txt[:m.start()]
                if len(re.findall(r'^\s*Section\s', pre, re.M)) <= len(re.findall(r'^\s*End\s', pre, re.M)):
                    bad.append('%s: %s outside a Section' % (os.path.relpath(p, COQ), m.group(1)))
    return bad


def count_qed(files):
    n = 0
    for f in files:
        p = os.path.join(COQ, f)
        if os.path.exists(p):
            n += len(re.findall(r'\bQed\.', open(p).read()))
    return n


def coq_eval(tag, body, imports, timeout=600):
    """compile a scratch file; returns (rc, out).  `body` prints with Eval vm_compute."""
    d = workdir('coq_' + tag)
    p = os.path.join(d, 'cases.v')
    open(p, 'w').write(imports + '\n' + body + '\n')
    rc, out = sh(['timeout', str(timeout), 'coqc', '-noglob'] + COQ_Q + [p], cwd=COQ, timeout=timeout + 30)
    shutil.rmtree(d, ignore_errors=True)
    return rc, out


def parse_N_list(out):
    """all `= [a; b; c]` results (lists of N) printed by Eval, in order"""
    res = []
    for m in re.finditer(r'=\s*\[([^\]]*)\]\s*:\s*list N', out.replace('\n', ' ')):
        body = m.group(1).strip()
        res.append([int(x.strip().replace('%N', '')) for x in body.split(';') if x.strip()])
    return res


# ---------------------------------------------------------------- harness
def harness_build(release=False):
    with Lock('cargo'):
        lock = os.path.join(HARNESS, 'Cargo.lock')
        if not os.path.exists(lock):
            shutil.copy(os.path.join(REPO, 'Cargo.lock'), lock)
        cmd = 'cargo build --offline' + (' --release' if release else '')
        rc, out = sh(cmd, cwd=HARNESS, timeout=1500, env={'RUSTFLAGS': '--cfg ' + GUARD})
    return rc, out


def harness_bin(release=False):
    return os.path.join(HARNESS, 'target', 'release' if release else 'debug', 'qh')


def run_harness(args, timeout=900, release=False):
    p = subprocess.run([harness_bin(release)] + args, stdout=subprocess.PIPE, stderr=subprocess.PIPE, text=True,
                       timeout=timeout)
    return p.returncode, p.stdout, p.stderr


# ---------------------------------------------------------------- findings / verdict
def known_findings():
    try:
        return json.load(open(os.path.join(VERIF, 'known_findings.json')))
    except Exception:
        return {'findings': [], 'fixed': []}


def write_evidence(prop, tier, seed, level, coverage, wall, violations, assumptions):
    os.makedirs(os.path.join(VERIF, 'evidence'), exist_ok=True)
    ev = {'property_id': prop, 'tier': tier, 'seed': seed, 'level': level, 'coverage': coverage,
          'assumptions': assumptions, 'wall_s': wall, 'violations': violations}
    p = os.path.join(VERIF, 'evidence', prop + '.json')
    json.dump(ev, open(p, 'w'), indent=1)
    return p


def write_replay(prop, name, content):
    d = os.path.join(VERIF, 'evidence', 'replay')
    os.makedirs(d, exist_ok=True)
    p = os.path.join(d, '%s-%s' % (prop, name))
    # make the replay self-contained: image files of the (deleted) work directory are embedded as hex
    try:
        j = json.loads(content)
        if isinstance(j, dict) and isinstance(j.get('case_text'), str) and 'image file ' in j['case_text']:
            out = []
            for ln in j['case_text'].split('\n'):
                if ln.startswith('image file ') and os.path.exists(ln[11:].strip()) and os.path.getsize(ln[11:].strip()) <= (8 << 20):
                    ln = 'image hex ' + open(ln[11:].strip(), 'rb').read().hex()
                out.append(ln)
            j['case_text'] = '\n'.join(out)
            content = json.dumps(j)
    except ValueError:
        pass
    open(p, 'w').write(content)
    return p


class Rng(random.Random):
    pass


def boundary_u64():
    xs = set()
    for k in list(range(0, 65)):
        for d in (-1, 0, 1):
            v = (1 << k) + d
            if 0 <= v < (1 << 64):
                xs.add(v)
    return sorted(xs)


def qdrv_check(paths, workdir_, jobs=16, timeout=1500):
    """run the extracted specification checker on many images in parallel; -> {path: {k: v}}"""
    if not paths:
        return {}
    jobs = max(1, min(jobs, len(paths) // 8 + 1))
    chunks = [paths[i::jobs] for i in range(jobs)]
    procs = []
    for i, ch in enumerate(chunks):
        lst = os.path.join(workdir_, 'qdrv_%d_%d.lst' % (os.getpid(), i))
        open(lst, 'w').write('\n'.join(ch) + '\n')
        procs.append((lst, subprocess.Popen('ulimit -s unlimited; exec %s check %s' % (os.path.join(VERIF, 'driver', 'qdrv'), lst),
                                            shell=True, stdout=subprocess.PIPE, stderr=subprocess.DEVNULL, text=True)))
    res = {}
    for lst, p in procs:
        try:
            out, _ = p.communicate(timeout=timeout)
        except subprocess.TimeoutExpired:
            p.kill()
            out = ''
        for ln in out.split('\n'):
            if ln.strip():
                res[ln.split()[0]] = dict(x.split('=', 1) for x in ln.split()[1:] if '=' in x)
        os.remove(lst)
    return res


def distinct_nontrivial(texts, needs=('W ',)):
    """number of DISTINCT case texts (image paths and case ids removed) that contain at least one line starting with
    one of `needs` (by default: at least one write)"""
    seen = set()
    for t in texts:
        body = '\n'.join(l for l in t.split('\n') if not l.startswith(('case ', 'image file', 'image hex', 'breq ', 'bhist ')))
        if any(l.startswith(needs) for l in body.split('\n')):
            seen.add(hashlib.sha1(body.encode()).hexdigest())
    return len(seen)
