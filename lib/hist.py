"""History generation, the flat reference disk, and parsing of harness observations."""
import os, re, json
import qv

BLK = 512
POISON = 'wa5a5a5a5a5a5a5a5'


class Geom:
    def __init__(self, cb, ro, size, bs, l2, rb, punch=1):
        self.cb, self.ro, self.size, self.bs, self.l2, self.rb, self.punch = cb, ro, size, bs, l2, rb, punch

    @property
    def cs(self):
        return 1 << self.cb

    def params(self, ro=0):
        def c(x):
            return '-' if x is None else '%d:%d' % x
        return '%d %s %s %d' % (self.bs, c(self.l2), c(self.rb), ro)

    def desc(self):
        return 'cb=%d ro=%d size=%d bs=%d l2=%s rb=%s punch=%d' % (self.cb, self.ro, self.size, self.bs, self.l2, self.rb, self.punch)


def rand_params(rng, cb, allow_default=True):
    bs = rng.choice([9, 9, 10, 11, 12])
    bs = min(bs, cb)
    if allow_default and cb >= 12 and rng.random() < 0.25:
        return 9, None, None
    l2b = rng.randint(bs, cb)
    rbb = rng.randint(bs, cb)
    l2 = (l2b, rng.choice([2, 2, 3, 4, 8]) << l2b)
    rb = (rbb, rng.choice([2, 2, 3, 4, 8]) << rbb)
    return bs, l2, rb


def rand_geom(rng, small=True, cbs=None):
    cb = rng.choice(cbs or [9, 9, 9, 10, 10, 11, 12, 13, 16])
    ro = rng.choice([0, 1, 2, 3, 4, 4, 5, 6])
    cs = 1 << cb
    nclusters = rng.choice([8, 16, 33, 64, 100, 256])
    if cb <= 10 and rng.random() < 0.25:
        # large sparse disk: several L1 blocks / many L2 tables, touched at a few spots
        nclusters = rng.choice([4096, 8192, 16384, 40000])
    size = nclusters * cs
    if rng.random() < 0.2 and cs > 512:
        size += rng.choice([512, cs // 2, cs - 512])
    bs, l2, rb = rand_params(rng, cb)
    while size % (1 << bs) and bs > 9:
        bs -= 1
    return Geom(cb, ro, size, bs, l2, rb, punch=rng.choice([1, 1, 1, 0]))


class Flat:
    """flat reference disk at 512-byte granularity; block value = what the harness prints"""

    def __init__(self, size, init=None):
        self.size = size
        self.blk = dict(init or {})   # block index -> value string; absent = zero
        self.alloc = set()            # guest clusters with an own uncompressed allocation (for discard)

    def val(self, b):
        return self.blk.get(b, 'w0')

    def write(self, off, length, tag, cs):
        for i in range(length // BLK):
            b = off // BLK + i
            self.blk[b] = 'w%x' % ((tag << 40) | (b & 0xffffffffff))
        if length > 0:
            for c in range(off // cs, (off + length - 1) // cs + 1):
                self.alloc.add(c)

    def read(self, off, length):
        return [self.val(off // BLK + i) for i in range(length // BLK)]

    def discard(self, off, length, cs, kinds=None):
        """C11's rule: whole clusters inside [off, off+len) clipped to the virtual size; only clusters
        with their own uncompressed allocation become zero"""
        if length == 0:
            return
        end = min(min(off + length, (1 << 64) - 1), self.size)
        if off >= end:
            return
        start = (off + cs - 1) // cs * cs
        stop = end // cs * cs
        c = start
        while c < stop:
            gc = c // cs
            if gc in self.alloc:
                for b in range(c // BLK, (c + cs) // BLK):
                    self.blk.pop(b, None)
                self.alloc.discard(gc)
            c += cs


def gen_ops(rng, g, nops, mix=None, flush_end=True):
    """structured, argument-valid operation list; returns list of tuples"""
    ops = []
    cs, bs = g.cs, 1 << g.bs
    size = g.size
    tag = 1
    hot = [rng.randrange(0, max(1, size // cs)) for _ in range(4)]
    if g.l2 and rng.random() < 0.5:
        # straddle an L2 slice boundary (slices of one table are flushed separately)
        se = (1 << g.l2[0]) // 8
        nsl = max(1, (size // cs) // se)
        b = se * rng.randrange(1, nsl + 1)
        hot = [min(max(0, b + d), max(0, size // cs - 1)) for d in (-2, -1, 0, 1)]
    elif rng.random() < 0.5:
        # neighbours inside one L2 table / slice
        hot = [min(max(0, hot[0] + d), max(0, size // cs - 1)) for d in (0, 1, 2, 5)]

    def rnd_range(maxlen_clusters=3):
        k = rng.random()
        if k < 0.35:      # sub-cluster
            c = rng.choice(hot) if rng.random() < 0.6 else rng.randrange(0, max(1, size // cs))
            nb = cs // bs
            a = rng.randrange(0, nb)
            l = rng.randrange(1, nb - a + 1)
            off, ln = c * cs + a * bs, l * bs
        elif k < 0.6:     # whole clusters
            c = rng.choice(hot) if rng.random() < 0.5 else rng.randrange(0, max(1, size // cs))
            n = rng.randrange(1, maxlen_clusters + 1)
            off, ln = c * cs, n * cs
        else:             # straddling
            total = size // bs
            a = rng.randrange(0, total)
            l = rng.randrange(1, min(total - a, maxlen_clusters * cs // bs) + 1)
            off, ln = a * bs, l * bs
        if off + ln > size // bs * bs:
            ln = size // bs * bs - off
        return off, max(ln, 0)
    mix = mix or {'W': 40, 'R': 30, 'D': 10, 'F': 8, 'K': 4, 'O': 4, 'S': 2, 'N': 2}
    kinds = [k for k, w in mix.items() for _ in range(w)]
    for _ in range(nops):
        k = rng.choice(kinds)
        if k == 'W':
            off, ln = rnd_range()
            if ln == 0:
                continue
            ops.append(('W', off, ln, tag))
            tag += 1
        elif k == 'R':
            off, ln = rnd_range(4)
            if ln == 0:
                continue
            ops.append(('R', off, ln))
        elif k == 'D':
            if rng.random() < 0.7:
                c = rng.choice(hot) if rng.random() < 0.6 else rng.randrange(0, max(1, size // cs))
                ops.append(('D', c * cs, cs * rng.randrange(1, 4)))
            elif rng.random() < 0.7:
                off = rng.randrange(0, size)
                ops.append(('D', off, rng.randrange(0, 4 * cs)))
            else:
                # boundary arguments: zero length, beyond the end, saturating
                off = rng.choice([0, rng.randrange(0, size), size - 1, size, size + cs, (1 << 64) - 1, (1 << 63)])
                ln = rng.choice([0, 1, cs, size, (1 << 64) - 1, (1 << 64) - 1 - off if off < (1 << 64) - 1 else 1, 1 << 63])
                ops.append(('D', off, ln))
        elif k == 'O':
            bs2, l2, rb = rand_params(rng, g.cb)
            # block size must divide what the history uses: keep the history's block size or smaller
            bs2 = min(bs2, g.bs)
            g2 = Geom(g.cb, g.ro, g.size, bs2, l2, rb)
            ops.append(('F',))
            ops.append(('O', g2.params()))
        else:
            ops.append((k,))
    if flush_end:
        ops.append(('F',))
    return ops


def boundary_ops(rng, g):
    """histories that work across an L2 slice / L2 table boundary: multi-cluster writes, flush,
    discard and rewrite of a range that has clusters on both sides of the boundary"""
    cs, bs = g.cs, 1 << g.bs
    nclus = g.size // cs
    l2e = cs // 8
    se = (1 << g.l2[0]) // 8 if g.l2 else min(512, l2e)
    cands = [b for b in list(range(se, nclus - 2, se))[:6] + list(range(l2e, nclus - 2, l2e))[:2] if 2 <= b < nclus - 2]
    if not cands:
        return None
    b = rng.choice(cands)
    k1, k2 = rng.randrange(1, 3), rng.randrange(1, 3)
    lo, hi = (b - k1) * cs, (b + k2) * cs
    ops = []
    tag = 1
    if rng.random() < 0.5:
        ops.append(('W', lo, hi - lo, tag)); tag += 1
    else:
        for c in range(b - k1, b + k2):
            ops.append(('W', c * cs + rng.randrange(0, cs // bs) * bs, bs, tag)); tag += 1
    if rng.random() < 0.8:
        ops += [('F',), ('S',)]
    ops.append(('D', lo, hi - lo))
    if rng.random() < 0.6:
        other = rng.randrange(0, nclus)
        ops.append(('W', other * cs, cs, tag)); tag += 1
    if rng.random() < 0.5:
        ops.append(('W', (b - 1) * cs, 2 * cs, tag)); tag += 1
    ops.append(('F',))
    if rng.random() < 0.5:
        ops.append(('S',))
    return ops


def op_line(op):
    if op[0] == 'O':
        return 'open ' + op[1]
    return ' '.join(str(x) for x in op)


def case_text(cid, g, ops, image=None, extra_open=True):
    lines = ['case %s' % cid]
    lines.append(image or ('image format %d %d %d %d' % (g.size, g.cb, g.ro, 512)))
    tail = getattr(g, 'tail', None)
    lines.append(('opt tail=%d:%d punch=%d' % (tail[0], tail[1], g.punch)) if tail else 'opt punch=%d' % g.punch)
    if extra_open:
        lines.append('open ' + g.params())
    for op in ops:
        lines.append(op if isinstance(op, str) else op_line(op))
    lines.append('end')
    return '\n'.join(lines) + '\n'


def parse_output(text):
    """-> {case_id: [lines]}"""
    cases = {}
    cur = None
    for ln in text.split('\n'):
        if ln.startswith('case '):
            cur = ln.split()[1]
            cases[cur] = []
        elif ln == 'end':
            cur = None
        elif cur is not None and ln:
            cases[cur].append(ln)
    return cases


def parse_map(s):
    """'0=D:2560:0:1 2=...' -> {gc: (kind, off, len, copied)}"""
    m = {}
    for tok in s.split():
        if '=' not in tok:
            continue
        k, v = tok.split('=', 1)
        parts = v.split(':')
        if len(parts) == 4:
            m[int(k)] = (parts[0], int(parts[1]), int(parts[2]), int(parts[3]))
        else:
            m[int(k)] = ('ERR', v, 0, 0)
    return m
